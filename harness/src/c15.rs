//! C15: decoders and loaders reject malformed bytes with an error, never a crash.
//!
//! Oracle (decides the property on the real code, independent of the Coq model): every parser in
//! `c15_parsers.rs` is fed (a) all short byte strings, (b) every valid encoding mutated by truncation at
//! every length, byte substitution at every offset with {00,01,7F,80,FF}, every byte +-1, every 2/4/8-byte field set to
//! FF.., a maximal LEB128 spliced in at every offset, appended garbage, deletions/duplications, random
//! multi-byte damage, (c) random strings, each with every plausible expected-length argument.  The cases
//! run in child processes under RLIMIT_AS with a per-case wall-clock limit; the verdict per case is
//! Ok | Err (fine) or Panic | Abort(signal) | Timeout (violation).
//!
//! Correspondence: for the parsers that have a Gallina model (coq/C15/Model.v) a sample of the cases,
//! with what the implementation returned, is evaluated by the model inside Coq.
use crate::util::*;
use serde_json::{json, Value};
use std::io::Write;
use std::os::unix::fs::FileExt;
use std::os::unix::process::ExitStatusExt;
use std::time::{Duration, Instant};

#[path = "c15_parsers.rs"]
mod parsers;
use parsers::*;

const HEADER: &str = r#"From ZV.Common Require Import Base Run.
From ZV.C15 Require Import Model ModelCases.
Open Scope N_scope.
Definition case_t : Type := xcase.
Definition ok (c : case_t) : bool := xok c.
"#;

/// the Coq term of a case: (pid, arg, aux, bytes, (pad_count, pad_byte), code, vals); a long run of one
/// byte at the end of the input is shipped as a count
fn coq_case(pid: u32, arg: u64, aux: &[u64], bytes: &[u8], code: u8, vals: &[i128]) -> String {
    let mut cut = bytes.len();
    if bytes.len() > 64 {
        let last = bytes[bytes.len() - 1];
        while cut > 0 && bytes[cut - 1] == last { cut -= 1; }
        if bytes.len() - cut < 32 { cut = bytes.len(); }
    }
    let (pc, pb) = if cut < bytes.len() { (bytes.len() - cut, bytes[cut]) } else { (0, 0) };
    format!("({}, {}, {}, {}, ({}, {}), {}, {})", pid, arg, coq_n_list(aux.iter().map(|&x| x as u128)), coq_bytes(&bytes[..cut]), pc, pb, code, coq_z_list(vals.iter().cloned()))
}
/// bytes that remain after the run-length cut (bounds the size of a case file)
fn coq_len(bytes: &[u8]) -> usize {
    if bytes.len() <= 64 { return bytes.len(); }
    let last = bytes[bytes.len() - 1];
    let mut cut = bytes.len();
    while cut > 0 && bytes[cut - 1] == last { cut -= 1; }
    if bytes.len() - cut < 32 { bytes.len() } else { cut }
}

const AS_LIMIT: u64 = 1 << 30; // address-space limit of a child
const SUBST: [u8; 5] = [0x00, 0x01, 0x7F, 0x80, 0xFF];
/// parsers that see the complete two-byte universe already in the quick tier
const FULL2: [&str; 12] = ["VarInt::decode", "VarIntEncoder/leb128/decode_u64", "VarIntEncoder/leb128/decode_i64", "VarIntEncoder/leb128/decode_u64_sequence",
    "VarIntEncoder/prefix_free/decode_u64_sequence", "VarIntEncoder/group_varint/decode_u64_sequence", "VarIntEncoder/delta/decode_u64_sequence",
    "hex_decode_bytes", "pa_zip/decode_match", "pa_zip/decode_matches", "HuffmanTree::deserialize", "DictionaryCompressor::decompress"];
const ALPHA: [u8; 12] = [0, 1, 2, 3, 5, 8, 0x10, 0x7F, 0x80, 0x81, 0xFE, 0xFF];

// ---------------------------------------------------------------------------------------------
// case sources: pure functions index -> case, computed identically by parent and child
// ---------------------------------------------------------------------------------------------
#[derive(Clone)]
enum Src {
    Mut { p: usize, seed: Vec<u8>, args: Vec<u64>, true_arg: u64, salt: u64 },
    Enum { p: usize, n: usize, alpha: Vec<u8>, arg: u64 },
    Rand { p: usize, count: usize, salt: u64, args: Vec<u64> },
    Explicit { cases: Vec<(usize, u64, Vec<u8>)> },
    /// every `stride`-th case of `inner` (expensive parsers in the quick tier)
    Sub { inner: Box<Src>, stride: usize },
    /// "long input with a lying length": a prefix of a valid encoding, then a length field (LEB128 / u32 / u64)
    /// that declares 2^64-1, 2^63, 2^40, 2^32-1, payload+1 or exactly the payload, then 65535..200000 bytes of
    /// real payload - so that a reader that works in chunks or blocks has received its first chunk(s) in
    /// full before it meets the lie
    Long { p: usize, seed: Vec<u8>, true_arg: u64, has_arg: bool },
}

const LONG_PAY: [usize; 5] = [65535, 65536, 65537, 131072, 200000];
const LONG_LIES: usize = 12;
const LONG_FILL: [u8; 2] = [0x61, 0x00];
fn leb(mut v: u64) -> Vec<u8> {
    let mut o = vec![];
    loop { let b = (v & 0x7F) as u8; v >>= 7; if v == 0 { o.push(b); return o; } o.push(b | 0x80); }
}
fn long_ats(l: usize) -> Vec<usize> {
    let mut v: Vec<usize> = (0..l.min(5)).collect();
    if l > 5 { v.push(5 + (l - 5) / 2); }
    v.push(l);
    v.dedup();
    v
}
fn long_lie(k: usize, pay: usize) -> Vec<u8> {
    match k {
        0 => { let mut v = vec![0xFF; 9]; v.push(0x01); v }
        1 => { let mut v = vec![0x80; 9]; v.push(0x01); v }                    // 2^63: just above isize::MAX
        2 => vec![0x80, 0x80, 0x80, 0x80, 0x80, 0x20],                          // 2^40
        3 => vec![0xFF, 0xFF, 0xFF, 0xFF, 0x0F],                                // 2^32 - 1
        4 => leb(pay as u64 + 1),
        5 => leb(pay as u64),
        6 => vec![0xFF; 4],
        7 => (pay as u32 + 1).to_le_bytes().to_vec(),
        8 => (1u64 << 40).to_le_bytes().to_vec(),
        9 => vec![0xFF; 8],
        10 => (pay as u64 + 1).to_le_bytes().to_vec(),
        _ => (pay as u64).to_le_bytes().to_vec(),
    }
}

fn positions(l: usize) -> Vec<usize> {
    if l <= 160 { return (0..l).collect(); }
    let mut v: Vec<usize> = (0..96).collect();
    for k in 0..32 { v.push(96 + (l - 128) * k / 32); }
    v.extend(l - 32..l);
    v.sort();
    v.dedup();
    v
}
fn trunc_lengths(l: usize) -> Vec<usize> {
    if l <= 400 { (0..l).collect() } else { positions(l) }
}
fn hex(b: &[u8]) -> String { b.iter().map(|x| format!("{:02x}", x)).collect() }
fn unhex(s: &str) -> Vec<u8> { (0..s.len() / 2).map(|i| u8::from_str_radix(&s[2 * i..2 * i + 2], 16).unwrap_or(0)).collect() }

impl Src {
    fn parser(&self) -> Option<usize> {
        match self { Src::Mut { p, .. } | Src::Enum { p, .. } | Src::Rand { p, .. } | Src::Long { p, .. } => Some(*p), Src::Explicit { .. } => None, Src::Sub { inner, .. } => inner.parser() }
    }
    fn len(&self) -> usize {
        match self {
            Src::Mut { seed, args, .. } => {
                let l = seed.len();
                let np = positions(l).len();
                args.len() + trunc_lengths(l).len() * (if args.len() > 1 { 2 } else { 1 }) + np * 5 + np * 4 + np * 2 + 16 + 48 + np * 2 + np * 2
            }
            Src::Enum { n, alpha, .. } => alpha.len().pow(*n as u32),
            Src::Rand { count, .. } => *count,
            Src::Explicit { cases } => cases.len(),
            Src::Sub { inner, stride } => (inner.len() + stride - 1) / stride,
            Src::Long { seed, has_arg, .. } => long_ats(seed.len()).len() * LONG_LIES * LONG_PAY.len() * LONG_FILL.len() * (if *has_arg { 4 } else { 1 }),
        }
    }
    /// (parser, arg, bytes, origin)
    fn get(&self, i: usize) -> (usize, u64, Vec<u8>, &'static str) {
        match self {
            Src::Sub { inner, stride } => inner.get(i * stride),
            Src::Explicit { cases } => { let c = &cases[i]; (c.0, c.1, c.2.clone(), "explicit") }
            Src::Long { p, seed, true_arg, has_arg } => {
                let mut k = i;
                let pay = LONG_PAY[k % LONG_PAY.len()]; k /= LONG_PAY.len();
                let lie = k % LONG_LIES; k /= LONG_LIES;
                let fill = LONG_FILL[k % LONG_FILL.len()]; k /= LONG_FILL.len();
                let ats = long_ats(seed.len());
                let at = ats[k % ats.len()]; k /= ats.len();
                let arg = if *has_arg { [*true_arg, pay as u64 + 1, 1u64 << 40, u64::MAX][k % 4] } else { *true_arg };
                let mut b = seed[..at].to_vec();
                b.extend(long_lie(lie, pay));
                b.resize(b.len() + pay, fill);
                (*p, arg, b, "long_lying_length")
            }
            Src::Enum { p, n, alpha, arg } => {
                let mut b = Vec::with_capacity(*n);
                let mut k = i;
                for _ in 0..*n { b.push(alpha[k % alpha.len()]); k /= alpha.len(); }
                (*p, *arg, b, "enumerated")
            }
            Src::Rand { p, salt, args, .. } => {
                let mut r = Rng::new(salt.wrapping_add(i as u64).wrapping_mul(0x9E37_79B9));
                let n = r.below(65) as usize;
                let mut b = r.bytes(n);
                match r.below(4) {
                    0 => for x in b.iter_mut() { if r.chance(2, 3) { *x |= 0x80; } },
                    1 => for x in b.iter_mut() { *x %= 4; },
                    2 => for x in b.iter_mut() { if r.chance(1, 2) { *x = *r.pick(&[0u8, 1, 0x7F, 0x80, 0xFF]); } },
                    _ => {}
                }
                let a = args[r.below(args.len() as u64) as usize];
                (*p, a, b, "random")
            }
            Src::Mut { p, seed, args, true_arg, salt } => {
                let l = seed.len();
                let pos = positions(l);
                let np = pos.len();
                let tl = trunc_lengths(l);
                let mut k = i;
                if k < args.len() { return (*p, args[k], seed.clone(), "valid"); }
                k -= args.len();
                let tmul = if args.len() > 1 { 2 } else { 1 };
                if k < tl.len() * tmul {
                    let a = if k >= tl.len() { u64::MAX } else { *true_arg };
                    return (*p, a, seed[..tl[k % tl.len()]].to_vec(), "truncated");
                }
                k -= tl.len() * tmul;
                if k < np * 5 {
                    let mut b = seed.clone();
                    b[pos[k / 5]] = SUBST[k % 5];
                    return (*p, *true_arg, b, "substituted");
                }
                k -= np * 5;
                if k < np * 4 {
                    let mut b = seed.clone();
                    let at = pos[k / 4];
                    let w = [2usize, 4, 8, 4][k % 4];
                    for j in at..(at + w).min(l) { b[j] = 0xFF; }
                    if k % 4 == 3 && at + 3 < l { b[at + 3] = 0x7F; }
                    return (*p, *true_arg, b, "field_maximised");
                }
                k -= np * 4;
                if k < np * 2 {
                    let at = pos[k / 2];
                    let mut b = seed[..at].to_vec();
                    if k % 2 == 0 { b.extend_from_slice(&[0xFF; 9]); b.push(0x01); } else { b.extend_from_slice(&[0xFF, 0xFF, 0xFF, 0xFF, 0x0F]); }
                    b.extend_from_slice(&seed[at + 1..]);
                    return (*p, *true_arg, b, "leb128_maximised");
                }
                k -= np * 2;
                if k < 16 {
                    let mut r = Rng::new(salt ^ (k as u64 + 77));
                    let mut b = seed.clone();
                    b.extend(r.bytes(k + 1));
                    return (*p, *true_arg, b, "garbage_appended");
                }
                k -= 16;
                if k < 48 {
                    let mut r = Rng::new(salt.wrapping_add(1000 + k as u64));
                    let mut b = seed.clone();
                    if l > 0 {
                        for _ in 0..r.range(2, 4) {
                            let at = r.below(l as u64) as usize;
                            b[at] = if r.chance(1, 2) { *r.pick(&SUBST) } else { r.next() as u8 };
                        }
                    }
                    return (*p, *true_arg, b, "multi_byte");
                }
                k -= 48;
                if k < np * 2 {
                    // off-by-one neighbours of every byte: length/offset fields just past their bound
                    let mut b = seed.clone();
                    let at = pos[k / 2];
                    b[at] = if k % 2 == 0 { b[at].wrapping_add(1) } else { b[at].wrapping_sub(1) };
                    return (*p, *true_arg, b, "byte_plus_minus_one");
                }
                k -= np * 2;
                let at = pos[k / 2];
                let mut b = seed[..at].to_vec();
                if k % 2 == 1 { b.push(seed[at]); b.push(seed[at]); }
                b.extend_from_slice(&seed[at + 1..]);
                (*p, *true_arg, b, if k % 2 == 1 { "byte_duplicated" } else { "byte_deleted" })
            }
        }
    }
    fn to_json(&self, names: &[&str]) -> Value {
        let us = |v: &Vec<u64>| v.iter().map(|x| x.to_string()).collect::<Vec<_>>();
        match self {
            Src::Mut { p, seed, args, true_arg, salt } => json!({"k": "mut", "p": names[*p], "seed": hex(seed), "args": us(args), "true_arg": true_arg.to_string(), "salt": salt.to_string()}),
            Src::Enum { p, n, alpha, arg } => json!({"k": "enum", "p": names[*p], "n": n, "alpha": hex(alpha), "arg": arg.to_string()}),
            Src::Rand { p, count, salt, args } => json!({"k": "rand", "p": names[*p], "count": count, "salt": salt.to_string(), "args": us(args)}),
            Src::Sub { inner, stride } => json!({"k": "sub", "stride": stride, "inner": inner.to_json(names)}),
            Src::Long { p, seed, true_arg, has_arg } => json!({"k": "long", "p": names[*p], "seed": hex(seed), "true_arg": true_arg.to_string(), "has_arg": has_arg}),
            Src::Explicit { cases } => json!({"k": "explicit", "cases": cases.iter().map(|c| json!({"p": names[c.0], "arg": c.1.to_string(), "bytes": hex(&c.2)})).collect::<Vec<_>>()}),
        }
    }
    fn from_json(v: &Value, names: &[&str]) -> Src {
        let pi = |x: &Value| names.iter().position(|n| Some(*n) == x.as_str()).expect("parser name");
        let u = |x: &Value| x.as_str().and_then(|s| s.parse::<u64>().ok()).unwrap_or(0);
        let ul = |x: &Value| x.as_array().map(|a| a.iter().map(|y| u(y)).collect::<Vec<u64>>()).unwrap_or_default();
        match v["k"].as_str().unwrap_or("") {
            "mut" => Src::Mut { p: pi(&v["p"]), seed: unhex(v["seed"].as_str().unwrap_or("")), args: ul(&v["args"]), true_arg: u(&v["true_arg"]), salt: u(&v["salt"]) },
            "enum" => Src::Enum { p: pi(&v["p"]), n: v["n"].as_u64().unwrap_or(0) as usize, alpha: unhex(v["alpha"].as_str().unwrap_or("")), arg: u(&v["arg"]) },
            "long" => Src::Long { p: pi(&v["p"]), seed: unhex(v["seed"].as_str().unwrap_or("")), true_arg: u(&v["true_arg"]), has_arg: v["has_arg"].as_bool().unwrap_or(false) },
            "sub" => Src::Sub { inner: Box::new(Src::from_json(&v["inner"], names)), stride: v["stride"].as_u64().unwrap_or(1).max(1) as usize },
            "rand" => Src::Rand { p: pi(&v["p"]), count: v["count"].as_u64().unwrap_or(0) as usize, salt: u(&v["salt"]), args: ul(&v["args"]) },
            _ => Src::Explicit { cases: v["cases"].as_array().map(|a| a.iter().map(|c| (pi(&c["p"]), u(&c["arg"]), unhex(c["bytes"].as_str().unwrap_or("")))).collect()).unwrap_or_default() },
        }
    }
}

// ---------------------------------------------------------------------------------------------
// child: run the cases of a job file, reporting through two files
// ---------------------------------------------------------------------------------------------
fn vm_bytes() -> u64 {
    std::fs::read_to_string("/proc/self/statm").ok()
        .and_then(|t| t.split_whitespace().next().and_then(|x| x.parse::<u64>().ok())).map(|pages| pages * 4096).unwrap_or(0)
}
thread_local! { static LAST_PANIC_AT: std::cell::RefCell<String> = std::cell::RefCell::new(String::new()); }
fn child_main(job: &Value) {
    unsafe {
        let lim = libc::rlimit { rlim_cur: AS_LIMIT, rlim_max: AS_LIMIT };
        libc::setrlimit(libc::RLIMIT_AS, &lim);
        let core = libc::rlimit { rlim_cur: 0, rlim_max: 0 };
        libc::setrlimit(libc::RLIMIT_CORE, &core);
    }
    // remember where a panic was raised: the location goes into the failure detail
    std::panic::set_hook(Box::new(|info| {
        let loc = info.location().map(|l| format!("{}:{}", l.file().rsplit("/src/").next().unwrap_or(""), l.line())).unwrap_or_default();
        LAST_PANIC_AT.with(|c| *c.borrow_mut() = loc);
    }));
    let ps = parsers();
    let names: Vec<&str> = ps.iter().map(|p| p.name).collect();
    let srcs: Vec<(Src, usize)> = job["sources"].as_array().unwrap().iter()
        .map(|s| (Src::from_json(s, &names), s["obs_stride"].as_u64().unwrap_or(0) as usize)).collect();
    // progress record shared with the parent: (counter, source, index), written without a syscall
    let cur = std::fs::OpenOptions::new().read(true).write(true).create(true).open(job["cur"].as_str().unwrap()).unwrap();
    let _ = cur.set_len(24);
    let cur_ptr: *mut u64 = unsafe {
        let p = libc::mmap(std::ptr::null_mut(), 4096, libc::PROT_READ | libc::PROT_WRITE, libc::MAP_SHARED, std::os::unix::io::AsRawFd::as_raw_fd(&cur), 0);
        if p == libc::MAP_FAILED { std::process::exit(3); }
        p as *mut u64
    };
    let mut res = std::fs::OpenOptions::new().append(true).create(true).open(job["res"].as_str().unwrap()).unwrap();
    let s0 = job["start_src"].as_u64().unwrap_or(0) as usize;
    let i0 = job["start_i"].as_u64().unwrap_or(0) as usize;
    let mut counter: u64 = 0;
    for si in s0..srcs.len() {
        let (src, stride) = &srcs[si];
        let n = src.len();
        let (mut nok, mut nerr) = (0u64, 0u64);
        let t_src = Instant::now();
        for i in (if si == s0 { i0 } else { 0 })..n {
            counter += 1;
            unsafe {
                std::ptr::write_volatile(cur_ptr.add(1), si as u64);
                std::ptr::write_volatile(cur_ptr.add(2), i as u64);
                std::ptr::write_volatile(cur_ptr, counter);
            }
            let (p, arg, bytes, _) = src.get(i);
            let want = *stride > 0 && i % *stride == 0;
            match guarded(|| (ps[p].run)(&bytes, arg)) {
                Err(msg) => {
                    let at = LAST_PANIC_AT.with(|c| c.borrow().clone());
                    let m: String = msg.chars().filter(|c| *c != '\n' && *c != '\t').take(120).collect();
                    let _ = writeln!(res, "P\t{}\t{}\t{} @ {}", si, i, m, at);
                }
                Ok(Ok(vals)) => {
                    nok += 1;
                    if want { let _ = writeln!(res, "O\t{}\t{}\t0\t{}", si, i, vals.iter().take(200).map(|x| x.to_string()).collect::<Vec<_>>().join(",")); }
                }
                Ok(Err(_)) => { nerr += 1; if want { let _ = writeln!(res, "O\t{}\t{}\t1\t", si, i); } }
            }
            // accumulated allocator state must not turn into a false alarm: ask to be restarted
            if counter % 128 == 0 && vm_bytes() > AS_LIMIT / 3 {
                let _ = writeln!(res, "C\t{}\t{}\t{}", si, nok, nerr);
                std::process::exit(77);
            }
            if (nok + nerr) % 2000 == 0 && nok + nerr > 0 { let _ = writeln!(res, "C\t{}\t{}\t{}", si, nok, nerr); nok = 0; nerr = 0; }
        }
        let _ = writeln!(res, "C\t{}\t{}\t{}", si, nok, nerr);
        let _ = writeln!(res, "T\t{}\t{}", si, t_src.elapsed().as_millis());
    }
}

// ---------------------------------------------------------------------------------------------
// parent: drive children, observe crashes
// ---------------------------------------------------------------------------------------------
#[derive(Clone, Debug)]
struct Fail { src: usize, i: usize, kind: &'static str, msg: String }
#[derive(Clone, Debug)]
struct ObsEv { src: usize, i: usize, code: u8, vals: Vec<i128> }
#[derive(Default)]
struct WorkerOut { recycled: u64, unconfirmed: u64, ms: Vec<(usize, u64)>, fails: Vec<Fail>, obs: Vec<ObsEv>, ok: Vec<(usize, u64)>, err: Vec<(usize, u64)>, notes: Vec<String>, restarts: u64 }

fn run_worker(w: usize, globals: Vec<usize>, srcs: &[Src], strides: &[usize], names: &[&str], out: &str, limit: Duration, confirm: bool) -> WorkerOut {
    let mut o = WorkerOut::default();
    let job_path = format!("{}/c15_job_{}.json", out, w);
    let cur_path = format!("{}/c15_cur_{}.bin", out, w);
    let res_path = format!("{}/c15_res_{}.txt", out, w);
    let _ = std::fs::remove_file(&res_path);
    let src_json: Vec<Value> = globals.iter().map(|&g| { let mut j = srcs[g].to_json(names); j["obs_stride"] = json!(strides[g]); j }).collect();
    let exe = std::env::current_exe().expect("current exe");
    let (mut s0, mut i0) = (0usize, 0usize);
    let mut deaths: std::collections::HashMap<usize, u32> = Default::default();
    let mut hangs: std::collections::HashMap<Option<usize>, u32> = Default::default();
    loop {
        if s0 >= globals.len() { break; }
        let job = json!({"child": true, "sources": src_json, "cur": cur_path, "res": res_path, "start_src": s0, "start_i": i0});
        std::fs::write(&job_path, serde_json::to_string(&job).unwrap()).unwrap();
        std::fs::write(&cur_path, [0u8; 24]).unwrap();
        let mut child = match std::process::Command::new(&exe)
            .args(["C15", "--seed", "0", "--tier", "quick", "--out", out, "--replay", &job_path])
            .env("ZV_C15_TMP", out)
            .stdin(std::process::Stdio::null()).stdout(std::process::Stdio::null()).stderr(std::process::Stdio::null())
            .spawn() { Ok(c) => c, Err(e) => { o.notes.push(format!("cannot spawn child: {}", e)); break; } };
        let read_cur = || -> (u64, usize, usize) {
            let mut rec = [0u8; 24];
            if let Ok(f) = std::fs::File::open(&cur_path) { let _ = f.read_at(&mut rec, 0); }
            (u64::from_le_bytes(rec[..8].try_into().unwrap()), u64::from_le_bytes(rec[8..16].try_into().unwrap()) as usize, u64::from_le_bytes(rec[16..].try_into().unwrap()) as usize)
        };
        // the limit is on the child's CPU time since its last progress (a hang burns CPU; a loaded
        // machine must not turn a slow-but-finite case into a false alarm); wall clock x10 as a backstop
        let pid = child.id();
        let cpu_ms = move || -> u64 {
            std::fs::read_to_string(format!("/proc/{}/stat", pid)).ok().and_then(|t| {
                let rest = t.rsplit(')').next()?.to_string();
                let f: Vec<&str> = rest.split_whitespace().collect();
                Some((f.get(11)?.parse::<u64>().ok()? + f.get(12)?.parse::<u64>().ok()?) * 10)
            }).unwrap_or(0)
        };
        let mut last = 0u64;
        let mut last_change = Instant::now();
        let mut cpu_at_change = 0u64;
        let mut timed_out = false;
        let mut polls = 0u64;
        let status = loop {
            match child.try_wait() {
                Ok(Some(st)) => break Some(st),
                Ok(None) => {}
                Err(_) => break None,
            }
            let (c, _, _) = read_cur();
            if c != last { last = c; last_change = Instant::now(); cpu_at_change = cpu_ms(); }
            // the first case of a child also pays for building the trained codecs
            else if polls % 8 == 0 && (Duration::from_millis(cpu_ms().saturating_sub(cpu_at_change)) > limit + if c <= 1 { Duration::from_secs(4) } else { Duration::ZERO }
                     || last_change.elapsed() > limit * 10) {
                let _ = child.kill();
                timed_out = true;
                break child.wait().ok();
            }
            polls += 1;
            std::thread::sleep(Duration::from_millis(if polls < 200 { 1 } else { 10 }));
        };
        let clean = !timed_out && status.map(|s| s.success()).unwrap_or(false);
        if clean { break; }
        let (c, si, i) = read_cur();
        if !timed_out && status.and_then(|s| s.code()) == Some(77) {
            // the child asked for a fresh process after finishing case (si, i)
            o.recycled += 1;
            s0 = si; i0 = i + 1;
            while s0 < globals.len() && i0 >= srcs[globals[s0]].len() { s0 += 1; i0 = 0; }
            continue;
        }
        if c == 0 {
            o.notes.push(format!("child of worker {} died before its first case ({:?})", w, status));
            break;
        }
        let (kind, msg) = if timed_out { ("timeout", format!("no result within {:?} of CPU time", limit)) } else {
            match status.and_then(|s| s.signal()) {
                Some(sig) => ("abort", format!("killed by signal {} ({})", sig, match sig { 6 => "SIGABRT", 11 => "SIGSEGV", 7 => "SIGBUS", 4 => "SIGILL", 9 => "SIGKILL", 8 => "SIGFPE", _ => "?" })),
                None => ("abort", format!("exit status {:?}", status.and_then(|s| s.code()))),
            }
        };
        // a death counts only if the case also kills a fresh child on its own
        let confirmed = if confirm {
            let (p, arg, bytes, _) = srcs[globals[si]].get(i);
            let one = vec![Src::Explicit { cases: vec![(p, arg, bytes)] }];
            let sub = run_worker(1000 + w, vec![0], &one, &[0], names, out, limit, false);
            !sub.fails.is_empty()
        } else { true };
        if confirmed { o.fails.push(Fail { src: globals[si], i, kind, msg }); }
        else { o.unconfirmed += 1; o.notes.push(format!("child death ({}: {}) on source {} case {} did not reproduce in a fresh process - not counted", kind, msg, globals[si], i)); }
        o.restarts += 1;
        if o.restarts > 3000 { o.notes.push(format!("worker {} gave up after 3000 restarts", w)); break; }
        s0 = si; i0 = i + 1;
        // a systematically broken parser must not eat the budget: after 3 hangs, or 40 process deaths
        // in one source, the rest of that source is skipped (it already has its failing inputs)
        *deaths.entry(si).or_insert(0u32) += 1;
        if timed_out { *hangs.entry(srcs[globals[si]].parser()).or_insert(0u32) += 1; }
        let hung = |k: usize| hangs.get(&srcs[globals[k]].parser()).copied().unwrap_or(0) >= 2;
        if deaths[&si] >= 40 || hung(si) {
            o.notes.push(format!("source {} ({}) abandoned after repeated crashes/timeouts", globals[si], srcs[globals[si]].parser().map(|p| names[p]).unwrap_or("?")));
            s0 = si + 1; i0 = 0;
            while s0 < globals.len() && hung(s0) { s0 += 1; }
        }
        while s0 < globals.len() && i0 >= srcs[globals[s0]].len() { s0 += 1; i0 = 0; }
    }
    if let Ok(txt) = std::fs::read_to_string(&res_path) {
        for line in txt.lines() {
            let f: Vec<&str> = line.split('\t').collect();
            if f.len() < 3 { continue; }
            let si: usize = match f[1].parse() { Ok(x) => x, Err(_) => continue };
            if si >= globals.len() { continue; }
            let g = globals[si];
            match f[0] {
                "P" if f.len() >= 4 => o.fails.push(Fail { src: g, i: f[2].parse().unwrap_or(0), kind: "panic", msg: f[3].to_string() }),
                "O" if f.len() >= 4 => o.obs.push(ObsEv { src: g, i: f[2].parse().unwrap_or(0), code: f[3].parse().unwrap_or(9),
                    vals: f.get(4).map(|s| s.split(',').filter_map(|x| x.parse().ok()).collect()).unwrap_or_default() }),
                "T" => o.ms.push((g, f[2].parse().unwrap_or(0))),
                "C" if f.len() >= 4 => { o.ok.push((g, f[2].parse().unwrap_or(0))); o.err.push((g, f[3].parse().unwrap_or(0))); }
                _ => {}
            }
        }
    }
    for p in [&job_path, &cur_path, &res_path] { let _ = std::fs::remove_file(p); }
    o
}

fn run_all(srcs: &[Src], strides: &[usize], names: &[&str], out: &str, workers: usize, limit: Duration, confirm: bool) -> WorkerOut {
    let weight = |g: usize| -> u64 { srcs[g].len() as u64 * srcs[g].parser().map(|p| cost_us(names[p])).unwrap_or(20) + 2000 };
    // longest sources first, greedily onto the least loaded worker
    let mut order: Vec<usize> = (0..srcs.len()).collect();
    order.sort_by_key(|&g| std::cmp::Reverse(weight(g)));
    let mut buckets: Vec<(u64, Vec<usize>)> = (0..workers.max(1)).map(|_| (0, vec![])).collect();
    for g in order {
        let b = buckets.iter_mut().min_by_key(|b| b.0).unwrap();
        b.0 += weight(g);
        b.1.push(g);
    }
    let mut total = WorkerOut::default();
    std::thread::scope(|sc| {
        let hs: Vec<_> = buckets.into_iter().enumerate().filter(|(_, b)| !b.1.is_empty())
            .map(|(w, b)| sc.spawn(move || run_worker(w, b.1, srcs, strides, names, out, limit, confirm))).collect();
        for h in hs {
            if let Ok(o) = h.join() {
                total.ms.extend(o.ms); total.fails.extend(o.fails); total.obs.extend(o.obs); total.ok.extend(o.ok); total.err.extend(o.err);
                total.notes.extend(o.notes); total.restarts += o.restarts; total.recycled += o.recycled; total.unconfirmed += o.unconfirmed;
            }
        }
    });
    total.fails.sort_by_key(|f| (f.src, f.i));
    total.obs.sort_by_key(|f| (f.src, f.i));
    total
}

// ---------------------------------------------------------------------------------------------
// finding classes: decidable predicates on (parser, bytes, arg); see findings/C15.txt
// ---------------------------------------------------------------------------------------------
fn known_class(_name: &str, _bytes: &[u8], _arg: u64, _kind: &str, _msg: &str) -> Option<&'static str> {
    None
}

/// rough cost of one call in microseconds (measured with ZV_C15_TIMES=1); only steers sampling and load balance
fn cost_us(name: &str) -> u64 {
    if name.starts_with("ContextualHuffman/decode_x") { 100_000 }
    // measured ~5 ms with the hand-made encoders, 14 ms with trained ones; budgeted so that the damaged
    // hand-made encoders (context map and tree table a few bytes from the start) are all run
    else if name == "ContextualHuffmanEncoder::deserialize+decode" { 700 }
    else if name == "Compressor/rans/decompress" { 3_000 }
    else if name.starts_with("Compressor/") || name.contains("Mmap") || name.contains("ZReorderMap") || name.contains("ContextualHuffman") || name.contains("fse") { 300 }
    else { 20 }
}

/// parsers that read in chunks or blocks (64 KiB `read_vec` chunks, 8 KiB skip buffers, 4096-element
/// pre-allocation caps, block-structured files): they get the long-input family for every seed
fn chunked(name: &str) -> bool {
    ["DataInput", "MappedInput", "SerializableType", "ComplexTypeSerializer", "SmartPtrSerializer", "ZipOffset", "SortedUintVec", "ZReorderMap", "MmapVec",
     "Dictionary", "DfaCache", "fse", "simd_encoding", "VarInt::decode_multiple", "sequence"].iter().any(|k| name.contains(k))
}

fn case_json(name: &str, arg: u64, bytes: &[u8], origin: &str) -> Value {
    json!({"cell": name, "parser": name, "arg": arg.to_string(), "bytes": bytes, "origin": origin})
}

fn arg_list(has_arg: bool, len: u64) -> Vec<u64> {
    if !has_arg { return vec![len]; }
    let mut v = vec![len, 0, 1, len.saturating_sub(1), len + 1, (1u64 << 32) - 1, u64::MAX];
    let mut seen = std::collections::HashSet::new();
    v.retain(|x| seen.insert(*x));
    v
}

pub fn run(args: &Args) {
    // private sub-mode: a child process executing a job file
    if let Some(f) = &args.replay {
        if let Ok(txt) = std::fs::read_to_string(f) {
            if let Ok(v) = serde_json::from_str::<Value>(&txt) {
                if v.get("child").is_some() { child_main(&v); return; }
            }
        }
    }
    let ps = parsers();
    let names: Vec<&str> = ps.iter().map(|p| p.name).collect();
    let mut sum = Summary::new("C15", "every parser x {all byte strings of length <= 1, length 2 (all 65536 for cheap parsers, a 12-letter boundary alphabet otherwise), length 3 over the alphabet; every valid encoding (several messages per codec) mutated by truncation at every length, substitution at every offset with 00/01/7F/80/FF and with byte+-1, 2/4/8-byte fields set to FF, maximal LEB128 spliced in, 1-16 bytes appended, byte deleted/duplicated, random multi-byte damage; random strings <= 64 bytes} x every plausible expected-length argument {0,1,len-1,len,len+1,2^32-1,usize::MAX}; each case in a child process under RLIMIT_AS 1 GiB with a wall-clock limit; a case is non-trivial when it is a damaged valid encoding or has >= 2 bytes; distinct = distinct (source,index)");
    sum.max_failures = 60;
    let mut shards = CoqShards::new(HEADER, 300);
    let limit = Duration::from_secs(if args.thorough { 10 } else { 4 });
    let mut rng = Rng::new(args.seed);

    // ---- build the sources -------------------------------------------------------------------
    let mut srcs: Vec<Src> = vec![];
    let replaying = args.replay.is_some();
    if let Some(f) = &args.replay {
        let txt = std::fs::read_to_string(f).expect("replay file");
        let v: Value = serde_json::from_str(&txt).expect("replay json");
        let c = if v.get("case").is_some() { v["case"].clone() } else { v };
        if let Some(pi) = names.iter().position(|n| Some(*n) == c["parser"].as_str()) {
            let bytes: Vec<u8> = c["bytes"].as_array().map(|a| a.iter().map(|x| x.as_u64().unwrap_or(0) as u8).collect()).unwrap_or_default();
            let arg = c["arg"].as_str().and_then(|s| s.parse().ok()).or(c["arg"].as_u64()).unwrap_or(0);
            srcs.push(Src::Explicit { cases: vec![(pi, arg, bytes)] });
        }
    } else {
        // corpus first
        let mut corpus = vec![];
        if let Ok(rd) = std::fs::read_dir("corpus/C15") {
            let mut files: Vec<_> = rd.filter_map(|e| e.ok()).map(|e| e.path()).collect();
            files.sort();
            for p in files {
                if let Ok(txt) = std::fs::read_to_string(&p) {
                    if let Ok(v) = serde_json::from_str::<Value>(&txt) {
                        let c = if v.get("case").is_some() { v["case"].clone() } else { v };
                        if let Some(pi) = names.iter().position(|n| Some(*n) == c["parser"].as_str()) {
                            let bytes: Vec<u8> = c["bytes"].as_array().map(|a| a.iter().map(|x| x.as_u64().unwrap_or(0) as u8).collect()).unwrap_or_default();
                            let arg = c["arg"].as_str().and_then(|s| s.parse().ok()).unwrap_or(0);
                            corpus.push((pi, arg, bytes));
                            sum.dist("corpus_cases");
                        }
                    }
                }
            }
        }
        if !corpus.is_empty() { srcs.push(Src::Explicit { cases: corpus }); }
        let full: Vec<u8> = (0..=255u8).collect();
        let only = std::env::var("ZV_C15_ONLY").ok(); // development aid: restrict to parsers whose name contains this
        for (pi, p) in ps.iter().enumerate() {
            if let Some(o) = &only { if !p.name.contains(o.as_str()) { continue; } }
            let args_small = arg_list(p.has_arg, 2);
            for &a in &args_small {
                srcs.push(Src::Enum { p: pi, n: 0, alpha: full.clone(), arg: a });
                srcs.push(Src::Enum { p: pi, n: 1, alpha: full.clone(), arg: a });
            }
            let a0 = if p.has_arg { 2 } else { 0 };
            if FULL2.contains(&p.name) || args.thorough { srcs.push(Src::Enum { p: pi, n: 2, alpha: full.clone(), arg: a0 }); }
            else { srcs.push(Src::Enum { p: pi, n: 2, alpha: ALPHA.to_vec(), arg: a0 }); }
            srcs.push(Src::Enum { p: pi, n: 3, alpha: ALPHA.to_vec(), arg: a0 });
            if p.has_arg { srcs.push(Src::Enum { p: pi, n: 2, alpha: ALPHA.to_vec(), arg: u64::MAX }); }
            if args.thorough && p.cheap && p.model != 0 { srcs.push(Src::Enum { p: pi, n: 3, alpha: full.clone(), arg: a0 }); }
            // valid encodings, mutated
            let seeds = match guarded(|| (p.seeds)(&mut rng)) {
                Ok(s) => s,
                Err(m) => { sum.notes.push(format!("seed generation for {} panicked: {}", p.name, m)); vec![] }
            };
            if seeds.is_empty() { sum.notes.push(format!("no valid encoding could be produced for {}", p.name)); }
            let max_seeds = if args.thorough { 12 } else { 6 };
            // long inputs with a lying length: every seed for the readers that work in chunks / blocks,
            // the first two (all in the thorough tier) for the rest
            let max_long = if args.thorough || chunked(p.name) { max_seeds } else { 2 };
            for (k, s) in seeds.into_iter().take(max_seeds).enumerate() {
                if s.bytes.len() > 6000 { continue; }
                if k < max_long { srcs.push(Src::Long { p: pi, seed: s.bytes.clone(), true_arg: s.len, has_arg: p.has_arg }); }
                srcs.push(Src::Mut { p: pi, seed: s.bytes, args: arg_list(p.has_arg, s.len), true_arg: s.len, salt: rng.next() ^ k as u64 });
            }
            srcs.push(Src::Rand { p: pi, count: if args.thorough { 4000 } else { 300 }, salt: rng.next(), args: arg_list(p.has_arg, 16) });
        }
    }

    // ---- expensive parsers: subsample their sources so the tier's budget holds -------------------
    if !replaying {
        let mult = if args.thorough { 12 } else { 1 };
        let mut per: std::collections::HashMap<usize, usize> = Default::default();
        // a long input costs about ten short ones
        for s in &srcs { if let Some(p) = s.parser() { *per.entry(p).or_insert(0) += s.len() * (if matches!(s, Src::Long { .. }) { 10 } else { 1 }); } }
        // within a parser's budget the damaged valid encodings of SHORT seeds (hand-made minimal encodings: every
        // field is a few bytes from the start) are run in full first; what is left is spread over the rest
        let wlen = |s: &Src| s.len() * (if matches!(s, Src::Long { .. }) { 10 } else { 1 });
        let mut full_budget: std::collections::HashMap<usize, usize> = Default::default();
        let mut order: Vec<usize> = (0..srcs.len()).collect();
        order.sort_by_key(|&i| wlen(&srcs[i]));
        let mut keep_full = vec![false; srcs.len()];
        let cap_of = |p: usize| (4_000_000 / cost_us(ps[p].name)).max(60) as usize * mult;
        for &i in &order {
            if let (Some(p), Src::Mut { .. }) = (srcs[i].parser(), &srcs[i]) {
                if per[&p] <= cap_of(p) { continue; }
                let used = full_budget.entry(p).or_insert(0);
                if *used + wlen(&srcs[i]) <= cap_of(p) * 2 / 3 { *used += wlen(&srcs[i]); keep_full[i] = true; }
            }
        }
        srcs = srcs.into_iter().enumerate().map(|(i, s)| match s.parser() {
            Some(p) => {
                let cap = cap_of(p);
                let total = per[&p];
                if total > cap && !keep_full[i] {
                    let used = full_budget.get(&p).copied().unwrap_or(0);
                    let rest_cap = cap.saturating_sub(used).max(cap / 3).max(1);
                    let rest_total = total - used;
                    let stride = (rest_total + rest_cap - 1) / rest_cap;
                    sum.dist_max(&format!("subsampled_stride:{}", ps[p].name), stride as u64);
                    if stride > 1 { Src::Sub { inner: Box::new(s), stride } } else { s }
                } else { s }
            }
            None => s,
        }).collect();
    }

    // ---- which cases also go to the Coq model ---------------------------------------------------
    let coq_budget: usize = if args.thorough { 6000 } else { 420 };
    // hard ceiling on the number of Coq cases (the budget above steers the strides and should stay below it)
    let coq_cap: usize = if args.thorough { 12000 } else { 1600 };
    // budget split: damaged valid encodings 66 %, enumerated 14 %, random 14 %, long inputs with a lying length 6 %
    let kind_of = |s: &Src| -> usize { let b = match s { Src::Sub { inner, .. } => &**inner, x => x }; match b { Src::Mut { .. } => 0, Src::Enum { .. } => 1, Src::Rand { .. } => 2, _ => 3 } };
    // long inputs go to Coq only for models that run in linear time (the sequence decoders re-measure the
    // remaining slice in every iteration, the PA-Zip model appends to its observation list)
    let coq_long_ok = |m: u32| matches!(m, 1 | 3 | 10..=26 | 50 | 51 | 52 | 53 | 54 | 80 | 81 | 90 | 91 | 100 | 103 | 82 | 140 | 142 | 150..=153);
    let is_long = |s: &Src| matches!(match s { Src::Sub { inner, .. } => &**inner, x => x }, Src::Long { .. });
    let modelled = |s: &Src| s.parser().map(|p| ps[p].model != 0 && (!is_long(s) || coq_long_ok(ps[p].model))).unwrap_or(false);
    let mut kind_total = [0usize; 4];
    for s in srcs.iter().filter(|s| modelled(s)) { kind_total[kind_of(s)] += s.len(); }
    let share = [66usize, 14, 14, 6];
    let strides: Vec<usize> = srcs.iter().map(|s| match s {
        Src::Explicit { cases } => if cases.iter().any(|c| ps[c.0].model != 0) { 1 } else { 0 },
        _ => if modelled(s) {
            let k = kind_of(s);
            let mut st = (kind_total[k] * 100 / (coq_budget * share[k]).max(1)).max(1);
            // the file / table loaders (header checks with narrow windows of file lengths) are sampled three
            // times as densely as the 30-odd varint cells that share one model
            if s.parser().map(|p| matches!(ps[p].model, 90 | 91 | 103 | 104 | 140 | 141 | 142)).unwrap_or(false) { st = (st / 3).max(1); }
            // odd stride: walks through every mutation kind
            if s.len() <= 2 { 1 } else { st | 1 }
        } else { 0 },
    }).collect();

    // ---- run -------------------------------------------------------------------------------------
    let total_cases: usize = srcs.iter().map(|s| s.len()).sum();
    let workers = if replaying { 1 } else { 14 };
    let t0 = Instant::now();
    let res = run_all(&srcs, &strides, &names, &args.out, workers, limit, !replaying);
    sum.notes.extend(res.notes.iter().cloned());
    sum.dist_max("child_restarts", res.restarts);
    sum.dist_max("child_recycled_for_memory", res.recycled);
    sum.dist_max("child_deaths_not_reproduced", res.unconfirmed);
    sum.dist_max("oracle_wall_ms", t0.elapsed().as_millis() as u64);
    sum.dist_max("total_cases", total_cases as u64);

    // ---- account ---------------------------------------------------------------------------------
    for (si, s) in srcs.iter().enumerate() {
        let n = s.len();
        match s {
            Src::Explicit { cases } => for (i, c) in cases.iter().enumerate() { sum.eval(ps[c.0].name, &format!("{}:{}", si, i), true); },
            _ => {
                let p = &ps[s.parser().unwrap()];
                let nontrivial = match s { Src::Enum { n, .. } => *n >= 2, Src::Sub { inner, .. } => !matches!(**inner, Src::Enum { n, .. } if n < 2), _ => true };
                for i in 0..n { sum.eval(p.name, &format!("{}:{}", si, i), nontrivial); }
                sum.cell_status(p.name, if p.model != 0 { "M+S" } else { "S-only" });
                let base = match s { Src::Sub { inner, .. } => &**inner, x => x };
                let kind = match base { Src::Mut { .. } => "cases_mutated_valid", Src::Enum { .. } => "cases_enumerated", Src::Long { .. } => "cases_long_lying_length", _ => "cases_random" };
                *sum.distribution.entry(kind.to_string()).or_insert(0) += n as u64;
            }
        }
    }
    let mut ms_by: std::collections::BTreeMap<&str, u64> = Default::default();
    for (g, ms) in &res.ms { if let Some(p) = srcs[*g].parser() { *ms_by.entry(ps[p].name).or_insert(0) += ms; } }
    let mut slow: Vec<(&str, u64)> = ms_by.into_iter().collect();
    slow.sort_by_key(|x| std::cmp::Reverse(x.1));
    for (n, ms) in slow.iter().take(if std::env::var("ZV_C15_TIMES").is_ok() { 100 } else { 6 }) { sum.dist_max(&format!("child_ms:{}", n), *ms); }
    let n_ok: u64 = res.ok.iter().map(|x| x.1).sum();
    let n_err: u64 = res.err.iter().map(|x| x.1).sum();
    sum.dist_max("outcome_ok", n_ok);
    sum.dist_max("outcome_err", n_err);
    sum.dist_max("outcome_crash", res.fails.len() as u64);
    if let Some(Src::Mut { p, seed, .. }) = srcs.iter().find(|s| matches!(s, Src::Mut { .. })) {
        sum.sample(json!({"parser": ps[*p].name, "valid_encoding": seed.iter().take(40).collect::<Vec<_>>()}));
    }

    // auxiliary numbers of a case: inline, or the parser's index into the environment of the case file
    let env_used: std::cell::RefCell<std::collections::BTreeMap<u32, usize>> = Default::default();
    let aux_cache: std::cell::RefCell<std::collections::HashMap<usize, Vec<u64>>> = Default::default();
    let aux_of = |p: usize| -> Vec<u64> {
        if ps[p].env != 0 { env_used.borrow_mut().entry(ps[p].env).or_insert(p); return vec![ps[p].env as u64]; }
        aux_cache.borrow_mut().entry(p).or_insert_with(|| (ps[p].aux)()).clone()
    };
    // hex_decode(&str): the cell refuses bytes that are not UTF-8 before the parser sees them
    let aux_for = |p: usize, bytes: &[u8]| -> Vec<u64> { if ps[p].model == 82 || (150..=153).contains(&ps[p].model) { vec![std::str::from_utf8(bytes).is_ok() as u64] } else { aux_of(p) } };
    // ---- oracle verdicts ---------------------------------------------------------------------------
    let mut failed: std::collections::HashSet<(usize, usize)> = Default::default();
    for f in &res.fails {
        let (p, arg, bytes, origin) = srcs[f.src].get(f.i);
        failed.insert((f.src, f.i));
        let name = ps[p].name;
        let class = known_class(name, &bytes, arg, f.kind, &f.msg);
        sum.dist(&format!("crash_kind={}", f.kind));
        sum.dist(&format!("crash:{}:{}:{}", name, f.kind, f.msg.chars().take(90).collect::<String>()));
        let mut cj = case_json(name, arg, &bytes, origin);
        cj["observed"] = json!(format!("{}: {}", f.kind, f.msg));
        sum.fail(name, class, cj, &format!("{} returned neither a value nor an error: {} ({}) on a {} input of {} bytes, arg {}", name, f.kind, f.msg, origin, bytes.len(), arg));
        if ps[p].model != 0 && coq_len(&bytes) <= 600 && shards.len() < coq_cap {
            let term = coq_case(ps[p].model, arg, &aux_for(p, &bytes), &bytes, 2, &[]);
            let mut cj2 = case_json(name, arg, &bytes, origin);
            cj2["impl_obs"] = json!(format!("crash: {}", f.kind));
            shards.push(term, cj2);
        }
    }
    // ---- model correspondence cases ---------------------------------------------------------------
    for o in &res.obs {
        if failed.contains(&(o.src, o.i)) { continue; }
        let (p, arg, bytes, origin) = srcs[o.src].get(o.i);
        if ps[p].model == 0 || coq_len(&bytes) > 600 { continue; }
        sum.dist("coq_cases_before_cap");
        if shards.len() >= coq_cap { continue; }
        // rANS: an expected length the model would have to materialise symbol by symbol
        if (120..=123).contains(&ps[p].model) && arg > (1 << 16) && arg <= 100 * 1024 * 1024 { continue; }
        let term = coq_case(ps[p].model, arg, &aux_for(p, &bytes), &bytes, o.code, &o.vals);
        let mut cj = case_json(ps[p].name, arg, &bytes, origin);
        cj["impl_obs"] = json!({"code": o.code, "vals": o.vals.iter().map(|x| x.to_string()).collect::<Vec<_>>()});
        shards.push(term, cj);
    }
    sum.dist_max("coq_cases", shards.len() as u64);
    // ---- case file header: the trained encoders, defined and parsed once per file -----------------
    {
        let mut h = String::from(concat!(
            "From Coq Require Import Uint63.\nFrom ZV.Common Require Import Base Run.\nFrom ZV.C15 Require Import Model ModelHuff ModelCases.\nOpen Scope N_scope.\n",
            "Definition case_t : Type := xcase.\n",
            "Fixpoint le_bytes (k : nat) (w : N) : list N := match k with O => [] | S k' => w mod 256 :: le_bytes k' (w / 256) end.\n",
            "Definition int_bytes (i : int) : list N := le_bytes 7 (Z.to_N (Uint63.to_Z i)).\n",
            "Definition unpack_words (len : N) (ws : list int) : list N := firstn (N.to_nat len) (flat_map int_bytes ws).\n",
            "Fixpoint mk_cenv (l : list (N * N * list int)) : cenv_t :=\n  match l with\n  | [] => []\n  | (k, len, ws) :: rest =>\n      match cenc_of_aux (unpack_words len ws) with Some e => (k, e) :: mk_cenv rest | None => mk_cenv rest end\n  end.\n"));
        let mut entries = vec![];
        for (&key, &p) in env_used.borrow().iter() {
            let aux = (ps[p].aux)();
            // 7 bytes per primitive-integer literal (coqc reads N literals at ~100 us each), in chunks
            let mut words: Vec<String> = vec![];
            for ch in aux.chunks(7) {
                let mut w: u64 = 0;
                for (i, b) in ch.iter().enumerate() { w |= (*b & 0xFF) << (8 * i); }
                words.push(w.to_string());
            }
            let mut names = vec![];
            for (k, ch) in words.chunks(2000).enumerate() {
                h.push_str(&format!("Definition aux_{}_{} : list int := [{}]%uint63.\n", p, k, ch.join("; ")));
                names.push(format!("aux_{}_{}", p, k));
            }
            if names.is_empty() { names.push("[]".to_string()); }
            entries.push(format!("({}, {}, {})", key, aux.len(), names.join(" ++ ")));
        }
        h.push_str(&format!("Definition cenv : cenv_t := Eval vm_compute in mk_cenv [{}].\n", entries.join("; ")));
        h.push_str("Definition ok (c : case_t) : bool := xok_env cenv c.\n");
        shards.header = h;
    }
    let sh = shards.write(&args.out);
    sum.write(&args.out, sh);
}
