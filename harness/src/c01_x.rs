//! C01 extension: Coq cases for the mechanisms brought inside the model after the first build
//! (coq/C01/ModelSer.v, ModelNew.v, ModelPar.v).  Child module of c01.rs.
//!
//!   op 7   HuffmanTree::serialize            a = the code table in the order the real bytes list it; expect = the bytes
//!   op 8   HuffmanTree::deserialize + HuffmanDecoder::decode in the copy
//!                                            b = serialised bytes (the real ones, or damaged), a = outlen :: encoded bytes;
//!                                            expect = [0] | 1 :: table of the copy ++ decoder's answer
//!   op 9   ContextualHuffmanEncoder::serialize      a = the view in file order; expect = the bytes
//!   op 10  ContextualHuffmanEncoder::deserialize + ContextualHuffmanDecoder::decode / decode_xN in the copy
//!   op 11  ContextualHuffmanEncoder::new (the counting loops): a = order :: contexts by tree index, b = training text
//!   op 12  ParallelHuffmanEncoder / Decoder object histories
//!   op 13  AdaptiveParallelEncoder::encode_adaptive, Huffman arms (same evaluator, marker n = 0)
//! Damaged inputs are restricted to those whose outcome does not depend on HashMap iteration order (errors, or tables that
//! stay prefix-free); what deserialize does with other inputs is property C15.
use super::*;

fn raw_tree(d: &[u8]) -> Option<Table> {
    let n = u16::from_le_bytes([*d.first()?, *d.get(1)?]) as usize;
    let mut o = 2;
    let mut t: Table = vec![];
    for _ in 0..n {
        let s = *d.get(o)?;
        let l = *d.get(o + 1)? as usize;
        o += 2;
        let nb = (l + 7) / 8;
        let bs = d.get(o..o + nb)?;
        o += nb;
        t.push((s, (0..l).map(|i| (bs[i / 8] >> (i % 8)) & 1 == 1).collect()));
    }
    Some(t)
}
struct RawView { order: u8, ctx: Vec<(u32, usize)>, trees: Vec<Table>, tree_off: Vec<(usize, usize)> }
/// the serialised encoder in file order (pairs and table entries as listed); tree_off = (offset of the size field, size)
fn raw_view(b: &[u8]) -> Option<RawView> {
    let order = *b.first()?;
    let mut o = 1;
    let nt = rd32(b, &mut o)? as usize;
    let nc = rd32(b, &mut o)? as usize;
    let mut ctx = vec![];
    for _ in 0..nc {
        let c = rd32(b, &mut o)?;
        let i = rd32(b, &mut o)? as usize;
        ctx.push((c, i));
    }
    let mut trees = vec![];
    let mut tree_off = vec![];
    for _ in 0..nt {
        let at = o;
        let sz = rd32(b, &mut o)? as usize;
        trees.push(raw_tree(b.get(o..o + sz)?)?);
        tree_off.push((at, sz));
        o += sz;
    }
    Some(RawView { order, ctx, trees, tree_off })
}

/// HuffmanTree::serialize / deserialize against the model (ops 7, 8).  `enc` = what the encoder on `tree` wrote for `n` symbols.
pub(super) fn tree_ser_cases(cx: &mut Cx, tree: &HuffmanTree, enc: &[u8], n: usize, force: bool) {
    let sb = match guarded(|| tree.serialize()) { Ok(b) => b, Err(_) => return };
    if let Some(raw) = raw_tree(&sb) {
        if let Some(ft) = flat_table(&raw) {
            cx.coq(7, ft, &[], obs(&Ok(sb.clone())), "HuffmanTree::serialize", force);
        }
    }
    let mut variants: Vec<(Vec<u8>, &str)> = vec![(sb.clone(), "HuffmanTree::deserialize + decode")];
    let k = n + enc.len();
    if sb.len() > 2 {
        match k % 6 {
            0 => { let mut g = sb.clone(); g.truncate(2 + (k * 7) % (sb.len() - 2)); variants.push((g, "HuffmanTree::deserialize (truncated)")); }
            1 => { let mut g = sb.clone(); let c = u16::from_le_bytes([g[0], g[1]]).wrapping_add(1); g[0] = c as u8; g[1] = (c >> 8) as u8; variants.push((g, "HuffmanTree::deserialize (count + 1)")); }
            2 => { let mut g = sb.clone(); g[3] = 0; variants.push((g, "HuffmanTree::deserialize (zero code length)")); }
            3 => { let mut g = sb.clone(); g.extend_from_slice(&[7, 0, 255, 3]); variants.push((g, "HuffmanTree::deserialize (trailing bytes)")); }
            4 => {
                // the last symbol listed once more in front with another code: the later entry replaces it
                if let Some(raw) = raw_tree(&sb) {
                    if let Some((s, _)) = raw.last() {
                        let c = (raw.len() as u16).wrapping_add(1);
                        let mut g = vec![c as u8, (c >> 8) as u8, *s, 3, 0b101];
                        g.extend_from_slice(&sb[2..]);
                        variants.push((g, "HuffmanTree::deserialize (symbol listed twice)"));
                    }
                }
            }
            _ => {}
        }
    }
    for (bytes, what) in variants {
        let r = guarded(|| es(HuffmanTree::deserialize(&bytes)));
        let expect: Vec<u128> = match r {
            Err(_) => continue, // a panic of deserialize on well-formed / truncated input is the oracle's business (C15 for the rest)
            Ok(Err(_)) => vec![0],
            Ok(Ok(t2)) => {
                let tb = table_of(&t2);
                let ft = match flat_table(&tb) { Some(f) => f, None => continue };
                let d = HuffmanDecoder::new(t2);
                let o = match guarded(|| es(d.decode(enc, n))) { Ok(o) => o, Err(_) => continue };
                let mut e = vec![1u128];
                e.extend(ft);
                e.extend(obs(&o));
                e
            }
        };
        let mut a = vec![n as u128];
        a.extend(enc.iter().map(|&x| x as u128));
        cx.coq(8, a, &bytes, expect, what, force);
    }
}

/// ContextualHuffmanEncoder::serialize / deserialize against the model (ops 9, 10).
/// kind 0: `enc` was written by encode(), kind 1: by encode_xN with `nst` streams.
pub(super) fn enc_ser_cases(cx: &mut Cx, e: &ContextualHuffmanEncoder, kind: u8, nst: usize, enc: &[u8], n: usize, force: bool) {
    let sb = match guarded(|| e.serialize()) { Ok(b) => b, Err(_) => return };
    let raw = match raw_view(&sb) { Some(r) => r, None => return };
    if kind == 0 {
        let mut a = vec![raw.order as u128, raw.trees.len() as u128, raw.ctx.len() as u128];
        for (c, i) in &raw.ctx { a.push(*c as u128); a.push(*i as u128); }
        let mut ok = true;
        for t in &raw.trees { match flat_table(t) { Some(f) => a.extend(f), None => ok = false } }
        if ok { cx.coq(9, a, &[], obs(&Ok(sb.clone())), "ContextualHuffmanEncoder::serialize", force); }
    }
    let mut variants: Vec<(Vec<u8>, &str)> = vec![(sb.clone(), "ContextualHuffmanEncoder::deserialize + decode")];
    let k = n + enc.len() + nst;
    let put32 = |g: &mut Vec<u8>, at: usize, v: u32| g[at..at + 4].copy_from_slice(&v.to_le_bytes());
    match k % 10 {
        0 => { let mut g = sb.clone(); g.truncate(1 + (k * 13) % (sb.len() - 1)); variants.push((g, "deserialize (truncated)")); }
        1 => { let mut g = sb.clone(); g[0] = 3; variants.push((g, "deserialize (order 3)")); }
        2 => { let mut g = sb.clone(); put32(&mut g, 1, raw.trees.len() as u32 + 1); variants.push((g, "deserialize (tree count + 1)")); }
        3 => { let mut g = sb.clone(); put32(&mut g, 1, 0); variants.push((g, "deserialize (tree count 0)")); }
        4 => { let mut g = sb.clone(); put32(&mut g, 5, u32::MAX); variants.push((g, "deserialize (context count u32::MAX)")); }
        5 => if !raw.ctx.is_empty() { let mut g = sb.clone(); put32(&mut g, 9 + 8 * (k % raw.ctx.len()) + 4, raw.trees.len() as u32); variants.push((g, "deserialize (context refers to a missing tree)")); },
        6 => if let Some(&(at, sz)) = raw.tree_off.last() { let mut g = sb.clone(); put32(&mut g, at, sz as u32 + 1); variants.push((g, "deserialize (last tree size + 1)")); },
        7 => if let Some(&(at, sz)) = raw.tree_off.first() { if sz > 2 && raw.trees.len() == 1 { let mut g = sb.clone(); put32(&mut g, at, sz as u32 - 1); g.pop(); variants.push((g, "deserialize (tree size - 1)")); } },
        8 => if let Some(&(c, i)) = raw.ctx.first() {
            // the first context listed once more at the end of the map with another tree: the later pair replaces it
            let mut g = sb[..5].to_vec();
            g.extend_from_slice(&(raw.ctx.len() as u32 + 1).to_le_bytes());
            g.extend_from_slice(&sb[9..9 + 8 * raw.ctx.len()]);
            g.extend_from_slice(&c.to_le_bytes());
            g.extend_from_slice(&(((i + 1) % raw.trees.len()) as u32).to_le_bytes());
            g.extend_from_slice(&sb[9 + 8 * raw.ctx.len()..]);
            variants.push((g, "deserialize (context listed twice)"));
        },
        _ => { let mut g = sb.clone(); g.extend_from_slice(&[1, 2, 3]); variants.push((g, "deserialize (trailing bytes)")); }
    }
    for (bytes, what) in variants {
        let r = guarded(|| es(ContextualHuffmanEncoder::deserialize(&bytes)));
        let expect: Vec<u128> = match r {
            Err(_) => continue,
            Ok(Err(_)) => vec![0],
            Ok(Ok(t)) => {
                let v = match view_of(&t) { Some(v) => v, None => continue };
                let mut ex = vec![1u128, v.order as u128, v.trees.len() as u128, v.ctx.len() as u128];
                // pairs in the order of their first occurrence in the bytes
                let rb = match raw_view(&bytes) { Some(r) => r, None => continue };
                let mut seen: Vec<u32> = vec![];
                for (c, _) in &rb.ctx {
                    if seen.contains(c) { continue; }
                    seen.push(*c);
                    match v.ctx.iter().find(|p| p.0 == *c) { Some(p) => { ex.push(*c as u128); ex.push(p.1 as u128); } None => { ex.push(*c as u128); ex.push(u128::MAX); } }
                }
                let mut ok = true;
                for tb in &v.trees { match flat_table(tb) { Some(f) => ex.extend(f), None => ok = false } }
                if !ok { continue; }
                let o = if kind == 0 {
                    let d = ContextualHuffmanDecoder::new(t);
                    guarded(|| es(d.decode(enc, n)))
                } else {
                    guarded(|| dec_x(&t, nst, enc, n, false))
                };
                match o { Ok(o) => ex.extend(obs(&o)), Err(_) => continue }
                ex
            }
        };
        let mut a = vec![kind as u128, nst as u128, n as u128];
        a.extend(enc.iter().map(|&x| x as u128));
        cx.coq(10, a, &bytes, expect, what, force);
    }
}

/// ContextualHuffmanEncoder::new against the model of its counting loops (op 11).  `v` = the view of the real encoder.
/// The heap of from_frequencies is outside the model: an order-0 tree over two or more symbols is not predicted, so such
/// encoders are skipped; every other tree the constructors build holds all 256 symbols (fixed 8-bit codes).
pub(super) fn ctx_new_case(cx: &mut Cx, order: u64, train: &[u8], v: &EncView, force: bool) {
    if v.order == 0 {
        let mut seen = [false; 256];
        for &b in train { seen[b as usize] = true; }
        if seen.iter().filter(|x| **x).count() > 1 { return; }
    }
    let mut by_idx = v.ctx.clone();
    by_idx.sort_by_key(|p| p.1);
    let mut a = vec![order as u128];
    a.extend(by_idx.iter().map(|p| p.0 as u128));
    let mut ex = vec![1u128, v.order as u128, v.trees.len() as u128, v.ctx.len() as u128];
    for (c, i) in &by_idx { ex.push(*c as u128); ex.push(*i as u128); }
    for t in &v.trees {
        let identity = t.len() == 256 && t.iter().enumerate().all(|(i, (s, c))| *s as usize == i && c.len() == 8 && (0..8).all(|b| c[b] == ((i >> b) & 1 == 1)));
        if identity { ex.push(1); } else {
            ex.push(0);
            match flat_table(t) { Some(f) => ex.extend(f), None => return }
        }
    }
    cx.coq_w(11, a, train, ex, "ContextualHuffmanEncoder::new", force, 14000);
}

// ------------------------------------------------------------------------------------------------
// ParallelHuffmanEncoder / ParallelHuffmanDecoder object histories (op 12, coq/C01/ModelPar.v)
// ------------------------------------------------------------------------------------------------
pub(super) fn par_cfg(name: &str, streams: usize) -> ParallelConfig {
    match name {
        "low_latency" => ParallelConfig::low_latency(),
        "high_throughput" => ParallelConfig::high_throughput(),
        "balanced" => ParallelConfig::balanced(),
        "always_parallel" => ParallelConfig { num_streams: streams, block_size: 16, adaptive_blocks: false, min_parallel_size: 0, load_balancing: true },
        _ => ParallelConfig::default(),
    }
}
fn lres(r: &Result<Vec<u8>, String>) -> Vec<u128> { let o = obs(r); let mut v = vec![o.len() as u128]; v.extend(o); v }

/// One encoder object through `ops` ((is_train, bytes)).  With `judge_cell` every encode step is judged by the oracle (the
/// decoder gets HuffmanTree::from_data of the text in force); the Coq case compares every answer with the model.
pub(super) fn par_history<P: ParallelVariant>(cx: &mut Cx, cfg_name: &str, ops: &[(bool, Vec<u8>)], judge_cell: Option<&str>, cj: &Value, force: bool) {
    let cfg = par_cfg(cfg_name, P::STREAMS);
    let mut enc = match guarded(|| ParallelHuffmanEncoder::<P>::new(cfg.clone())) { Ok(Ok(e)) => e, _ => return };
    let mut a: Vec<u128> = vec![P::STREAMS as u128, ops.len() as u128];
    let mut expect: Vec<u128> = vec![];
    let mut txt: Option<Vec<u8>> = None;
    let mut coq_ok = true;
    for (is_train, bytes) in ops {
        a.push(if *is_train { 0 } else { 1 });
        a.push(bytes.len() as u128);
        a.extend(bytes.iter().map(|&x| x as u128));
        match guarded(|| es(HuffmanTree::from_data(bytes))) {
            Ok(Ok(t)) => match flat_table(&table_of(&t)) { Some(f) => a.extend(f), None => { coq_ok = false; a.push(0); } },
            _ => { coq_ok = false; a.push(0); }
        }
        if *is_train {
            match guarded(|| es(enc.train(bytes))) {
                Ok(Ok(())) => txt = Some(bytes.clone()),
                Ok(Err(_)) => { txt = None; coq_ok = false; }
                Err(p) => {
                    if let Some(cell) = judge_cell { let mut c = cj.clone(); c["cell"] = json!(cell); cx.eval(cell, &cj.to_string(), true); cx.fail(cell, None, c, &format!("train panicked: {}", p)); }
                    return;
                }
            }
            continue;
        }
        if txt.is_none() { txt = Some(bytes.clone()); }
        let r = guarded(|| es(enc.encode(bytes)));
        let tr = txt.clone().unwrap_or_default();
        let cfg2 = cfg.clone();
        let mut dec = |b: &[u8], n: usize| guarded(|| {
            let mut d = ParallelHuffmanDecoder::<P>::new(cfg2.clone());
            d.set_tree(HuffmanTree::from_data(&tr)?)?;
            d.decode(b, n)
        }).map(es);
        match &r {
            Ok(Ok(b)) => {
                expect.extend(lres(&Ok(b.clone())));
                match dec(b, bytes.len()) { Ok(o) => expect.extend(lres(&o)), Err(_) => coq_ok = false }
            }
            Ok(Err(_)) => { expect.extend(lres(&Err(String::new()))); expect.extend(lres(&Err(String::new()))); }
            Err(_) => coq_ok = false,
        }
        if let Some(cell) = judge_cell {
            let mut c = cj.clone();
            c["step"] = json!(expect.len());
            judge(cx, cell, &c, bytes, r, &mut dec);
        } else if r.is_err() { return; }
    }
    if coq_ok { cx.coq(12, a, &[], expect, "ParallelHuffmanEncoder / ParallelHuffmanDecoder history", force); }
}

pub(super) fn par_hist_case(cx: &mut Cx, p: u64, cfg_name: &str, ops: &[(bool, Vec<u8>)], force: bool) {
    let oj: Vec<Value> = ops.iter().map(|(t, b)| json!({"t": t, "b": b})).collect();
    let cj = json!({"run": "par_hist", "p": p, "cfg": cfg_name, "ops": oj, "data": []});
    match p {
        2 => par_history::<ParallelX2Variant>(cx, cfg_name, ops, Some("parallel/x2/history"), &cj, force),
        4 => par_history::<ParallelX4Variant>(cx, cfg_name, ops, Some("parallel/x4/history"), &cj, force),
        _ => par_history::<ParallelX8Variant>(cx, cfg_name, ops, Some("parallel/x8/history"), &cj, force),
    }
}
pub(super) fn run_par_hist(cx: &mut Cx, c: &Value) {
    let ops: Vec<(bool, Vec<u8>)> = c["ops"].as_array().map(|a| a.iter().map(|o| (o["t"].as_bool().unwrap_or(false), bytes_of(&o["b"]))).collect()).unwrap_or_default();
    par_hist_case(cx, c["p"].as_u64().unwrap_or(2), c["cfg"].as_str().unwrap_or("default"), &ops, true);
}

/// histories: an untrained encoder's first payload becomes its model; later payloads over a sub-alphabet, over the same
/// alphabet with other frequency ranks, with a new symbol (refused), empty; re-training replaces the model
pub(super) fn par_jobs(cx: &mut Cx, rng: &mut Rng) {
    let cfgs = ["default", "low_latency", "high_throughput", "always_parallel", "balanced"];
    let rounds = if cx.th { 60 } else { 12 };
    for k in 0..rounds {
        for (pi, p) in [2u64, 4, 8].iter().enumerate() {
            let m = *rng.pick(&[1usize, 2, 3, 5, 9, 17]);
            let al = alphabet(rng, m);
            let mut rev = al.clone(); rev.reverse();
            let mut ops: Vec<(bool, Vec<u8>)> = vec![];
            let nops = 2 + rng.below(4) as usize;
            for j in 0..nops {
                let n = *rng.pick(&[0usize, 1, 2, 3, 7, 8, 9, 30, 64]);
                let fam = rng.below(4);
                let mut x = match rng.below(5) { 0 => payload(rng, 1, n, &rev), 1 => payload(rng, fam, n, &al[..1 + al.len() / 2]), _ => payload(rng, fam, n, &al) };
                if rng.chance(1, 7) && !x.is_empty() { let i = rng.below(x.len() as u64) as usize; x[i] = rng.next() as u8; }
                let is_train = if j == 0 { (k + pi) % 2 == 0 } else { rng.chance(1, 3) };
                ops.push((is_train, x));
            }
            if !ops.iter().any(|o| !o.0) { ops.push((false, payload(rng, 0, 5, &al))); }
            par_hist_case(cx, *p, cfgs[(k + pi) % cfgs.len()], &ops, false);
        }
    }
}

/// AdaptiveParallelEncoder::encode_adaptive on a Huffman arm = train(data) + encode(data) on the member object with `streams`
/// lanes (op 12 with the history [train d; enc d]); `r` = what encode_adaptive returned, `dec` = what the HuffmanDecoder on
/// from_data(data) answered for it.
pub(super) fn adaptive_case(cx: &mut Cx, streams: usize, data: &[u8], r: &Result<Vec<u8>, String>, dec: Option<&Result<Vec<u8>, String>>) {
    let ft = match guarded(|| es(HuffmanTree::from_data(data))) { Ok(Ok(t)) => match flat_table(&table_of(&t)) { Some(f) => f, None => return }, _ => return };
    // n = 0 marks the adaptive entry point: the model computes the lanes from the size itself
    let mut a: Vec<u128> = vec![0, 2];
    for kind in [0u128, 1] {
        a.push(kind);
        a.push(data.len() as u128);
        a.extend(data.iter().map(|&x| x as u128));
        a.extend(ft.iter().cloned());
    }
    let mut expect = vec![streams as u128];
    expect.extend(lres(r));
    match (r, dec) {
        (Ok(_), Some(d)) => expect.extend(lres(d)),
        (Err(_), _) => expect.extend(lres(&Err(String::new()))),
        _ => return,
    }
    cx.coq(13, a, &[], expect, "AdaptiveParallelEncoder::encode_adaptive (Huffman arm)", false);
}
