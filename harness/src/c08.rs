//! C08: concurrent pool users never share a block and no block is lost.
//!
//! Two kinds of evidence, both on the real code:
//!  * controlled schedules: real threads run the pool code and hand a baton back to a controlling
//!    thread at every schedule point of the `zipora_verif` hooks (one point before each shared
//!    access of the free-list code), so a schedule is a list of thread ids and replays exactly.
//!    Cells: LockFreeMemoryPool, five-level LockFreePool, FixedCapacityMemoryPool, SecureMemoryPool
//!    (caches + Treiber stack) and MemoryPool (pool.rs) - each compared with its Coq model step by step
//!    (coq/C08/Cases.v) on top of the oracle.
//!  * free-running stress with an ownership table for every pool the property names.
//! The oracle is the property: a block handed out while another thread owns it, a block that is
//! neither owned nor reachable after quiescence, a free list with a cycle / foreign link /
//! duplicate, counters that do not add up.
use crate::util::*;
use serde_json::{json, Value};
use std::collections::{BTreeMap, BTreeSet, HashMap};
use std::ptr::NonNull;
use std::sync::atomic::{AtomicBool, AtomicU64, AtomicUsize, Ordering};
use std::sync::{Arc, Condvar, Mutex};
use std::time::Duration;
use zipora::memory::verif_sched as vs;
use zipora::memory::five_level_pool::{AdaptiveFiveLevelPool, ConcurrencyLevel, FiveLevelPoolHandle};
use zipora::memory::lockfree_pool::LockFreeAllocation;
use zipora::memory::{
    BackoffStrategy, FiveLevelPoolConfig, FixedCapacityAllocation, FixedCapacityMemoryPool, FixedCapacityPoolConfig,
    LockFreeMemoryPool, LockFreePool, LockFreePoolConfig, MemOffset, MemoryPool, MutexBasedPool, PoolConfig,
    SecureMemoryPool, SecurePoolConfig, SecurePooledPtr, ThreadLocalPool,
};

#[path = "c08_wide.rs"]
mod wide;

const HEADER: &str = r#"From ZV.Common Require Import Base Run.
From ZV.C08 Require Import Model ModelFixedCap ModelSecure ModelMemPool Cases.
Open Scope N_scope.
(* the case types and the functions that run the models on them are in coq/C08/Cases.v *)
Definition case_t : Type := xcase.
Definition ok : case_t -> bool := xok.
"#;

// ------------------------------------------------------------------------------------------
// operations of a thread program
// ------------------------------------------------------------------------------------------
#[derive(Clone, Debug, PartialEq)]
enum Op {
    Alloc,
    /// free the k-th block this thread currently holds (k mod count; nothing if it holds none)
    Free(usize),
    /// overwrite the first word(s) of the k-th held block with a link-like value: block index j or TAIL
    Scribble(usize, Option<u32>),
    /// a foreign heap allocation of the size of a stack node (secure pool: lets the allocator reuse addresses)
    Malloc,
    /// k blocks through the pool's bulk entry point (allocate_bulk_simd / allocate_bulk_with_prefetch); not in the Coq models
    Bulk(usize),
    /// allocation through the "hinted" entry point (SecureMemoryPool::allocate_with_hint(true)); plain allocation elsewhere
    Hot,
    /// the pool's clear() (SecureMemoryPool, MemoryPool): pooled chunks are released, handed-out ones stay valid; not in the Coq models
    Clear,
    /// the observers of the pool and of the blocks this thread holds (validate / size / generation / capacity accessors /
    /// statistics helpers), called in the middle of the history; they change nothing
    Check,
}
fn op_str(o: &Op) -> String {
    match o {
        Op::Alloc => "A".into(),
        Op::Free(k) => format!("F{}", k),
        Op::Scribble(k, Some(j)) => format!("S{}:{}", k, j),
        Op::Scribble(k, None) => format!("S{}:T", k),
        Op::Malloc => "M".into(),
        Op::Bulk(k) => format!("B{}", k),
        Op::Hot => "H".into(),
        Op::Clear => "C".into(),
        Op::Check => "V".into(),
    }
}
fn op_parse(s: &str) -> Option<Op> {
    let s = s.trim();
    if s == "A" { return Some(Op::Alloc); }
    if s == "M" { return Some(Op::Malloc); }
    if s == "H" { return Some(Op::Hot); }
    if s == "C" { return Some(Op::Clear); }
    if s == "V" { return Some(Op::Check); }
    if let Some(r) = s.strip_prefix('B') { return r.parse().ok().map(|k: usize| Op::Bulk(k.clamp(1, 16))); }
    if let Some(r) = s.strip_prefix('F') { return r.parse().ok().map(Op::Free); }
    if let Some(r) = s.strip_prefix('S') {
        let mut it = r.split(':');
        let k = it.next()?.parse().ok()?;
        let v = it.next()?;
        return Some(Op::Scribble(k, if v == "T" { None } else { Some(v.parse().ok()?) }));
    }
    None
}

/// Model-level command that accompanies a schedule step.
#[derive(Clone, Debug)]
enum Cm { None, Pop, Push(u64), Scr(u64, u64, u64) }
fn cm_coq(c: &Cm) -> String {
    match c {
        Cm::None => "CNone".into(),
        Cm::Pop => "CPop".into(),
        Cm::Push(b) => format!("CPush {}", b),
        Cm::Scr(b, v, _) => format!("CScribble {} {}", b, v),
    }
}

// ------------------------------------------------------------------------------------------
// baton scheduler
// ------------------------------------------------------------------------------------------
#[derive(Clone, Debug)]
enum OpResult { Block(u64), Blocks(Vec<u64>), Failed(String), Done, Refused, Complaint(String), Panicked(String) }

struct BState {
    active: i64, // -1: controller; t: worker t
    mid: Vec<bool>,
    parked_site: Vec<Option<u32>>,
    cmd: Vec<Option<(Op, usize)>>, // op and resolved held index
    finish: Vec<bool>,
    result: Vec<Option<OpResult>>,
    exited: Vec<bool>,
    exit_info: Vec<Vec<u64>>,
    log: Vec<(usize, u32, u64)>, // notes: tid, site, value
    abort: bool,
    release: bool,
}
struct Baton { m: Mutex<BState>, cv: Condvar }
impl Baton {
    fn new(n: usize) -> Arc<Self> {
        Arc::new(Baton {
            m: Mutex::new(BState {
                active: -1, mid: vec![false; n], parked_site: vec![None; n], cmd: vec![None; n], finish: vec![false; n],
                result: vec![None; n], exited: vec![false; n], exit_info: vec![vec![]; n], log: vec![], abort: false, release: false,
            }),
            cv: Condvar::new(),
        })
    }
    /// worker: give the baton back and wait for the next turn
    fn yield_ctl(&self, tid: usize) {
        let mut g = self.m.lock().unwrap_or_else(|e| e.into_inner());
        g.active = -1;
        self.cv.notify_all();
        while g.active != tid as i64 {
            g = self.cv.wait(g).unwrap_or_else(|e| e.into_inner());
        }
    }
    fn wait_turn(&self, tid: usize) {
        let mut g = self.m.lock().unwrap_or_else(|e| e.into_inner());
        while g.active != tid as i64 {
            g = self.cv.wait(g).unwrap_or_else(|e| e.into_inner());
        }
    }
    /// controller: let worker t run until it parks again; false on timeout
    fn give(&self, tid: usize) -> bool {
        let mut g = self.m.lock().unwrap_or_else(|e| e.into_inner());
        g.active = tid as i64;
        self.cv.notify_all();
        let mut waited = 0;
        while g.active != -1 {
            let (g2, to) = self.cv.wait_timeout(g, Duration::from_millis(500)).unwrap_or_else(|e| e.into_inner());
            g = g2;
            if to.timed_out() {
                waited += 1;
                if waited > 20 { return false; }
            }
        }
        true
    }
}

/// What a pool must offer to be driven by the scheduler.
trait Cell: Send + Sync + 'static {
    type H;
    fn alloc(&self) -> Result<(Self::H, u64), String>;
    /// allocation on behalf of worker `tid` (pools whose request size depends on the thread)
    fn alloc_t(&self, _tid: usize) -> Result<(Self::H, u64), String> { self.alloc() }
    /// the hinted allocation entry point, where the pool has one
    fn alloc_hot(&self, tid: usize) -> Result<(Self::H, u64), String> { self.alloc_t(tid) }
    /// k blocks through the bulk entry point (cells without one are never asked)
    fn bulk(&self, _tid: usize, _k: usize) -> Result<Vec<(Self::H, u64)>, String> { Err("this pool has no bulk entry point".into()) }
    /// give the block back; `Some(h)`: the pool refused (reported an error) and the caller still owns the block
    fn free(&self, h: Self::H) -> Option<Self::H>;
    /// the pool's clear()
    fn clear(&self) -> Result<(), String> { Ok(()) }
    /// clear() takes a blocking lock: true if a thread parked at one of these sites holds it
    fn clear_would_block(&self, _parked: &[Option<u32>]) -> bool { false }
    /// observers, on the worker thread, over the pool and the blocks the thread holds; complaints
    fn check(&self, _held: &mut [Self::H]) -> Vec<String> { vec![] }
    /// schedule points at which this cell does not park (the thread runs through)
    fn skip_site(&self, _site: u32) -> bool { false }
    /// the owner writes into its block; `v` is a link-like value
    fn scribble(&self, h: &mut Self::H, v: u64);
    fn forget(&self, h: Self::H) { std::mem::forget(h); }
    /// called on the worker thread when its program is over (thread-local inspection)
    fn exit_info(&self) -> Vec<u64> { vec![] }
    /// size of the foreign heap allocation made by `Op::Malloc`
    fn junk_size(&self) -> usize { 40 }
}

const ABORT_MSG: &str = "zv-abort";
/// schedule entries from here on mean "a whole operation of thread (entry - WHOLE_OP)"
const WHOLE_OP: usize = 1000;

fn worker<C: Cell>(cell: Arc<C>, baton: Arc<Baton>, tid: usize) {
    let b2 = baton.clone();
    let cskip = cell.clone();
    vs::install(Box::new(move |kind, site, val| {
        if kind != vs::KIND_NOTE && cskip.skip_site(site) { return; }
        // a run that is being aborted unwinds the workers out of the pool; destructors that run during that unwinding
        // (guards collected by a bulk request) come back here: they must neither park nor panic a second time
        if kind != vs::KIND_NOTE && std::thread::panicking() { return; }
        if kind == vs::KIND_NOTE {
            let mut g = b2.m.lock().unwrap_or_else(|e| e.into_inner());
            g.log.push((tid, site, val));
        } else {
            {
                let mut g = b2.m.lock().unwrap_or_else(|e| e.into_inner());
                if g.abort { drop(g); panic!("{}", ABORT_MSG); }
                g.mid[tid] = true;
                g.parked_site[tid] = Some(site);
            }
            b2.yield_ctl(tid);
            let g = b2.m.lock().unwrap_or_else(|e| e.into_inner());
            if g.abort { drop(g); panic!("{}", ABORT_MSG); }
        }
    }));
    // pre-sized so that the vectors never allocate while the program runs (the secure-pool ABA
    // witness depends on which freed stack node the next same-sized malloc returns)
    let mut held: Vec<C::H> = Vec::with_capacity(64);
    let mut junk: Vec<Vec<u8>> = Vec::with_capacity(64);
    let junk_size = cell.junk_size();
    baton.wait_turn(tid);
    loop {
        let (cmd, fin) = {
            let mut g = baton.m.lock().unwrap_or_else(|e| e.into_inner());
            (g.cmd[tid].take(), g.finish[tid])
        };
        if fin { break; }
        let res = match cmd {
            None => OpResult::Done,
            Some((Op::Alloc, _)) => {
                let c = cell.clone();
                match guarded(move || c.alloc_t(tid)) {
                    Ok(Ok((h, id))) => { held.push(h); OpResult::Block(id) }
                    Ok(Err(e)) => OpResult::Failed(e),
                    Err(p) => OpResult::Panicked(p),
                }
            }
            Some((Op::Hot, _)) => {
                let c = cell.clone();
                match guarded(move || c.alloc_hot(tid)) {
                    Ok(Ok((h, id))) => { held.push(h); OpResult::Block(id) }
                    Ok(Err(e)) => OpResult::Failed(e),
                    Err(p) => OpResult::Panicked(p),
                }
            }
            Some((Op::Bulk(k), _)) => {
                let c = cell.clone();
                match guarded(move || c.bulk(tid, k)) {
                    Ok(Ok(v)) => { let mut ids = vec![]; for (h, id) in v { held.push(h); ids.push(id); } OpResult::Blocks(ids) }
                    Ok(Err(e)) => OpResult::Failed(e),
                    Err(p) => OpResult::Panicked(p),
                }
            }
            Some((Op::Free(_), k)) => {
                if k < held.len() {
                    let h = held.remove(k);
                    let c = cell.clone();
                    match guarded(move || c.free(h)) {
                        Ok(None) => OpResult::Done,
                        Ok(Some(h)) => { held.insert(k, h); OpResult::Refused }
                        Err(p) => OpResult::Panicked(p),
                    }
                } else { OpResult::Done }
            }
            Some((Op::Clear, _)) => {
                let c = cell.clone();
                match guarded(move || c.clear()) {
                    Ok(Ok(())) => OpResult::Done,
                    Ok(Err(e)) => OpResult::Complaint(format!("clear() reported an error: {}", e)),
                    Err(p) => OpResult::Panicked(p),
                }
            }
            Some((Op::Check, _)) => {
                let c = cell.clone();
                let hs = &mut held[..];
                match guarded(move || c.check(hs)) {
                    Ok(v) if v.is_empty() => OpResult::Done,
                    Ok(v) => OpResult::Complaint(v.join("; ")),
                    Err(p) => OpResult::Panicked(p),
                }
            }
            Some((Op::Scribble(_, _), _)) => OpResult::Done,
            Some((Op::Malloc, _)) => { let mut v: Vec<u8> = Vec::with_capacity(junk_size); v.push(0xA5); junk.push(v); OpResult::Done }
        };
        {
            let mut g = baton.m.lock().unwrap_or_else(|e| e.into_inner());
            g.mid[tid] = false;
            g.parked_site[tid] = None;
            g.result[tid] = Some(res);
        }
        baton.yield_ctl(tid);
    }
    vs::uninstall();
    let info = cell.exit_info();
    {
        let mut g = baton.m.lock().unwrap_or_else(|e| e.into_inner());
        g.exited[tid] = true;
        g.exit_info[tid] = info;
        g.mid[tid] = false;
    }
    // hand the baton back and wait until the controller has inspected the pool
    {
        let mut g = baton.m.lock().unwrap_or_else(|e| e.into_inner());
        g.active = -1;
        baton.cv.notify_all();
        while !g.release {
            g = baton.cv.wait(g).unwrap_or_else(|e| e.into_inner());
        }
        let aborted = g.abort;
        drop(g);
        if aborted {
            for h in held.drain(..) { cell.forget(h); }
        } else {
            for h in held.drain(..) { let c = cell.clone(); let _ = guarded(move || { if let Some(h) = c.free(h) { c.forget(h); } }); }
        }
    }
    drop(junk);
}

/// Cell-specific monitoring of the hook notes (only the secure pool needs one).
trait Watch {
    fn pre_turn(&mut self, _tid: usize, _site: Option<u32>) -> Option<(String, String)> { None }
    fn on_note(&mut self, _tid: usize, _site: u32, _val: u64) -> Option<(String, String)> { None }
    /// thread `tid` starts operation `op` (a free names the block it gives back)
    fn on_op_start(&mut self, _tid: usize, _op: &Op, _freed: Option<u64>) {}
    /// thread `tid` is between operations again; `got`: the blocks the operation handed to it
    fn on_op_end(&mut self, _tid: usize, _got: &[u64]) {}
}
struct NoWatch;
impl Watch for NoWatch {}

struct RunOut {
    eff: Vec<(usize, Cm)>,
    notes: Vec<(usize, u32, u64)>,
    held: Vec<Vec<u64>>,
    ever: BTreeSet<u64>,
    /// blocks in the order in which they were first handed out
    order: Vec<u64>,
    /// for every entry of `eff`: the number of notes logged before that turn
    eff_notes: Vec<usize>,
    /// for every entry of `eff`: the schedule point the thread was parked at before the turn (None: between operations)
    eff_site: Vec<Option<u32>>,
    /// for every entry of `eff`: the block an allocation that completed in this turn returned
    eff_result: Vec<Option<u64>>,
    fails: Vec<(Option<String>, String)>,
    exit_info: Vec<Vec<u64>>,
    aborted: bool,
    allocs_ok: u64,
    frees: u64,
    alloc_calls: u64,
    /// allocations through the hinted entry point
    hot_calls: u64,
    /// an operation the Coq models do not know was executed (bulk allocation, clear, a refused free)
    unmodelled: bool,
    /// a bulk allocation failed part-way: at most this many blocks were taken and given back inside the pool
    bulk_slack: u64,
    /// frees the pool refused (the block stayed with its owner)
    refused: u64,
    clears: u64,
    clears_skipped: u64,
}

/// Values a scribble may write: TAIL or the offset of a block slot, always inside the arena.
struct ScribbleMap { tail: u64, base: u64, bsize: u64, slots: u64 }
impl ScribbleMap {
    fn value(&self, j: Option<u32>) -> u64 {
        match j { None => self.tail, Some(j) => self.base + (j as u64 % self.slots.max(1)) * self.bsize }
    }
}

fn controlled_run<C: Cell>(
    cell: Arc<C>, progs: &[Vec<Op>], sched: &[usize], smap: &ScribbleMap, watch: &mut dyn Watch,
    inspect: &mut dyn FnMut(&RunOut) -> Vec<(Option<String>, String)>,
    scribbler: &dyn Fn(u64, u64) -> u64,
) -> RunOut {
    let n = progs.len();
    let baton = Baton::new(n);
    let mut handles = vec![];
    for t in 0..n {
        let c = cell.clone();
        let b = baton.clone();
        handles.push(std::thread::Builder::new().stack_size(1 << 20).spawn(move || worker(c, b, t)).unwrap());
    }
    let mut out = RunOut {
        eff: vec![], notes: vec![], held: vec![vec![]; n], ever: BTreeSet::new(), order: vec![], eff_notes: vec![], eff_site: vec![], eff_result: vec![], fails: vec![], exit_info: vec![vec![]; n],
        aborted: false, allocs_ok: 0, frees: 0, alloc_calls: 0, hot_calls: 0, unmodelled: false, bulk_slack: 0, refused: 0, clears: 0, clears_skipped: 0,
    };
    let mut pending_free: Vec<Option<(u64, usize)>> = vec![None; n];
    let mut owner: HashMap<u64, usize> = HashMap::new();
    let mut pcs = vec![0usize; n]; // next op of each program
    let mut cur: Vec<Option<Op>> = vec![None; n];
    let mut finished = vec![false; n];
    let mut log_seen = 0usize;
    let mut hung = false;

    // one turn of thread t; returns false if nothing could be done (thread finished)
    let mut turn = |t: usize, out: &mut RunOut, owner: &mut HashMap<u64, usize>, watch: &mut dyn Watch| -> bool {
        if finished[t] || out.aborted || hung { return false; }
        let (mid, site) = { let g = baton.m.lock().unwrap(); (g.mid[t], g.parked_site[t]) };
        if let Some((cl, d)) = watch.pre_turn(t, if mid { site } else { None }) {
            out.fails.push((Some(cl), d));
            out.aborted = true;
            return false;
        }
        let mut cm = Cm::None;
        if !mid {
            if pcs[t] >= progs[t].len() { finished[t] = true; return false; }
            let op = progs[t][pcs[t]].clone();
            pcs[t] += 1;
            let mut kidx = 0usize;
            let mut op = op;
            let mut freed = None;
            match &op {
                Op::Alloc => { cm = Cm::Pop; out.alloc_calls += 1; }
                Op::Hot => { cm = Cm::Pop; out.alloc_calls += 1; out.hot_calls += 1; }
                Op::Bulk(k) => { out.alloc_calls += *k as u64; out.unmodelled = true; }
                Op::Clear => {
                    let parked: Vec<Option<u32>> = { let g = baton.m.lock().unwrap(); (0..n).filter(|&u| u != t && g.mid[u]).map(|u| g.parked_site[u]).collect() };
                    if cell.clear_would_block(&parked) { out.clears_skipped += 1; op = Op::Malloc; } else { out.clears += 1; out.unmodelled = true; }
                }
                Op::Check => {}
                Op::Free(k) => {
                    if !out.held[t].is_empty() {
                        kidx = k % out.held[t].len();
                        let b = out.held[t].remove(kidx);
                        owner.remove(&b);
                        out.frees += 1;
                        cm = Cm::Push(b);
                        freed = Some(b);
                        pending_free[t] = Some((b, kidx));
                    } else { kidx = usize::MAX; }
                }
                Op::Scribble(k, j) => {
                    if !out.held[t].is_empty() {
                        kidx = k % out.held[t].len();
                        let b = out.held[t][kidx];
                        let v = smap.value(*j);
                        // performed here, on behalf of the owner, while every thread is parked
                        let m = scribbler(b, v);
                        cm = Cm::Scr(b, v, m);
                    }
                }
                Op::Malloc => {}
            }
            watch.on_op_start(t, &op, freed);
            cur[t] = Some(op.clone());
            let mut g = baton.m.lock().unwrap();
            g.cmd[t] = match op { Op::Scribble(..) => None, o => Some((o, kidx)) };
            g.result[t] = None;
        }
        out.eff.push((t, cm));
        out.eff_notes.push(out.notes.len());
        out.eff_site.push(if mid { site } else { None });
        out.eff_result.push(None);
        if !baton.give(t) {
            out.fails.push((None, format!("thread {} did not reach a schedule point within 10 s", t)));
            hung = true;
            out.aborted = true;
            return false;
        }
        // notes of this turn
        let (newlog, res, mid_now) = {
            let mut g = baton.m.lock().unwrap();
            let nl: Vec<_> = g.log[log_seen..].to_vec();
            log_seen = g.log.len();
            (nl, g.result[t].take(), g.mid[t])
        };
        for (tt, s, v) in newlog {
            out.notes.push((tt, s, v));
            if let Some((cl, d)) = watch.on_note(tt, s, v) {
                out.fails.push((Some(cl), d));
                out.aborted = true;
            }
        }
        if !mid_now {
            let mut got: Vec<u64> = vec![];
            let pf = pending_free[t].take();
            match (cur[t].take(), res) {
                (Some(Op::Alloc), Some(OpResult::Block(b))) | (Some(Op::Hot), Some(OpResult::Block(b))) => {
                    if let Some(r) = out.eff_result.last_mut() { *r = Some(b); }
                    got.push(b);
                }
                (Some(Op::Bulk(_)), Some(OpResult::Blocks(v))) => { got = v; }
                (Some(Op::Bulk(k)), Some(OpResult::Failed(_))) => { out.bulk_slack += k.saturating_sub(1) as u64; }
                (Some(Op::Alloc), Some(OpResult::Failed(_))) | (Some(Op::Hot), Some(OpResult::Failed(_))) => {}
                (Some(Op::Free(_)), Some(OpResult::Refused)) => {
                    // the pool reported an error: the block was not taken, its owner keeps it
                    if let Some((b, kidx)) = pf {
                        let at = kidx.min(out.held[t].len());
                        out.held[t].insert(at, b);
                        owner.insert(b, t);
                        out.frees -= 1;
                        out.refused += 1;
                        out.unmodelled = true;
                    }
                }
                (_, Some(OpResult::Complaint(d))) => { out.fails.push((None, format!("thread {}: {}", t, d))); }
                (_, Some(OpResult::Panicked(p))) => {
                    if p != ABORT_MSG { out.fails.push((None, format!("thread {} panicked inside the pool: {}", t, p))); }
                    out.aborted = true;
                }
                _ => {}
            }
            for &b in &got {
                out.allocs_ok += 1;
                if let Some(&o) = owner.get(&b) {
                    out.fails.push((None, format!("block {} handed to thread {} while thread {} owns it", b, t, o)));
                }
                owner.insert(b, t);
                if out.ever.insert(b) { out.order.push(b); }
                out.held[t].push(b);
            }
            watch.on_op_end(t, &got);
        }
        true
    };

    for &e in sched {
        if e >= WHOLE_OP {
            // 1000 + t: thread t runs until it is between operations again (finishes the operation it is in,
            // or performs its next operation completely)
            let t = e - WHOLE_OP;
            if t < n {
                let mut guard = 0;
                loop {
                    if !turn(t, &mut out, &mut owner, watch) { break; }
                    let mid = { baton.m.lock().unwrap().mid[t] };
                    guard += 1;
                    if !mid || out.aborted || guard > 10_000 { break; }
                }
            }
        } else if e < n { turn(e, &mut out, &mut owner, watch); }
        if out.aborted { break; }
    }
    // drain: run every thread to the end of its program, lowest id first
    for t in 0..n {
        let mut guard = 0;
        while !out.aborted && turn(t, &mut out, &mut owner, watch) {
            guard += 1;
            if guard > 100_000 { out.fails.push((None, format!("thread {} does not terminate when run alone (livelock)", t))); out.aborted = true; }
        }
    }
    // stop the workers
    {
        let mut g = baton.m.lock().unwrap();
        if out.aborted { g.abort = true; }
        for t in 0..n { g.finish[t] = true; }
    }
    if !hung {
        for t in 0..n {
            let ex = { baton.m.lock().unwrap().exited[t] };
            if !ex && !baton.give(t) { hung = true; break; }
            // a worker parked inside the pool unwinds on abort and then needs one more turn to see `finish`
            let mut tries = 0;
            while !hung && !{ baton.m.lock().unwrap().exited[t] } && tries < 4 {
                if !baton.give(t) { hung = true; }
                tries += 1;
            }
        }
    }
    out.exit_info = baton.m.lock().unwrap().exit_info.clone();
    if !out.aborted && !hung {
        let f = inspect(&out);
        out.fails.extend(f);
    }
    {
        let mut g = baton.m.lock().unwrap();
        g.release = true;
        baton.cv.notify_all();
    }
    if hung {
        std::mem::forget(cell.clone());
        std::mem::forget(handles);
    } else {
        if out.aborted { std::mem::forget(cell.clone()); }
        for h in handles { let _ = h.join(); }
    }
    out
}

// ------------------------------------------------------------------------------------------
// cells
// ------------------------------------------------------------------------------------------
/// How the blocks of the LockFreeMemoryPool cell are held and given back.
#[derive(Clone, Copy, PartialEq, Debug)]
enum LfMode { Plain, Zero, Raii }
enum LfH { Raw(NonNull<u8>, usize), Guard(LockFreeAllocation) }
struct LfCell { pool: Arc<LockFreeMemoryPool>, sizes: Vec<usize>, base: usize, mode: LfMode }
impl LfCell {
    fn size_of(&self, tid: usize) -> usize { self.sizes[tid % self.sizes.len()] }
    fn wrap(&self, p: NonNull<u8>, size: usize) -> (LfH, u64) {
        let off = (p.as_ptr() as usize - self.base) as u64;
        match self.mode {
            LfMode::Raii => (LfH::Guard(LockFreeAllocation::new(p, size, self.pool.clone())), off),
            _ => (LfH::Raw(p, size), off),
        }
    }
}
impl Cell for LfCell {
    type H = LfH;
    fn alloc(&self) -> Result<(Self::H, u64), String> { self.alloc_t(0) }
    fn alloc_t(&self, tid: usize) -> Result<(Self::H, u64), String> {
        let size = self.size_of(tid);
        match self.pool.allocate(size) { Ok(p) => Ok(self.wrap(p, size)), Err(e) => Err(e.to_string()) }
    }
    fn bulk(&self, tid: usize, k: usize) -> Result<Vec<(Self::H, u64)>, String> {
        let size = self.size_of(tid);
        match self.pool.allocate_bulk_simd(&vec![size; k]) {
            Ok(v) => Ok(v.into_iter().map(|p| self.wrap(p, size)).collect()),
            Err(e) => Err(e.to_string()),
        }
    }
    fn free(&self, h: Self::H) -> Option<Self::H> {
        match h {
            LfH::Raw(p, size) => {
                let r = if self.mode == LfMode::Zero { self.pool.deallocate_with_zero(p, size) } else { self.pool.deallocate(p, size) };
                if r.is_err() { Some(LfH::Raw(p, size)) } else { None }
            }
            LfH::Guard(g) => { drop(g); None }
        }
    }
    fn forget(&self, h: Self::H) { std::mem::forget(h); }
    fn scribble(&self, _h: &mut Self::H, _v: u64) {}
    fn check(&self, held: &mut [Self::H]) -> Vec<String> {
        let mut f = vec![];
        for h in held.iter_mut() {
            if let LfH::Guard(g) = h {
                let (p, n) = (g.as_ptr() as usize, g.size());
                if g.as_slice().len() != n || g.as_slice().as_ptr() as usize != p || g.as_mut_slice().len() != n {
                    f.push(format!("LockFreeAllocation: as_slice / as_mut_slice do not cover as_ptr() .. size() = {}", n));
                }
                if p < self.base { f.push("LockFreeAllocation::as_ptr() lies before the pool memory".into()); }
            }
        }
        if let Some(st) = self.pool.stats() {
            let (fa, sa) = (st.fast_allocs.load(Ordering::SeqCst), st.skip_allocs.load(Ordering::SeqCst));
            let (cf, cs) = (st.cas_failures.load(Ordering::SeqCst), st.cas_successes.load(Ordering::SeqCst));
            let rate = st.allocation_rate();
            if rate != (fa + sa) as f64 { f.push(format!("allocation_rate() = {} with fast_allocs {} and skip_allocs {}", rate, fa, sa)); }
            let ratio = st.contention_ratio();
            let want = if cf + cs == 0 { 0.0 } else { cf as f64 / (cf + cs) as f64 };
            if !(ratio >= 0.0 && ratio <= 1.0) || (ratio - want).abs() > 1e-9 { f.push(format!("contention_ratio() = {} with {} failed and {} successful exchanges", ratio, cf, cs)); }
        }
        f
    }
}
unsafe impl Send for LfCell {}
unsafe impl Sync for LfCell {}

struct FlCell { pool: Arc<LockFreePool>, handle: Option<FiveLevelPoolHandle>, size: usize }
impl Cell for FlCell {
    type H = MemOffset;
    fn alloc(&self) -> Result<(Self::H, u64), String> {
        let r = match &self.handle { Some(h) => h.alloc(self.size), None => self.pool.alloc(self.size) };
        r.map(|o| (o, o.verif_raw() as u64)).map_err(|e| e.to_string())
    }
    fn free(&self, h: Self::H) -> Option<Self::H> {
        let r = match &self.handle { Some(hd) => hd.free(h, self.size), None => self.pool.free(h, self.size) };
        if r.is_err() { Some(h) } else { None }
    }
    fn scribble(&self, h: &mut Self::H, v: u64) { self.pool.verif_write_word(h.verif_raw(), v as u32); }
    fn check(&self, _held: &mut [Self::H]) -> Vec<String> {
        let mut f = vec![];
        let st = match &self.handle { Some(h) => h.stats(), None => self.pool.stats() };
        let (u, fr) = (st.utilization(), st.fragmentation_ratio());
        let wu = if st.total_capacity == 0 { 0.0 } else { st.used_memory as f64 / st.total_capacity as f64 };
        let wf = if st.used_memory == 0 { 0.0 } else { st.fragment_size as f64 / st.used_memory as f64 };
        if (u - wu).abs() > 1e-9 || (fr - wf).abs() > 1e-9 { f.push(format!("PoolStats::utilization() = {} / fragmentation_ratio() = {} for used {} capacity {} fragment {}", u, fr, st.used_memory, st.total_capacity, st.fragment_size)); }
        if st.used_memory > st.total_capacity { f.push(format!("used_memory {} exceeds total_capacity {}", st.used_memory, st.total_capacity)); }
        f
    }
}
unsafe impl Send for FlCell {}
unsafe impl Sync for FlCell {}

struct FcCell { pool: FixedCapacityMemoryPool, sizes: Vec<usize>, maxb: usize, total: usize, park_util: bool }
impl FcCell {
    fn size_of(&self, tid: usize) -> usize { self.sizes[tid % self.sizes.len()] }
}
impl Cell for FcCell {
    type H = FixedCapacityAllocation;
    fn alloc(&self) -> Result<(Self::H, u64), String> { self.alloc_t(0) }
    fn alloc_t(&self, tid: usize) -> Result<(Self::H, u64), String> {
        match self.pool.allocate(self.size_of(tid)) {
            Ok(a) => { let off = (a.as_ptr() as usize - self.pool.verif_base()) as u64; Ok((a, off)) }
            Err(e) => Err(e.to_string()),
        }
    }
    fn free(&self, h: Self::H) -> Option<Self::H> { drop(h); None }
    fn scribble(&self, h: &mut Self::H, v: u64) {
        let s = h.as_mut_slice();
        let w = (v as u32).to_le_bytes();
        for (i, b) in s.iter_mut().enumerate().take(16) { *b = w[i % 4]; }
    }
    fn check(&self, held: &mut [Self::H]) -> Vec<String> {
        let mut f = vec![];
        for a in held.iter_mut() {
            let n = a.size();
            if n == 0 || n > self.maxb || a.as_slice().len() != n || a.as_mut_slice().len() != n || a.as_slice().as_ptr() as usize != a.as_ptr() as usize {
                f.push(format!("FixedCapacityAllocation: size() = {} / slices do not match (max_block_size {})", n, self.maxb));
            }
            let off = a.as_ptr() as usize - self.pool.verif_base();
            if off % self.maxb != 0 || off / self.maxb >= self.total { f.push(format!("allocation at offset {} is not a block of the pool", off)); }
        }
        if self.pool.total_capacity() != self.total * self.maxb { f.push(format!("total_capacity() = {} for {} blocks of {}", self.pool.total_capacity(), self.total, self.maxb)); }
        if self.pool.available_capacity() > self.pool.total_capacity() { f.push(format!("available_capacity() = {} exceeds total_capacity()", self.pool.available_capacity())); }
        if self.pool.has_capacity(self.maxb + 1) { f.push("has_capacity(max_block_size + 1) is true".into()); }
        if let Some(st) = self.pool.stats() {
            let sr = st.success_rate();
            let (a, fl) = (st.allocations.load(Ordering::SeqCst), st.allocation_failures.load(Ordering::SeqCst));
            let want = if a + fl == 0 { 1.0 } else { a as f64 / (a + fl) as f64 };
            if (sr - want).abs() > 1e-9 { f.push(format!("success_rate() = {} with {} allocations and {} failures", sr, a, fl)); }
            // (in mid-history the gauge may pass 100 %: see peak_blocks in the inspector)
            let up = st.utilization_percent();
            if !(up >= 0.0) || (up * 100.0 - st.utilization.load(Ordering::SeqCst) as f64).abs() > 1.0 { f.push(format!("utilization_percent() = {}", up)); }
        }
        f
    }
    // the two points in front of the utilization gauge are visited only by the cases that ask for them, so that
    // the step structure the schedules (and the Coq model) were written for stays what it was
    fn skip_site(&self, site: u32) -> bool { !self.park_util && (site == FC_UTIL_SITE_A || site == FC_UTIL_SITE_F || site == FC_UTIL_SITE_S) }
}
unsafe impl Send for FcCell {}
unsafe impl Sync for FcCell {}
/// fixed_capacity_pool.rs: schedule points between the update of active_blocks and the store of the derived
/// utilization gauge, in allocate / deallocate (hook FC_ALLOC_UTIL / FC_FREE_UTIL)
const FC_UTIL_SITE_A: u32 = 56;
const FC_UTIL_SITE_F: u32 = 66;
/// ... and between the load of active_blocks and the store of the gauge (hook FC_UTIL_STORE)
const FC_UTIL_SITE_S: u32 = 57;

struct SpCell { pool: Arc<SecureMemoryPool>, chunk: usize }
impl Cell for SpCell {
    type H = SecurePooledPtr;
    fn alloc(&self) -> Result<(Self::H, u64), String> {
        match self.pool.allocate() { Ok(p) => { let id = p.as_ptr() as usize as u64; Ok((p, id)) } Err(e) => Err(e.to_string()) }
    }
    fn alloc_hot(&self, _tid: usize) -> Result<(Self::H, u64), String> {
        match self.pool.allocate_with_hint(true) { Ok(p) => { let id = p.as_ptr() as usize as u64; Ok((p, id)) } Err(e) => Err(e.to_string()) }
    }
    fn bulk(&self, _tid: usize, k: usize) -> Result<Vec<(Self::H, u64)>, String> {
        match self.pool.allocate_bulk_with_prefetch(&vec![self.chunk; k]) {
            Ok(v) => Ok(v.into_iter().map(|p| { let id = p.as_ptr() as usize as u64; (p, id) }).collect()),
            Err(e) => Err(e.to_string()),
        }
    }
    fn free(&self, h: Self::H) -> Option<Self::H> { drop(h); None }
    fn clear(&self) -> Result<(), String> { self.pool.clear().map_err(|e| e.to_string()) }
    fn scribble(&self, h: &mut Self::H, v: u64) { for b in h.as_mut_slice().iter_mut() { *b = v as u8; } }
    fn check(&self, held: &mut [Self::H]) -> Vec<String> {
        let mut f = vec![];
        if let Err(e) = self.pool.validate() { f.push(format!("SecureMemoryPool::validate() fails while every live chunk is intact: {}", e)); }
        if self.pool.config().chunk_size != self.chunk { f.push("config().chunk_size changed".into()); }
        let mut gens = BTreeSet::new();
        for p in held.iter_mut() {
            if let Err(e) = p.validate() { f.push(format!("SecurePooledPtr::validate() fails on a chunk its thread owns: {}", e)); }
            if p.size() != self.chunk || p.as_slice().len() != self.chunk { f.push(format!("SecurePooledPtr::size() = {} / slice {} for chunk_size {}", p.size(), p.as_slice().len(), self.chunk)); }
            if p.as_non_null().map(|q| q.as_ptr() as usize) != Some(p.as_ptr() as usize) { f.push("as_non_null() differs from as_ptr()".into()); }
            if p.generation() == 0 || !gens.insert(p.generation()) { f.push(format!("two live chunks of one thread carry generation {}", p.generation())); }
            let s = p.as_slice();
            let head = &s[..s.len().min(256)];
            match self.pool.verify_zeroed_simd(head) {
                Ok(z) => if z != head.iter().all(|&b| b == 0) { f.push("verify_zeroed_simd disagrees with a byte-wise scan".into()); },
                Err(e) => f.push(format!("verify_zeroed_simd: {}", e)),
            }
        }
        let st = self.pool.stats();
        if st.pool_hits + st.pool_misses > st.alloc_count { f.push(format!("pool_hits {} + pool_misses {} exceed alloc_count {}", st.pool_hits, st.pool_misses, st.alloc_count)); }
        f
    }
    fn exit_info(&self) -> Vec<u64> { self.pool.verif_local_cache_chunks().into_iter().map(|x| x as u64).collect() }
    // same malloc size class as a node of the shared stack, so that the allocator may reuse a popped node's address
    fn junk_size(&self) -> usize { self.pool.verif_stack_node_size() }
}

/// Walk an offset-linked free list defensively: every element must be a block that was handed out at some
/// time, is not owned now, and is met once.  Returns the list or the reason it is malformed.
fn walk_free(head: u64, tail: u64, link: &dyn Fn(u64) -> Option<u64>, ever: &BTreeSet<u64>, owned: &BTreeSet<u64>, limit: usize)
    -> Result<Vec<u64>, String> {
    let mut seen = BTreeSet::new();
    let mut out = vec![];
    let mut h = head;
    while h != tail {
        if !ever.contains(&h) { return Err(format!("free list links to {} which is not a block of the pool (dangling link)", h)); }
        if owned.contains(&h) { return Err(format!("free list contains block {} which a thread owns", h)); }
        if !seen.insert(h) { return Err(format!("free list has a cycle through block {}", h)); }
        out.push(h);
        if out.len() > limit { return Err("free list longer than the number of blocks".into()); }
        h = match link(h) { Some(x) => x, None => return Err(format!("free list link of {} is outside the arena", h)) };
    }
    Ok(out)
}

struct Ctx {
    sum: Summary,
    shards: CoqShards,
    coq_used: HashMap<&'static str, usize>,
    out: String,
    child_seq: usize,
    thorough: bool,
    /// the breadth families draw on budgets of their own
    wide: bool,
}

impl Ctx {
    /// Coq cases are budgeted per cell so that every modelled cell is represented (quick: about 1500 in all).
    fn room(&mut self, cell: &'static str, force: bool) -> bool {
        let cell: &'static str = if self.wide { match cell { "LF" => "LFw", "FL" => "FLw", "FC" => "FCw", "SP" => "SPw", "MP" => "MPw", "LZ" => "LZw", c => c } } else { cell };
        let base = match cell { "LF" | "FL" => 260, "FC" => 250, "SP" => 250, "MP" => 180, "LZ" => 110, "LFw" | "FLw" | "FCw" | "SPw" => 50, "MPw" => 30, "LZw" => 10, _ => 100 };
        let budget = if self.thorough { base * 4 } else { base };
        let used = self.coq_used.entry(cell).or_insert(0);
        if !force && *used >= budget { return false; }
        *used += 1;
        true
    }
}

fn progs_json(progs: &[Vec<Op>]) -> Vec<Vec<String>> { progs.iter().map(|p| p.iter().map(op_str).collect()).collect() }

fn case_json(cell: &str, size: usize, slots: usize, progs: &[Vec<Op>], sched: &[usize]) -> Value {
    let pj = progs_json(progs);
    let mut v = json!({"cell": cell, "size": size, "slots": slots, "sched": sched});
    for (i, p) in pj.iter().enumerate() { v[format!("prog{}", i)] = json!(p); }
    v["threads"] = json!(progs.len());
    v
}
fn parse_case(c: &Value) -> (String, usize, usize, Vec<Vec<Op>>, Vec<usize>) {
    let cell = c["cell"].as_str().unwrap_or("LF").to_string();
    let size = c["size"].as_u64().unwrap_or(64) as usize;
    let slots = c["slots"].as_u64().unwrap_or(8) as usize;
    let n = c["threads"].as_u64().unwrap_or(2) as usize;
    let mut progs = vec![];
    for i in 0..n {
        let p: Vec<Op> = c[format!("prog{}", i)].as_array().map(|a| a.iter().filter_map(|x| x.as_str().and_then(op_parse)).collect()).unwrap_or_default();
        progs.push(p);
    }
    let sched: Vec<usize> = c["sched"].as_array().map(|a| a.iter().filter_map(|x| x.as_u64().map(|v| v as usize)).collect()).unwrap_or_default();
    (cell, size, slots, progs, sched)
}

fn norm_site(site: u32) -> u64 {
    // 11..16 / 31..35 -> 1..6 (pop), 21..24 / 41..44 -> 11..14 (push)
    let d = (site % 10) as u64;
    match site / 10 { 1 | 3 | 5 | 7 | 9 => d, _ => 10 + d }
}

fn emit_coq(cx: &mut Ctx, kind: u32, bsize: u64, cap: u64, n: usize, out: &RunOut, fin: [u64; 3], free: &Option<Vec<u64>>, stats: &[u64], zero_size: Option<u64>, cj: &Value, force: bool) {
    if out.eff.len() > 400 { return; }
    if !cx.room(if zero_size.is_some() { "LZ" } else if kind == 0 { "LF" } else { "FL" }, force) { return; }
    let sc: Vec<String> = out.eff.iter().map(|(t, c)| format!("({}%nat, {})", t, match (c, zero_size) {
        (Cm::Push(b), Some(z)) => format!("CPushZ {} {}", b, z),
        _ => cm_coq(c),
    })).collect();
    let notes: Vec<u128> = out.notes.iter().flat_map(|&(_, s, v)| vec![norm_site(s) as u128, v as u128]).collect();
    let helds: Vec<String> = out.held.iter().map(|h| coq_n_list(h.iter().map(|&x| x as u128))).collect();
    let term = format!("XTag2 (({}, {}, {}, {}%nat, [{}], {}, {}, {}, [{}]), {})",
        kind, bsize, cap, n, sc.join("; "), coq_n_list(notes), coq_n_list(fin.iter().map(|&x| x as u128)),
        coq_opt(free.as_ref().map(|f| coq_n_list(f.iter().map(|&x| x as u128)))), helds.join("; "),
        coq_n_list(stats.iter().map(|&x| x as u128)));
    let mut c2 = cj.clone();
    c2["impl_final"] = json!(fin.to_vec());
    c2["impl_free"] = json!(free);
    c2["impl_stats"] = json!(stats);
    cx.shards.push(term, c2);
}

/// lockfree_pool.rs FAST_BIN_SIZES: a fresh block is carved at the size of its class.
const LF_BIN_SIZES: [usize; 64] = [
    8, 16, 24, 32, 40, 48, 56, 64, 72, 80, 88, 96, 104, 112, 120, 128,
    144, 160, 176, 192, 208, 224, 240, 256, 288, 320, 352, 384, 416, 448, 480, 512,
    576, 640, 704, 768, 832, 896, 960, 1024, 1152, 1280, 1408, 1536, 1664, 1792, 1920, 2048,
    2304, 2560, 2816, 3072, 3328, 3584, 3840, 4096, 4608, 5120, 5632, 6144, 6656, 7168, 7680, 8192,
];
fn lf_slot_size(size: usize) -> usize {
    let a = (size + 7) & !7;
    LF_BIN_SIZES.iter().cloned().find(|&b| a <= b).unwrap_or(a)
}

/// Copy the variant fields of a case (presets, options, per-thread sizes ...) into its JSON.
fn merge_variant(cj: &mut Value, v: &Value) {
    if let Some(o) = v.as_object() {
        for (k, x) in o {
            if matches!(k.as_str(), "cell" | "size" | "slots" | "sched" | "threads") || k.starts_with("prog") || k.starts_with("impl_") { continue; }
            if x.is_null() || *x == json!(false) { continue; }
            cj[k.as_str()] = x.clone();
        }
    }
}
/// `"storm": [n, k]`: the schedule is n rounds of (three steps of thread 0, k whole operations of thread 1) after
/// `"pre"` whole operations of thread 0 - a thread stalled in a compare-exchange loop that loses every round.
fn expand_sched(v: &Value, sched: &[usize]) -> Vec<usize> {
    let st: Vec<u64> = v["storm"].as_array().map(|a| a.iter().filter_map(|x| x.as_u64()).collect()).unwrap_or_default();
    if st.len() < 2 { return sched.to_vec(); }
    let mut s = sched.to_vec();
    for _ in 0..st[0].min(200) {
        s.extend([0usize, 0, 0]);
        for _ in 0..st[1].min(4) { s.push(WHOLE_OP + 1); }
    }
    s
}

fn run_lf(cx: &mut Ctx, size: usize, slots: usize, zero: bool, progs: &[Vec<Op>], sched: &[usize], force: bool) {
    run_lf_v(cx, size, slots, &json!({"zero": zero}), progs, sched, force)
}

/// LockFreeMemoryPool under a controlled schedule.  Variant fields: `zero` (the pool is configured with zero_on_free
/// and SIMD optimisation and every free goes through deallocate_with_zero: the block is scrubbed, then pushed),
/// `raii` (blocks are held as LockFreeAllocation guards and given back by their Drop), `sizes` (request size per
/// thread, all of one size class), `preset` (1 compact(), 2 high_performance() - no statistics -, 3 default(); the
/// arena size is set to the case's slot count), `retries` (max_cas_retries), `backoff` (1 linear, 2 exponential),
/// `storm` (see expand_sched).  Sizes above 8192 take the large-block path: never reused, only counted.
fn run_lf_v(cx: &mut Ctx, size: usize, slots: usize, v: &Value, progs: &[Vec<Op>], sched: &[usize], force: bool) {
    let cellname = "LockFreeMemoryPool/controlled";
    let big = ((size + 7) & !7) > 8192;
    let bs = if big { (size + 7) & !7 } else { lf_slot_size(size) };
    let cap = 8 + bs * slots;
    let mode = if v["zero"].as_bool().unwrap_or(false) { LfMode::Zero } else if v["raii"].as_bool().unwrap_or(false) { LfMode::Raii } else { LfMode::Plain };
    let zero = mode == LfMode::Zero;
    let mut sizes: Vec<usize> = v["sizes"].as_array().map(|a| a.iter().filter_map(|x| x.as_u64().map(|y| y as usize)).collect()).unwrap_or_default();
    sizes.retain(|&x| x >= 1 && !big && !zero && lf_slot_size(x) == bs);
    if sizes.is_empty() { sizes = vec![size]; }
    let preset = v["preset"].as_u64().unwrap_or(0);
    let retries = v["retries"].as_u64().map(|r| r.clamp(1, 100_000) as u32);
    let sched = expand_sched(v, sched);
    let sched = &sched[..];
    let mut cj = case_json("LF", size, slots, progs, if v["storm"].is_array() { &[] } else { sched });
    merge_variant(&mut cj, v);
    cx.sum.eval(cellname, &cj.to_string(), progs.iter().filter(|p| !p.is_empty()).count() >= 2);
    let mut cfg = match preset {
        1 => LockFreePoolConfig::compact(),
        2 => LockFreePoolConfig::high_performance(),
        3 => LockFreePoolConfig::default(),
        _ => LockFreePoolConfig {
            memory_size: cap, enable_stats: true, max_cas_retries: 1000, backoff_strategy: BackoffStrategy::None,
            enable_cache_alignment: false, cache_config: None, enable_numa_awareness: false, enable_huge_pages: false,
            huge_page_threshold: 1 << 30, enable_simd_optimization: zero, zero_on_free: zero,
        },
    };
    cfg.memory_size = cap;
    if zero { cfg.enable_simd_optimization = true; cfg.zero_on_free = true; }
    if let Some(r) = retries { cfg.max_cas_retries = r; }
    match v["backoff"].as_u64() { Some(1) => cfg.backoff_strategy = BackoffStrategy::Linear, Some(2) => cfg.backoff_strategy = BackoffStrategy::Exponential { max_delay_us: 50 }, _ => {} }
    if preset != 0 { cx.sum.dist("lockfree_preset_runs"); }
    let pool = match LockFreeMemoryPool::new(cfg) { Ok(p) => Arc::new(p), Err(e) => { cx.sum.fail(cellname, None, cj, &format!("pool creation failed: {}", e)); return; } };
    let base = pool.verif_layout().0;
    let cell = Arc::new(LfCell { pool, sizes: sizes.clone(), base, mode });
    let smap = ScribbleMap { tail: 0, base: 8, bsize: bs as u64, slots: slots as u64 };
    let c2 = cell.clone();
    let c3 = cell.clone();
    let mut fin = [0u64; 3];
    let mut free: Option<Vec<u64>> = None;
    let mut stats: Vec<u64> = vec![];
    let mut inspect = |o: &RunOut| -> Vec<(Option<String>, String)> {
        let mut f = vec![];
        let (packed, count) = c2.pool.verif_bin_state(size.min(8192)).unwrap_or((0, 0));
        let (_, bump) = c2.pool.verif_layout();
        fin = [packed, count as u64, bump as u64];
        let owned: BTreeSet<u64> = o.held.iter().flatten().cloned().collect();
        // every block the bump pointer has passed: the pool has one size class in play, so they are bs apart
        let carved: BTreeSet<u64> = (0..).map(|i| 8 + i * bs as u64).take_while(|&x| x + bs as u64 <= bump as u64).collect();
        if (bump as u64) < 8 || (bump as u64 - 8) % bs as u64 != 0 || bump as usize > cap { f.push((None, format!("bump offset {} is not 8 + a number of {}-byte blocks inside the {}-byte arena", bump, bs, cap))); }
        for b in &o.ever { if !carved.contains(b) { f.push((None, format!("block {} was handed out but does not lie on the {}-byte grid below the bump offset {}", b, bs, bump))); } }
        if carved.len() as u64 > o.ever.len() as u64 + o.bulk_slack { f.push((None, format!("{} blocks were carved from the arena but only {} were ever handed to a thread", carved.len(), o.ever.len()))); }
        let rolled = carved.len() as u64 - (o.ever.len() as u64).min(carved.len() as u64);
        if big {
            // large blocks are never put on a list: nothing but distinct, disjoint blocks and the counters
            if count != 0 || packed & 0xFFFF_FFFF != 0 { f.push((None, format!("the 8192-byte bin changed (head {}, count {}) although only large blocks were requested", packed & 0xFFFF_FFFF, count))); }
            if let Some(st) = c2.pool.stats() {
                let (sd, mu) = (st.skip_deallocs.load(Ordering::SeqCst), st.memory_usage.load(Ordering::SeqCst));
                // (a bulk request that failed part-way gave back what it had taken: at most bulk_slack more)
                if sd < o.frees || sd - o.frees > o.bulk_slack { f.push((None, format!("skip_deallocs = {} after {} frees of large blocks", sd, o.frees))); }
                if mu != carved.len() as u64 * bs as u64 { f.push((None, format!("memory_usage = {} but {} blocks of {} bytes were carved", mu, carved.len(), bs))); }
            }
            return f;
        }
        let link = |x: u64| c2.pool.verif_read_link(x as u32).map(|v| v as u64);
        match walk_free(packed & 0xFFFF_FFFF, 0, &link, &carved, &owned, carved.len()) {
            Ok(l) => {
                if l.len() as u64 != count as u64 { f.push((None, format!("bin.count = {} but the free list has {} blocks at quiescence", count, l.len()))); }
                for b in &carved { if !owned.contains(b) && !l.contains(b) { f.push((None, format!("block {} is neither owned nor on the free list: lost", b))); } }
                free = Some(l);
            }
            Err(e) => f.push((None, e)),
        }
        if let Some(st) = c2.pool.stats() {
            let fa = st.fast_allocs.load(Ordering::SeqCst);
            let fd = st.fast_deallocs.load(Ordering::SeqCst);
            stats = vec![fa, fd, st.cas_successes.load(Ordering::SeqCst), st.cas_failures.load(Ordering::SeqCst), st.memory_usage.load(Ordering::SeqCst)];
            // a bulk allocation that failed part-way gives the blocks it had taken back inside the pool: x of them
            let x = fd.wrapping_sub(o.frees);
            if x > o.bulk_slack { f.push((None, format!("fast_deallocs = {} after {} frees", fd, o.frees))); }
            let fresh = carved.len() as u64;
            if x <= o.bulk_slack && (fa + fresh != o.allocs_ok + x || rolled > x) { f.push((None, format!("fast_allocs {} + new blocks {} != successful allocations {}", fa, fresh, o.allocs_ok))); }
            if stats[4] != fresh * bs as u64 { f.push((None, format!("memory_usage = {} but {} blocks of {} bytes were carved", stats[4], fresh, bs))); }
        }
        f
    };
    let scr = move |b: u64, v: u64| -> u64 { unsafe { *((c3.base + b as usize) as *mut u32) = v as u32; } 0 };
    let out = controlled_run(cell.clone(), progs, sched, &smap, &mut NoWatch, &mut inspect, &scr);
    cx.sum.dist_max("max_steps_controlled", out.eff.len() as u64);
    if out.notes.iter().any(|&(_, s, v)| (s == vs::LF_POP_CAS || s == vs::LF_PUSH_CAS) && v == 0) { cx.sum.dist("runs_with_failed_cas"); }
    if out.refused > 0 { cx.sum.dist("lockfree_runs_with_refused_free"); }
    if out.bulk_slack > 0 { cx.sum.dist("runs_with_failed_bulk_allocation"); }
    for (cl, d) in &out.fails { cx.sum.fail(cellname, cl.as_deref(), cj.clone(), d); }
    if zero { cx.sum.dist("lockfree_zero_on_free_runs"); }
    if mode == LfMode::Raii { cx.sum.dist("lockfree_raii_runs"); }
    if big { cx.sum.dist("lockfree_large_block_runs"); }
    if !out.aborted && !stats.is_empty() && !out.unmodelled && !big && retries.is_none() {
        emit_coq(cx, 0, bs as u64, cap as u64, progs.len(), &out, fin, &free, &stats, if zero { Some(size as u64) } else { None }, &cj, force);
    }
}

fn run_fl(cx: &mut Ctx, size: usize, slots: usize, progs: &[Vec<Op>], sched: &[usize], force: bool) {
    run_fl_v(cx, size, slots, &Value::Null, progs, sched, force)
}

/// five-level LockFreePool under a controlled schedule.  Variant fields: `preset` (1 performance_optimized(),
/// 2 memory_optimized(), 3 realtime(), 4 default(), as they are), `align`, `maxfast` (max_fast_block_size: a request
/// above it takes the huge-block path, which only counts), `handle` (the pool is built by
/// AdaptiveFiveLevelPool::with_level and used through a cloned FiveLevelPoolHandle).
fn run_fl_v(cx: &mut Ctx, size: usize, slots: usize, v: &Value, progs: &[Vec<Op>], sched: &[usize], force: bool) {
    let cellname = "five_level::LockFreePool/controlled";
    let preset = v["preset"].as_u64().unwrap_or(0);
    let mut cfg = match preset {
        1 => FiveLevelPoolConfig::performance_optimized(),
        2 => FiveLevelPoolConfig::memory_optimized(),
        3 => FiveLevelPoolConfig::realtime(),
        4 => FiveLevelPoolConfig::default(),
        _ => FiveLevelPoolConfig {
            max_fast_block_size: 1024, alignment: 8, initial_capacity: 0, max_skip_levels: 4, arena_size: 4096, fixed_capacity: None,
            enable_cache_alignment: false, cache_config: None, enable_numa_awareness: false, enable_huge_pages: false, huge_page_threshold: 1 << 30,
        },
    };
    if preset == 0 {
        if let Some(a) = v["align"].as_u64() { if a.is_power_of_two() && (4..=4096).contains(&a) { cfg.alignment = a as usize; } }
        if let Some(m) = v["maxfast"].as_u64() { cfg.max_fast_block_size = (m as usize).max(cfg.alignment); }
    }
    let al = cfg.alignment;
    let bs = (size + al - 1) & !(al - 1);
    if preset == 0 { cfg.initial_capacity = bs * slots; }
    let cap = cfg.initial_capacity;
    let huge = bs > cfg.max_fast_block_size;
    let via_handle = v["handle"].as_bool().unwrap_or(false);
    let mut cj = case_json("FL", size, slots, progs, sched);
    merge_variant(&mut cj, v);
    cx.sum.eval(cellname, &cj.to_string(), progs.iter().filter(|p| !p.is_empty()).count() >= 2);
    if preset != 0 { cx.sum.dist("fivelevel_preset_runs"); }
    let (pool, handle) = if via_handle {
        let ad = match AdaptiveFiveLevelPool::with_level(cfg, ConcurrencyLevel::MultiThreadLockFree) { Ok(p) => p, Err(e) => { cx.sum.fail(cellname, None, cj, &format!("pool creation failed: {}", e)); return; } };
        if ad.current_level() != ConcurrencyLevel::MultiThreadLockFree { cx.sum.fail(cellname, None, cj, "with_level(MultiThreadLockFree): current_level() reports another level"); return; }
        match ad.get_handle() {
            Ok(FiveLevelPoolHandle::Level3(p)) => { let h = FiveLevelPoolHandle::Level3(p.clone()); (p, Some(h.clone())) }
            Ok(_) => { cx.sum.fail(cellname, None, cj, "get_handle() of a level-3 pool returned a handle of another level"); return; }
            Err(e) => { cx.sum.fail(cellname, None, cj, &format!("get_handle() failed: {}", e)); return; }
        }
    } else {
        match LockFreePool::new(cfg) { Ok(p) => (Arc::new(p), None), Err(e) => { cx.sum.fail(cellname, None, cj, &format!("pool creation failed: {}", e)); return; } }
    };
    if via_handle { cx.sum.dist("fivelevel_handle_runs"); }
    let cell = Arc::new(FlCell { pool, handle, size });
    let smap = ScribbleMap { tail: u32::MAX as u64, base: 0, bsize: bs as u64, slots: slots as u64 };
    let c2 = cell.clone();
    let c3 = cell.clone();
    let mut fin = [0u64; 3];
    let mut free: Option<Vec<u64>> = None;
    let mut fragv: Vec<u64> = vec![];
    let mut inspect = |o: &RunOut| -> Vec<(Option<String>, String)> {
        let mut f = vec![];
        let (packed, count) = c2.pool.verif_bin_state(size).unwrap_or((u32::MAX as u64, 0));
        let head = packed & 0xFFFF_FFFF;
        let st = c2.pool.stats();
        let used = st.used_memory as u64;
        fin = [packed, count as u64, used];
        let owned: BTreeSet<u64> = o.held.iter().flatten().cloned().collect();
        let carved: BTreeSet<u64> = (0..).map(|i| i * bs as u64).take_while(|&x| x + bs as u64 <= used).collect();
        if used % bs as u64 != 0 || used as usize > cap { f.push((None, format!("used_memory {} is not a number of {}-byte blocks inside the {}-byte arena", used, bs, cap))); }
        for b in &o.ever { if !carved.contains(b) { f.push((None, format!("block {} was handed out but does not lie on the {}-byte grid below used_memory {}", b, bs, used))); } }
        if carved.len() != o.ever.len() { f.push((None, format!("{} blocks were carved from the arena but {} were handed to a thread", carved.len(), o.ever.len()))); }
        if huge {
            if st.huge_node_count as u64 != o.frees || st.huge_size_sum as u64 != o.frees * bs as u64 || st.fragment_size as u64 != o.frees * bs as u64 {
                f.push((None, format!("huge_node_count {} huge_size_sum {} fragment_size {} after {} frees of {}-byte huge blocks", st.huge_node_count, st.huge_size_sum, st.fragment_size, o.frees, bs)));
            }
            return f;
        }
        fragv = vec![st.fragment_size as u64];
        let link = |x: u64| c2.pool.verif_read_link(x as u32).map(|v| v as u64);
        match walk_free(head as u64, u32::MAX as u64, &link, &carved, &owned, carved.len()) {
            Ok(l) => {
                if l.len() as u64 != count as u64 { f.push((None, format!("count = {} but the free list has {} blocks at quiescence", count, l.len()))); }
                for b in &carved { if !owned.contains(b) && !l.contains(b) { f.push((None, format!("block {} is neither owned nor on the free list: lost", b))); } }
                let frag = st.fragment_size as u64;
                if frag != l.len() as u64 * bs as u64 { f.push((None, format!("fragment_size {} != free blocks {} x {}", frag, l.len(), bs))); }
                free = Some(l);
            }
            Err(e) => f.push((None, e)),
        }
        f
    };
    let scr = move |b: u64, v: u64| -> u64 { c3.pool.verif_write_word(b as u32, v as u32); 0 };
    let out = controlled_run(cell.clone(), progs, sched, &smap, &mut NoWatch, &mut inspect, &scr);
    cx.sum.dist_max("max_steps_controlled", out.eff.len() as u64);
    if out.notes.iter().any(|&(_, s, v)| (s == vs::FL_POP_CAS || s == vs::FL_PUSH_CAS) && v == 0) { cx.sum.dist("runs_with_failed_cas"); }
    if huge { cx.sum.dist("fivelevel_huge_block_runs"); }
    for (cl, d) in &out.fails { cx.sum.fail(cellname, cl.as_deref(), cj.clone(), d); }
    if !out.aborted && !fragv.is_empty() && !out.unmodelled && !huge { emit_coq(cx, 1, bs as u64, cap as u64, progs.len(), &out, fin, &free, &fragv, None, &cj, force); }
}

/// Size classes of a FixedCapacityMemoryPool with alignment 8 and max_block_size <= 128: 8, 16, ..., max_block_size.
const FC_MAXB: usize = 64;
fn fc_class(size: usize, maxb: usize) -> usize { (size.clamp(1, maxb) + 7) / 8 - 1 }

fn run_fc(cx: &mut Ctx, sizes: &[usize], clear: bool, slots: usize, progs: &[Vec<Op>], sched: &[usize], force: bool) {
    run_fc_v(cx, sizes, clear, slots, &Value::Null, progs, sched, force)
}

/// FixedCapacityMemoryPool under a controlled schedule: the oracle, and every run is replayed on the
/// model of coq/C08/ModelFixedCap.v (thread t asks for `sizes[t % len]` bytes, so several classes are in play).
/// Variant fields: `maxb` / `align` (max_block_size, alignment), `lazy` (eager_allocation = false: the first
/// allocation creates the arena), `nostats`, `preset` (1 small_objects(), 2 medium_objects(), 3 realtime(),
/// 4 secure(), 5 default(), as they are: thousands of blocks, oracle only), `util` (threads also stop in front of
/// the store of the utilization gauge).
fn run_fc_v(cx: &mut Ctx, sizes: &[usize], clear: bool, slots: usize, v: &Value, progs: &[Vec<Op>], sched: &[usize], force: bool) {
    let cellname = "FixedCapacityMemoryPool/controlled";
    let preset = v["preset"].as_u64().unwrap_or(0);
    let mut cfg = match preset {
        1 => FixedCapacityPoolConfig::small_objects(),
        2 => FixedCapacityPoolConfig::medium_objects(),
        3 => FixedCapacityPoolConfig::realtime(),
        4 => FixedCapacityPoolConfig::secure(),
        5 => FixedCapacityPoolConfig::default(),
        _ => FixedCapacityPoolConfig { max_block_size: FC_MAXB, total_blocks: slots.max(1), alignment: 8, enable_stats: true, eager_allocation: true, secure_clear: clear },
    };
    if preset == 0 {
        if let Some(a) = v["align"].as_u64() { if a.is_power_of_two() && (8..=256).contains(&a) { cfg.alignment = a as usize; } }
        if let Some(m) = v["maxb"].as_u64() { let m = (m as usize).clamp(16, 1 << 16); cfg.max_block_size = (m + cfg.alignment - 1) / cfg.alignment * cfg.alignment; }
        if v["lazy"].as_bool().unwrap_or(false) { cfg.eager_allocation = false; }
        if v["nostats"].as_bool().unwrap_or(false) { cfg.enable_stats = false; }
    }
    let maxb = cfg.max_block_size;
    let total = cfg.total_blocks;
    let clear = cfg.secure_clear;
    let modelled = preset == 0 && cfg.alignment == 8 && maxb <= 128 && cfg.enable_stats;
    let park_util = v["util"].as_bool().unwrap_or(false);
    let sizes: Vec<usize> = if sizes.is_empty() { vec![40.min(maxb)] } else { sizes.iter().map(|&x| x.clamp(1, maxb)).collect() };
    let mut cj = case_json("FC", sizes[0], slots, progs, sched);
    cj["sizes"] = json!(sizes);
    cj["clear"] = json!(clear);
    merge_variant(&mut cj, v);
    cx.sum.cell_status(cellname, "M+S");
    cx.sum.eval(cellname, &cj.to_string(), progs.iter().filter(|p| !p.is_empty()).count() >= 2);
    if preset != 0 { cx.sum.dist("fixedcap_preset_runs"); }
    let pool = match FixedCapacityMemoryPool::new(cfg) { Ok(p) => p, Err(e) => { cx.sum.fail(cellname, None, cj, &format!("pool creation failed: {}", e)); return; } };
    let ncls = pool.verif_num_classes();
    if modelled && ncls != maxb / 8 { cx.sum.fail(cellname, None, cj, &format!("the pool has {} size classes, {} expected for max_block_size {} / alignment 8", ncls, maxb / 8, maxb)); return; }
    let cell = Arc::new(FcCell { pool, sizes: sizes.clone(), maxb, total, park_util });
    let smap = ScribbleMap { tail: u32::MAX as u64, base: 0, bsize: maxb as u64, slots: (slots.min(total)) as u64 };
    let c2 = cell.clone();
    let c3 = cell.clone();
    let mut fin: Vec<u64> = vec![];
    let mut frees: Vec<Option<Vec<u64>>> = vec![];
    let mut stats5: Vec<u64> = vec![];
    let mut inspect = |o: &RunOut| -> Vec<(Option<String>, String)> {
        let mut f = vec![];
        let owned: BTreeSet<u64> = o.held.iter().flatten().cloned().collect();
        if c2.pool.verif_base() == 0 {
            // lazy pool that was never asked for a block: nothing exists yet
            if !o.ever.is_empty() { f.push((None, "blocks were handed out but the arena does not exist".into())); }
            return f;
        }
        let all: BTreeSet<u64> = (0..total as u64).map(|i| i * maxb as u64).collect();
        for b in &o.ever { if !all.contains(b) { f.push((None, format!("block {} was handed out but is not one of the {} blocks of {} bytes", b, total, maxb))); } }
        let link = |x: u64| c2.pool.verif_read_link(x as u32).map(|v| v as u64);
        let mut free_all: Vec<u64> = vec![];
        let mut broken = false;
        for ci in 0..c2.pool.verif_num_classes() {
            let (packed, count) = c2.pool.verif_class_state(ci).unwrap_or((u32::MAX as u64, 0));
            fin.push(packed);
            fin.push(count as u64);
            match walk_free(packed & 0xFFFF_FFFF, u32::MAX as u64, &link, &all, &owned, total) {
                Ok(l) => {
                    if l.len() as u64 != count as u64 { f.push((None, format!("class {} count = {} but its free list has {} blocks at quiescence", ci, count, l.len()))); }
                    free_all.extend(l.iter().cloned());
                    frees.push(Some(l));
                }
                Err(e) => { f.push((None, format!("class {}: {}", ci, e))); frees.push(None); broken = true; }
            }
        }
        if !broken {
            let mut s = BTreeSet::new();
            for b in &free_all { if !s.insert(*b) { f.push((None, format!("block {} is on two free lists", b))); } }
            let mut lost = 0;
            for b in &all { if !owned.contains(b) && !s.contains(b) { lost += 1; if lost <= 3 { f.push((None, format!("block {} is neither owned nor on a free list: lost", b))); } } }
        }
        if let Some(st) = c2.pool.stats() {
            let a = st.allocations.load(Ordering::SeqCst);
            let d = st.deallocations.load(Ordering::SeqCst);
            let act = st.active_blocks.load(Ordering::SeqCst) as u64;
            stats5 = vec![a, d, act, st.peak_blocks.load(Ordering::SeqCst) as u64, st.allocation_failures.load(Ordering::SeqCst)];
            if a != o.allocs_ok || d != o.frees || act != owned.len() as u64 {
                f.push((None, format!("stats allocations={} deallocations={} active={} but {} allocations, {} frees, {} live", a, d, act, o.allocs_ok, o.frees, owned.len())));
            }
            // (peak_blocks may exceed total_blocks by the number of concurrent frees: a freed block is listed before
            // active_blocks is decremented, and its next owner increments first - reported, not judged)
            if stats5[3] < act { f.push((None, format!("peak_blocks = {} with {} live blocks of {}", stats5[3], act, total))); }
            // what the pool reports about its capacity once every thread has finished
            let live = owned.len();
            let avail = c2.pool.available_capacity();
            if avail != (total - live.min(total)) * maxb { f.push((None, format!("available_capacity() = {} with {} of {} blocks of {} bytes live", avail, live, total, maxb))); }
            if c2.pool.has_capacity(1) != (live < total) { f.push((None, format!("has_capacity(1) = {} with {} of {} blocks live", c2.pool.has_capacity(1), live, total))); }
            let util = st.utilization.load(Ordering::SeqCst) as u64;
            if (a + d) > 0 && util != (live * 10000 / total) as u64 { f.push((None, format!("utilization gauge = {} (percent x 100) at quiescence but {} of {} blocks are live", util, live, total))); }
        }
        f
    };
    // the owner overwrites the header words of its block: all four, or (odd slot values) only the link word, so
    // that a stale reader can also meet an intact magic number with a wrong link
    let bsz = maxb as u64;
    let scr = move |b: u64, v: u64| -> u64 {
        let p = (c3.pool.verif_base() + b as usize) as *mut u32;
        let only_link = v != u32::MAX as u64 && (v / bsz) % 2 == 1;
        unsafe {
            if only_link { *p.add(2) = v as u32; } else { for i in 0..4 { *p.add(i) = v as u32; } }
            *p.add(1) as u64
        }
    };
    let out = controlled_run(cell.clone(), progs, sched, &smap, &mut NoWatch, &mut inspect, &scr);
    cx.sum.dist_max("max_steps_controlled", out.eff.len() as u64);
    if out.notes.iter().any(|&(_, s, v)| (s == vs::FC_POP_CAS || s == vs::FC_PUSH_CAS) && v == 0) { cx.sum.dist("runs_with_failed_cas"); }
    if out.notes.iter().any(|&(_, s, _)| s == vs::FC_SPLIT_PEEK) { cx.sum.dist("fc_runs_with_splitting"); }
    for (cl, d) in &out.fails { cx.sum.fail(cellname, cl.as_deref(), cj.clone(), d); }
    if out.aborted || out.eff.len() > 400 || fin.is_empty() || stats5.is_empty() || !modelled || park_util || out.unmodelled { return; }
    if !cx.room("FC", force) { return; }
    let cls = |t: usize| fc_class(sizes[t % sizes.len()], maxb);
    let sc: Vec<String> = out.eff.iter().map(|(t, c)| format!("({}%nat, {})", t, match c {
        Cm::None => "FNone".to_string(),
        Cm::Pop => format!("FPop {}%nat", cls(*t)),
        Cm::Push(b) => format!("FPush {} {}%nat", b, cls(*t)),
        Cm::Scr(b, v, m) => format!("FScribble {} {} {}", b, m, v),
    })).collect();
    let notes: Vec<u128> = out.notes.iter().flat_map(|&(_, s, v)| vec![norm_site(s) as u128, v as u128]).collect();
    let helds: Vec<String> = out.held.iter().map(|h| coq_n_list(h.iter().map(|&x| x as u128))).collect();
    let frs: Vec<String> = frees.iter().map(|f| coq_opt(f.as_ref().map(|f| coq_n_list(f.iter().map(|&x| x as u128))))).collect();
    let term = format!("XFC ({}%nat, {}, {}, {}, {}%nat, [{}], {}, {}, [{}], [{}], {})",
        ncls, maxb, total, coq_bool(clear), progs.len(), sc.join("; "), coq_n_list(notes),
        coq_n_list(fin.iter().map(|&x| x as u128)), frs.join("; "), helds.join("; "), coq_n_list(stats5.iter().map(|&x| x as u128)));
    let mut c2j = cj.clone();
    c2j["impl_final"] = json!(fin);
    c2j["impl_free"] = json!(frees);
    c2j["impl_stats"] = json!(stats5);
    cx.shards.push(term, c2j);
}

/// Monitor of the secure pool's Treiber stack: keeps the abstract stack from the hook notes.
struct SpWatch {
    live: BTreeSet<u64>,
    stack: Vec<u64>,                // node addresses, top last
    loaded: HashMap<usize, u64>,    // tid -> head it loaded (pop)
    read_next: HashMap<usize, u64>, // tid -> next it read (pop)
    push_node: HashMap<usize, u64>,
    /// the chunk a thread is giving back (it is what the node it pushes carries)
    freeing: HashMap<usize, u64>,
    node_chunk: HashMap<u64, u64>,
    /// threads inside clear(): what they pop is released to the system
    clearing: BTreeSet<usize>,
    /// chunks released by clear() whose address has not been handed out again since
    destroyed: BTreeSet<u64>,
}
impl SpWatch {
    fn new() -> Self {
        SpWatch { live: BTreeSet::new(), stack: vec![], loaded: HashMap::new(), read_next: HashMap::new(), push_node: HashMap::new(),
                  freeing: HashMap::new(), node_chunk: HashMap::new(), clearing: BTreeSet::new(), destroyed: BTreeSet::new() }
    }
}
impl Watch for SpWatch {
    fn on_op_start(&mut self, tid: usize, op: &Op, freed: Option<u64>) {
        match (op, freed) {
            (Op::Free(_), Some(b)) => { self.freeing.insert(tid, b); }
            (Op::Clear, _) => { self.clearing.insert(tid); }
            _ => {}
        }
    }
    fn on_op_end(&mut self, tid: usize, got: &[u64]) {
        self.freeing.remove(&tid);
        self.clearing.remove(&tid);
        for b in got { self.destroyed.remove(b); }
    }
    fn pre_turn(&mut self, tid: usize, site: Option<u32>) -> Option<(String, String)> {
        if site == Some(vs::SP_POP_NEXT) {
            if let Some(&h) = self.loaded.get(&tid) {
                if !self.live.contains(&h) {
                    return Some(("secure_stack_use_after_free".into(), format!(
                        "thread {} is about to read (*head).next of stack node {:#x}, which another thread popped and freed after this thread loaded the head", tid, h)));
                }
            }
        }
        None
    }
    fn on_note(&mut self, tid: usize, site: u32, val: u64) -> Option<(String, String)> {
        match site {
            x if x == vs::SP_POP_LOAD => { self.loaded.insert(tid, val); }
            x if x == vs::SP_POP_NEXT => { self.read_next.insert(tid, val); }
            x if x == vs::SP_POP_CAS && val == 1 => {
                let h = self.loaded.get(&tid).cloned().unwrap_or(0);
                let n = self.read_next.get(&tid).cloned().unwrap_or(0);
                let top = self.stack.last().cloned().unwrap_or(0);
                let below = if self.stack.len() >= 2 { self.stack[self.stack.len() - 2] } else { 0 };
                if top != h || n != below {
                    return Some(("secure_stack_aba".into(), format!(
                        "thread {} popped node {:#x} and installed next {:#x} as the new head, but the stack is {:x?} (top last): the head address was reused between the load and the compare-exchange (ABA); the stack is now corrupt",
                        tid, h, n, self.stack)));
                }
                self.stack.pop();
                self.live.remove(&h);
                if let Some(ch) = self.node_chunk.remove(&h) { if self.clearing.contains(&tid) { self.destroyed.insert(ch); } }
            }
            x if x == vs::SP_PUSH_NEXT => { self.push_node.insert(tid, val); }
            x if x == vs::SP_PUSH_CAS && val == 1 => {
                let a = self.push_node.get(&tid).cloned().unwrap_or(0);
                self.live.insert(a);
                self.stack.push(a);
                if let Some(&ch) = self.freeing.get(&tid) { self.node_chunk.insert(a, ch); }
            }
            _ => {}
        }
        None
    }
}

struct SharedWatch(Arc<Mutex<SpWatch>>);
impl Watch for SharedWatch {
    fn on_op_start(&mut self, tid: usize, op: &Op, freed: Option<u64>) { self.0.lock().unwrap().on_op_start(tid, op, freed) }
    fn on_op_end(&mut self, tid: usize, got: &[u64]) { self.0.lock().unwrap().on_op_end(tid, got) }
    fn pre_turn(&mut self, tid: usize, site: Option<u32>) -> Option<(String, String)> { self.0.lock().unwrap().pre_turn(tid, site) }
    fn on_note(&mut self, tid: usize, site: u32, val: u64) -> Option<(String, String)> { self.0.lock().unwrap().on_note(tid, site, val) }
}

fn run_sp(cx: &mut Ctx, cache: usize, preset: u64, progs: &[Vec<Op>], sched: &[usize], force: bool) {
    run_sp_v(cx, cache, &json!({"preset": preset}), progs, sched, force)
}

/// The configuration of a SecureMemoryPool case: `preset` 0 SecurePoolConfig::new(64, 100, 8), 1 small_secure()
/// (batch_size 16), 2 medium_secure() (64 KiB chunks, alignment 16), 3 large_secure() (1 MiB chunks, alignment 32) -
/// all with the given local_cache_size - and the option bits `opts`: 1 zero_on_alloc, 2 batch_size 2, 4 alignment 64,
/// 8 guard pages, 16 SIMD operations with threshold 16, 32 cache alignment with the sequential access pattern,
/// 64 hot/cold separation with threshold 1, 128 NUMA awareness, 256 huge pages with threshold 1, 512 prefetch
/// distance 1, 1024 zero_on_free off.  The options that are not named are switched off as before.
fn sp_config(cache: usize, preset: u64, opts: u64) -> SecurePoolConfig {
    let base = match preset { 1 => SecurePoolConfig::small_secure(), 2 => SecurePoolConfig::medium_secure(), 3 => SecurePoolConfig::large_secure(), _ => SecurePoolConfig::new(64, 100, 8) };
    let mut cfg = base.with_local_cache_size(cache);
    cfg = if opts & 32 != 0 { cfg.with_cache_alignment(true).with_access_pattern(zipora::memory::cache_layout::AccessPattern::Sequential) } else { cfg.with_cache_alignment(false).with_cache_config(None) };
    cfg = cfg.with_numa_awareness(opts & 128 != 0);
    cfg = if opts & 64 != 0 { cfg.with_hot_cold_separation(true).with_hot_data_threshold(1) } else { cfg.with_hot_cold_separation(false) };
    cfg = if opts & 256 != 0 { cfg.with_huge_pages(true).with_huge_page_threshold(1) } else { cfg.with_huge_pages(false) };
    cfg = if opts & 16 != 0 { cfg.with_simd_ops(true).with_simd_threshold(16) } else { cfg.with_simd_ops(false) };
    if opts & 1 != 0 { cfg = cfg.with_zero_on_alloc(true); }
    if opts & 2 != 0 { cfg = cfg.with_batch_size(2); }
    if opts & 4 != 0 { cfg = cfg.with_alignment(64); }
    if opts & 8 != 0 { cfg = cfg.with_guard_pages(true); }
    if opts & 512 != 0 { cfg = cfg.with_prefetch_distance(1); }
    if opts & 1024 != 0 { cfg = cfg.with_zero_on_free(false); }
    cfg
}

/// SecureMemoryPool (thread-local caches in front of the shared Treiber stack): the oracle, and every run that is
/// not cut short by one of the recorded stack findings is replayed on the model of coq/C08/ModelSecure.v (runs with
/// a bulk allocation or a clear() excepted: the model has neither).  Variant fields: `preset`, `opts` (sp_config).
fn run_sp_v(cx: &mut Ctx, cache: usize, v: &Value, progs: &[Vec<Op>], sched: &[usize], force: bool) {
    let cellname = "SecureMemoryPool/controlled";
    let preset = v["preset"].as_u64().unwrap_or(0);
    let opts = v["opts"].as_u64().unwrap_or(0);
    let mut cj = case_json("SP", cache, 0, progs, sched);
    merge_variant(&mut cj, v);
    if preset == 0 { if let Some(o) = cj.as_object_mut() { o.remove("preset"); } }
    cx.sum.cell_status(cellname, "M+S");
    cx.sum.eval(cellname, &cj.to_string(), progs.iter().filter(|p| !p.is_empty()).count() >= 2);
    let cfg = sp_config(cache, preset, opts);
    let chunk = cfg.chunk_size;
    if preset >= 2 { cx.sum.dist("secure_runs_with_big_chunk_presets"); }
    if opts != 0 { cx.sum.dist("secure_runs_with_options"); }
    let pool = match SecureMemoryPool::new(cfg) { Ok(p) => p, Err(e) => { cx.sum.fail(cellname, None, cj, &format!("pool creation failed: {}", e)); return; } };
    let cell = Arc::new(SpCell { pool: pool.clone(), chunk });
    let smap = ScribbleMap { tail: 0, base: 0, bsize: 1, slots: 256 };
    let w = Arc::new(Mutex::new(SpWatch::new()));
    let w2 = w.clone();
    let p2 = pool.clone();
    let mut stack_chunks: Option<Vec<u64>> = None;
    let mut counters: Vec<u64> = vec![];
    let mut inspect = |o: &RunOut| -> Vec<(Option<String>, String)> {
        let mut f = vec![];
        let w = w2.lock().unwrap();
        // traverse the real stack, dereferencing only nodes known to be linked
        let mut in_stack = vec![];
        let mut h = p2.verif_stack_head() as u64;
        let mut steps = 0;
        while h != 0 {
            if !w.live.contains(&h) { f.push((None, format!("stack links to node {:#x} which is not a live node (dangling)", h))); return f; }
            let (nx, ch) = unsafe { p2.verif_stack_node(h as usize) };
            in_stack.push(ch as u64);
            h = nx as u64;
            steps += 1;
            if steps > 10_000 { f.push((None, "stack has a cycle".into())); return f; }
        }
        let owned: BTreeSet<u64> = o.held.iter().flatten().cloned().collect();
        let mut place: BTreeMap<u64, u32> = BTreeMap::new();
        for b in &owned { *place.entry(*b).or_insert(0) += 1; }
        for b in &in_stack { *place.entry(*b).or_insert(0) += 1; }
        for c in &o.exit_info { for b in c { *place.entry(*b).or_insert(0) += 1; } }
        for b in &o.ever {
            let gone = w.destroyed.contains(b);
            match place.get(b).cloned().unwrap_or(0) {
                1 if !gone => {}
                0 if gone => {}
                0 => f.push((None, format!("chunk {:#x} was freed but is in no cache and not on the shared stack: lost", b))),
                k => f.push((None, format!("chunk {:#x} is in {} places at once{}", b, k, if gone { " although clear() released it" } else { "" }))),
            }
        }
        for b in place.keys() { if !o.ever.contains(b) { f.push((None, format!("the pool holds chunk {:#x}, which no thread was ever handed", b))); } }
        let st = p2.stats();
        if st.alloc_count != o.alloc_calls || st.dealloc_count != o.frees {
            f.push((None, format!("alloc_count={} dealloc_count={} after {} allocate calls and {} frees", st.alloc_count, st.dealloc_count, o.alloc_calls, o.frees)));
        }
        if st.pool_hits + st.pool_misses != st.alloc_count { f.push((None, format!("pool_hits {} + pool_misses {} != alloc_count {}", st.pool_hits, st.pool_misses, st.alloc_count))); }
        if st.local_cache_hits + st.cross_thread_steals != st.pool_hits { f.push((None, format!("local_cache_hits {} + cross_thread_steals {} != pool_hits {}", st.local_cache_hits, st.cross_thread_steals, st.pool_hits))); }
        if st.hot_data_allocs != o.hot_calls || st.hot_data_allocs + st.cold_data_allocs != o.allocs_ok {
            f.push((None, format!("hot_data_allocs {} + cold_data_allocs {} after {} hinted and {} plain successful allocations", st.hot_data_allocs, st.cold_data_allocs, o.hot_calls, o.allocs_ok - o.hot_calls.min(o.allocs_ok))));
        }
        if st.double_free_detected != 0 || st.corruption_detected != 0 { f.push((None, format!("double_free_detected = {} corruption_detected = {} although every chunk was freed once and none was damaged", st.double_free_detected, st.corruption_detected))); }
        if p2.verif_active_len() != owned.len() { f.push((None, format!("active-allocation table has {} entries, {} chunks are live", p2.verif_active_len(), owned.len()))); }
        if let Err(e) = p2.validate() { f.push((None, format!("validate() fails at quiescence: {}", e))); }
        stack_chunks = Some(in_stack);
        counters = vec![st.alloc_count, st.dealloc_count, st.pool_hits, st.pool_misses, st.local_cache_hits, st.cross_thread_steals,
                        st.double_free_detected, p2.verif_active_len() as u64];
        f
    };
    let scr = |_b: u64, _v: u64| -> u64 { 0 };
    let out = controlled_run(cell.clone(), progs, sched, &smap, &mut SharedWatch(w.clone()), &mut inspect, &scr);
    if std::env::var("ZV_C08_DEBUG").is_ok() {
        for (t, s, v) in &out.notes { eprintln!("note t{} site {} val {:#x}", t, s, v); }
        eprintln!("held {:x?} exit_info {:x?} eff {}", out.held, out.exit_info, out.eff.len());
    }
    cx.sum.dist_max("max_steps_controlled", out.eff.len() as u64);
    if out.notes.iter().any(|&(_, s, _)| s == vs::SP_PUSH_CAS) { cx.sum.dist("secure_runs_with_spill_to_stack"); }
    if out.notes.iter().any(|&(_, s, v)| s == vs::SP_POP_CAS && v == 1) { cx.sum.dist("secure_runs_with_refill_from_stack"); }
    for (cl, d) in &out.fails {
        let class = match cl.as_deref() {
            Some(c) => Some(c.to_string()),
            None => None,
        };
        cx.sum.fail(cellname, class.as_deref(), cj.clone(), d);
    }
    if out.clears > 0 { cx.sum.dist("secure_runs_with_clear"); }
    // Coq case: chunks are named by their serial number (order of creation = order of first appearance)
    if out.aborted || out.eff.len() > 400 || counters.is_empty() || out.unmodelled { return; }
    let stack_chunks = match stack_chunks { Some(x) => x, None => return };
    if !cx.room("SP", force) { return; }
    let serial: HashMap<u64, u64> = out.order.iter().enumerate().map(|(i, &a)| (a, i as u64)).collect();
    let ser = |a: &u64| -> u128 { serial.get(a).cloned().unwrap_or(u64::MAX) as u128 };
    let sc: Vec<String> = out.eff.iter().enumerate().map(|(i, (t, c))| format!("({}%nat, {})", t, match c {
        Cm::Pop => "SAlloc".to_string(),
        Cm::Push(b) => {
            // the node address the allocator returned, if this free spilled to the shared stack
            let from = out.eff_notes[i];
            let a = out.notes[from..].iter().find(|&&(tt, s, _)| tt == *t && s == vs::SP_PUSH_NEXT).map(|&(_, _, v)| v).unwrap_or(0);
            format!("SFree {} {}", ser(b), a)
        }
        _ => "SNone".to_string(),
    })).collect();
    let notes: Vec<u128> = out.notes.iter().flat_map(|&(_, s, v)| vec![norm_site(s) as u128, v as u128]).collect();
    let helds: Vec<String> = out.held.iter().map(|h| coq_n_list(h.iter().map(&ser))).collect();
    // LocalCache.chunks is a Vec used as a stack: the model lists the top first
    let caches: Vec<String> = out.exit_info.iter().map(|c| coq_n_list(c.iter().rev().map(&ser))).collect();
    let term = format!("XSP ({}, {}%nat, [{}], {}, Some {}, [{}], [{}], {})",
        cache, progs.len(), sc.join("; "), coq_n_list(notes), coq_n_list(stack_chunks.iter().map(&ser)),
        helds.join("; "), caches.join("; "), coq_n_list(counters.iter().map(|&x| x as u128)));
    let mut c2 = cj.clone();
    c2["impl_counters"] = json!(counters);
    c2["impl_stack_len"] = json!(stack_chunks.len());
    cx.shards.push(term, c2);
}

struct MpCell { pool: MemoryPool, csize: usize }
impl Cell for MpCell {
    type H = NonNull<u8>;
    fn alloc(&self) -> Result<(Self::H, u64), String> {
        match self.pool.allocate() { Ok(p) => Ok((p, p.as_ptr() as usize as u64)), Err(e) => Err(e.to_string()) }
    }
    fn free(&self, h: Self::H) -> Option<Self::H> { if self.pool.deallocate(h).is_err() { Some(h) } else { None } }
    fn clear(&self) -> Result<(), String> { self.pool.clear().map_err(|e| e.to_string()) }
    // clear() blocks on the queue mutex: not while a parked thread holds it
    fn clear_would_block(&self, parked: &[Option<u32>]) -> bool {
        parked.iter().any(|s| *s == Some(vs::MP_ALLOC_POP) || *s == Some(vs::MP_FREE_PUSH))
    }
    fn scribble(&self, h: &mut Self::H, v: u64) { unsafe { std::ptr::write_bytes(h.as_ptr(), v as u8, self.csize); } }
    fn check(&self, _held: &mut [Self::H]) -> Vec<String> {
        let mut f = vec![];
        let st = self.pool.stats();
        if st.pool_hits + st.pool_misses > st.alloc_count { f.push(format!("pool_hits {} + pool_misses {} exceed alloc_count {}", st.pool_hits, st.pool_misses, st.alloc_count)); }
        if st.available != st.chunks as u64 * self.csize as u64 { f.push(format!("stats.available = {} for {} pooled chunks of {}", st.available, st.chunks, self.csize)); }
        if self.pool.config().chunk_size != self.csize { f.push("config().chunk_size changed".into()); }
        f
    }
}
unsafe impl Send for MpCell {}
unsafe impl Sync for MpCell {}

fn run_mp(cx: &mut Ctx, csize: usize, maxc: usize, progs: &[Vec<Op>], sched: &[usize], force: bool) {
    run_mp_v(cx, csize, maxc, &Value::Null, progs, sched, force)
}

/// MemoryPool (pool.rs) under a controlled schedule: threads are parked before try_lock, under the queue lock,
/// before the miss / direct-release paths and before the byte accounting.  Oracle: ownership, and at quiescence the
/// byte accounting, the counters, the capacity and the pooled chunks; every run is replayed on coq/C08/ModelMemPool.v
/// (runs with a clear() excepted).  Variant fields: `preset` (1 PoolConfig::small(), 2 medium(), 3 large()), `align`.
fn run_mp_v(cx: &mut Ctx, csize: usize, maxc: usize, v: &Value, progs: &[Vec<Op>], sched: &[usize], force: bool) {
    let cellname = "MemoryPool/controlled";
    let preset = v["preset"].as_u64().unwrap_or(0);
    let mut pc = match preset { 1 => PoolConfig::small(), 2 => PoolConfig::medium(), 3 => PoolConfig::large(), _ => PoolConfig::new(csize, maxc, 8) };
    if let Some(a) = v["align"].as_u64() { if a.is_power_of_two() && a <= 4096 { pc.alignment = a as usize; } }
    let (csize, maxc) = (pc.chunk_size, pc.max_chunks);
    let mut cj = case_json("MP", csize, maxc, progs, sched);
    merge_variant(&mut cj, v);
    cx.sum.cell_status(cellname, "M+S");
    cx.sum.eval(cellname, &cj.to_string(), progs.iter().filter(|p| !p.is_empty()).count() >= 2);
    if preset != 0 { cx.sum.dist("mempool_preset_runs"); }
    let pool = match MemoryPool::new(pc) { Ok(p) => p, Err(e) => { cx.sum.fail(cellname, None, cj, &format!("pool creation failed: {}", e)); return; } };
    let cell = Arc::new(MpCell { pool, csize });
    let smap = ScribbleMap { tail: 0, base: 0, bsize: 1, slots: 256 };
    let c2 = cell.clone();
    let mut queue: Option<Vec<u64>> = None;
    let mut counters: Vec<u64> = vec![];
    let mut inspect = |o: &RunOut| -> Vec<(Option<String>, String)> {
        let mut f = vec![];
        let owned: BTreeSet<u64> = o.held.iter().flatten().cloned().collect();
        let st = c2.pool.stats();
        let q: Option<Vec<u64>> = c2.pool.verif_free_chunks().map(|v| v.into_iter().map(|x| x as u64).collect());
        match &q {
            None => f.push((None, "the queue lock is still held at quiescence".into())),
            Some(q) => {
                let mut seen = BTreeSet::new();
                for b in q {
                    if !seen.insert(*b) { f.push((None, format!("chunk {:#x} is pooled twice", b))); }
                    if owned.contains(b) { f.push((None, format!("chunk {:#x} is pooled while a thread owns it", b))); }
                }
                if q.len() > maxc { f.push((None, format!("{} chunks pooled, max_chunks is {}", q.len(), maxc))); }
                let alive = (q.len() + owned.len()) as u64;
                if st.allocated != alive * csize as u64 {
                    f.push((None, format!("stats.allocated = {} bytes but {} chunks of {} bytes are alive ({} pooled, {} held) at quiescence", st.allocated, alive, csize, q.len(), owned.len())));
                }
            }
        }
        if st.alloc_count != o.alloc_calls || st.dealloc_count != o.frees {
            f.push((None, format!("alloc_count={} dealloc_count={} after {} allocate calls and {} frees", st.alloc_count, st.dealloc_count, o.alloc_calls, o.frees)));
        }
        if st.pool_hits + st.pool_misses != st.alloc_count { f.push((None, format!("pool_hits {} + pool_misses {} != alloc_count {}", st.pool_hits, st.pool_misses, st.alloc_count))); }
        counters = vec![st.allocated, st.alloc_count, st.dealloc_count, st.pool_hits, st.pool_misses, if q.is_none() { 1 } else { 0 }];
        queue = q;
        f
    };
    let scr = |_b: u64, _v: u64| -> u64 { 0 };
    let out = controlled_run(cell.clone(), progs, sched, &smap, &mut NoWatch, &mut inspect, &scr);
    cx.sum.dist_max("max_steps_controlled", out.eff.len() as u64);
    if out.notes.iter().any(|&(_, s, v)| (s == vs::MP_ALLOC_LOCK || s == vs::MP_FREE_LOCK) && v == 0) { cx.sum.dist("mempool_runs_with_busy_lock"); }
    if out.eff_site.iter().any(|s| *s == Some(vs::MP_FREE_DIRECT)) { cx.sum.dist("mempool_runs_with_direct_release"); }
    if out.clears > 0 { cx.sum.dist("mempool_runs_with_clear"); }
    if out.clears_skipped > 0 { cx.sum.dist("mempool_clear_skipped_lock_held"); }
    for (cl, d) in &out.fails { cx.sum.fail(cellname, cl.as_deref(), cj.clone(), d); }
    if out.aborted || out.eff.len() > 400 || counters.is_empty() || out.unmodelled { return; }
    let queue = match queue { Some(q) => q, None => return };
    if !cx.room("MP", force) { return; }
    // chunks are named by serial numbers in order of creation (the turn that passes the miss point); the system
    // allocator may return the address of a released chunk again, so the address -> serial map is updated
    let mut next_serial = 0u64;
    let mut pending: Vec<Option<u64>> = vec![None; progs.len()];
    let mut cur: HashMap<u64, u64> = HashMap::new();
    let mut sc: Vec<String> = vec![];
    for (i, (t, c)) in out.eff.iter().enumerate() {
        if out.eff_site[i] == Some(vs::MP_ALLOC_MISS) { pending[*t] = Some(next_serial); next_serial += 1; }
        let cmd = match c {
            Cm::Pop => "MAlloc".to_string(),
            Cm::Push(b) => format!("MFree {}", cur.get(b).cloned().unwrap_or(u64::MAX)),
            _ => "MNone".to_string(),
        };
        sc.push(format!("({}%nat, {})", t, cmd));
        if let Some(addr) = out.eff_result[i] {
            if let Some(ser) = pending[*t].take() { cur.insert(addr, ser); }
        }
    }
    let ser = |a: &u64| -> u128 { cur.get(a).cloned().unwrap_or(u64::MAX) as u128 };
    let notes: Vec<u128> = out.notes.iter().flat_map(|&(_, s, v)| vec![norm_site(s) as u128, v as u128]).collect();
    let helds: Vec<String> = out.held.iter().map(|h| coq_n_list(h.iter().map(&ser))).collect();
    let term = format!("XMP ({}, {}, {}%nat, [{}], {}, {}, [{}], {})",
        csize, maxc, progs.len(), sc.join("; "), coq_n_list(notes), coq_n_list(queue.iter().map(&ser)), helds.join("; "),
        coq_n_list(counters.iter().map(|&x| x as u128)));
    let mut c2j = cj.clone();
    c2j["impl_counters"] = json!(counters);
    c2j["impl_pooled"] = json!(queue.len());
    cx.shards.push(term, c2j);
}

fn run_case(cx: &mut Ctx, c: &Value, force: bool) {
    if c["cell"].as_str().map(|s| s.starts_with("stress")).unwrap_or(false) {
        stress_case(cx, c);
        return;
    }
    let (cell, size, slots, progs, sched) = parse_case(c);
    if progs.is_empty() { return; }
    match cell.as_str() {
        "LF" => run_lf_v(cx, size.clamp(1, 1 << 20), slots.clamp(1, 64), c, &progs, &sched, force),
        "FL" => run_fl_v(cx, size.clamp(1, 1 << 20), slots.clamp(1, 64), c, &progs, &sched, force),
        "FC" => {
            let sizes: Vec<usize> = c["sizes"].as_array().map(|a| a.iter().filter_map(|x| x.as_u64().map(|v| v as usize)).collect()).unwrap_or_default();
            let sizes = if sizes.is_empty() { vec![size] } else { sizes };
            run_fc_v(cx, &sizes, c["clear"].as_bool().unwrap_or(false), slots.clamp(1, 64), c, &progs, &sched, force)
        }
        "MP" => run_mp_v(cx, size.clamp(1, 1 << 20), slots.clamp(0, 128), c, &progs, &sched, force),
        "SP" => run_sp_v(cx, size.clamp(0, 8), c, &progs, &sched, force),
        _ => {}
    }
}

// ------------------------------------------------------------------------------------------
// generators
// ------------------------------------------------------------------------------------------
fn gen_prog(r: &mut Rng, len: usize, allow_m: bool, slots: usize) -> Vec<Op> {
    let mut p = vec![];
    let mut held = 0usize;
    for _ in 0..len {
        let x = r.below(100);
        if held == 0 || x < 45 { p.push(Op::Alloc); held += 1; }
        else if x < 85 { p.push(Op::Free(r.below(3) as usize)); held -= 1; }
        else if x < 95 || !allow_m { p.push(Op::Scribble(r.below(3) as usize, if r.chance(1, 4) { None } else { Some(r.below(slots as u64) as u32) })); }
        else { p.push(Op::Malloc); }
    }
    p
}
/// Schedules biased towards the dangerous windows: long runs of one thread (so that it completes whole
/// operations) interrupted at random points by single steps or whole bursts of the others.
fn gen_sched(r: &mut Rng, n: usize, len: usize) -> Vec<usize> {
    let mut s = vec![];
    let mut cur = r.below(n as u64) as usize;
    while s.len() < len {
        let burst = match r.below(4) { 0 => 1, 1 => r.range(1, 3), 2 => r.range(3, 9), _ => r.range(5, 25) } as usize;
        for _ in 0..burst { s.push(cur); }
        cur = r.below(n as u64) as usize;
    }
    s
}

/// All interleavings of two threads where thread 0 performs `a` steps and thread 1 `b` steps.
fn interleavings(a: usize, b: usize, cur: &mut Vec<usize>, out: &mut Vec<Vec<usize>>) {
    if a == 0 && b == 0 { out.push(cur.clone()); return; }
    if a > 0 { cur.push(0); interleavings(a - 1, b, cur, out); cur.pop(); }
    if b > 0 { cur.push(1); interleavings(a, b - 1, cur, out); cur.pop(); }
}

// ------------------------------------------------------------------------------------------
// free-running stress with an ownership table
// ------------------------------------------------------------------------------------------
/// One slot per block id: 0 = free, t+1 = owned by thread t.
struct Ownership { slots: Vec<AtomicU64>, clash: AtomicBool, detail: Mutex<String> }
impl Ownership {
    fn new(n: usize) -> Self { Ownership { slots: (0..n).map(|_| AtomicU64::new(0)).collect(), clash: AtomicBool::new(false), detail: Mutex::new(String::new()) } }
    fn take(&self, id: usize, t: usize) {
        if id >= self.slots.len() { return; }
        let prev = self.slots[id].swap(t as u64 + 1, Ordering::SeqCst);
        if prev != 0 && !self.clash.swap(true, Ordering::SeqCst) {
            *self.detail.lock().unwrap() = format!("block id {} handed to thread {} while thread {} owns it", id, t, prev - 1);
        }
    }
    fn give(&self, id: usize, t: usize) {
        if id >= self.slots.len() { return; }
        let prev = self.slots[id].swap(0, Ordering::SeqCst);
        if prev != t as u64 + 1 && !self.clash.swap(true, Ordering::SeqCst) {
            *self.detail.lock().unwrap() = format!("block id {} freed by thread {} but the table says owner {}", id, t, prev as i64 - 1);
        }
    }
}

fn stress_threads(n: usize, f: impl Fn(usize) + Send + Sync + 'static) -> Result<(), String> {
    let f = Arc::new(f);
    let hs: Vec<_> = (0..n).map(|t| { let f = f.clone(); std::thread::spawn(move || { let _ = t; guarded(move || f(t)) }) }).collect();
    let mut err = Ok(());
    for h in hs {
        match h.join() { Ok(Ok(())) => {}, Ok(Err(p)) => err = Err(format!("thread panicked: {}", p)), Err(_) => err = Err("thread died".into()) }
    }
    err
}

/// Stress cases run in a child process: a corrupted free list may crash the process, and a crash is a verdict.
fn stress_case(cx: &mut Ctx, c: &Value) {
    if std::env::var("ZV_C08_CHILD").is_ok() { return stress_case_inproc(cx, c); }
    let cell = c["cell"].as_str().unwrap_or("").to_string();
    cx.sum.cell_status(&cell, "S-only");
    cx.sum.eval(&cell, &c.to_string(), c["threads"].as_u64().unwrap_or(4) >= 2);
    let k = cx.child_seq;
    cx.child_seq += 1;
    let dir = format!("{}/stress_{}", cx.out, k);
    let _ = std::fs::create_dir_all(&dir);
    let cf = format!("{}/case.json", dir);
    std::fs::write(&cf, json!({"case": c}).to_string()).unwrap();
    let exe = match std::env::current_exe() { Ok(e) => e, Err(_) => return stress_case_inproc(cx, c) };
    let child = std::process::Command::new(exe).args(["C08", "--seed", "1", "--tier", "quick", "--out", &dir, "--replay", &cf])
        .env("ZV_C08_CHILD", "1").stdout(std::process::Stdio::null()).stderr(std::process::Stdio::null()).spawn();
    let mut child = match child { Ok(ch) => ch, Err(e) => { cx.sum.notes.push(format!("cannot spawn child: {}", e)); return stress_case_inproc(cx, c); } };
    let t0 = std::time::Instant::now();
    let status = loop {
        match child.try_wait() {
            Ok(Some(st)) => break Some(st),
            Ok(None) => {
                if t0.elapsed() > Duration::from_secs(if cx.thorough { 600 } else { 90 }) { let _ = child.kill(); let _ = child.wait(); break None; }
                std::thread::sleep(Duration::from_millis(20));
            }
            Err(_) => break None,
        }
    };
    let sumf = format!("{}/summary.json", dir);
    let parsed: Option<Value> = std::fs::read_to_string(&sumf).ok().and_then(|t| serde_json::from_str(&t).ok());
    match (status, parsed) {
        (Some(st), Some(v)) if st.success() => {
            for f in v["failures"].as_array().cloned().unwrap_or_default() {
                cx.sum.fail(&cell, f["class"].as_str(), c.clone(), f["detail"].as_str().unwrap_or(""));
            }
        }
        (None, _) => cx.sum.fail(&cell, classify_stress(&cell, "timeout"), c.clone(), "the stress run did not finish in time (threads stuck: a corrupted free list makes pop loop forever)"),
        (Some(st), _) => {
            use std::os::unix::process::ExitStatusExt;
            let d = format!("the process running the stress died ({}): memory corruption inside the pool", st.signal().map(|s| format!("signal {}", s)).unwrap_or_else(|| format!("exit {:?}", st.code())));
            cx.sum.fail(&cell, classify_stress(&cell, "died"), c.clone(), &d);
        }
    }
    let _ = std::fs::remove_dir_all(&dir);
}

fn stress_case_inproc(cx: &mut Ctx, c: &Value) {
    let cell = c["cell"].as_str().unwrap_or("").to_string();
    let nthr = c["threads"].as_u64().unwrap_or(4) as usize;
    let iters = c["iters"].as_u64().unwrap_or(2000) as usize;
    let seed = c["seed"].as_u64().unwrap_or(1);
    let size = c["size"].as_u64().unwrap_or(64) as usize;
    let hold = c["hold"].as_u64().unwrap_or(4) as usize;
    cx.sum.cell_status(&cell, "S-only");
    cx.sum.eval(&cell, &c.to_string(), nthr >= 2);
    let fails: Vec<String> = if let Some(f) = wide::stress_wide(cell.as_str(), c) { f } else { match cell.as_str() {
        "stress/LockFreeMemoryPool" => stress_lf(nthr, iters, seed, size, hold, c["zero"].as_bool().unwrap_or(false)),
        "stress/five_level::LockFreePool" => stress_fl(nthr, iters, seed, size, hold, 0),
        "stress/five_level::MutexBasedPool" => stress_fl(nthr, iters, seed, size, hold, 1),
        "stress/five_level::ThreadLocalPool" => stress_fl(nthr, iters, seed, size, hold, 2),
        "stress/FixedCapacityMemoryPool" => stress_fc(nthr, iters, seed, size, hold),
        "stress/SecureMemoryPool" => stress_sp(nthr, iters, seed, hold, c["cache"].as_u64().unwrap_or(4) as usize, false),
        "stress/global_secure_pools" => stress_sp(nthr, iters, seed, hold, 0, true),
        "stress/MemoryPool" => stress_mp(nthr, iters, seed, hold),
        "stress/global_memory_pools" => stress_gp(nthr, iters, seed, hold),
        _ => vec![],
    } };
    for d in fails {
        let class = classify_stress(&cell, &d);
        cx.sum.fail(&cell, class, c.clone(), &d);
    }
}

fn classify_stress(cell: &str, d: &str) -> Option<&'static str> {
    // A free-running stress of the secure pool can land in the ABA / use-after-free window of its Treiber
    // stack (findings secure_stack_*): the symptoms are a crash, a hang, a cycle, a foreign or duplicated
    // chunk, or chunks missing from the stack.  Counter mismatches are never excused, and the controlled
    // SecureMemoryPool cell decides chunk conservation deterministically without this class.
    if (cell == "stress/SecureMemoryPool" || cell == "stress/global_secure_pools" || cell == "stress/SecureMemoryPool/entry_points")
        && (d == "died" || d == "timeout" || d.contains("cycle") || d.contains("corrupt node") || d.contains("handed to thread")
            || d.contains("overwritten") || d.contains("shared stack longer") || (d.contains("lost") && !d.contains(": -"))) {
        return Some("secure_stack_aba");
    }
    // both symptoms of one MemOffset naming two live blocks: seen when the second is handed out, or when
    // the first owner frees "its" offset after the table entry was overwritten
    if cell == "stress/five_level::ThreadLocalPool" && (d.contains("handed to thread") || d.contains("but the table says owner")) {
        return Some("threadlocal_pool_offsets_not_unique");
    }
    None
}

fn stress_lf(nthr: usize, iters: usize, seed: u64, size: usize, hold: usize, zero: bool) -> Vec<String> {
    let bs = lf_slot_size(size);
    let cap = 8 + bs * (nthr * hold + 2);
    let cfg = LockFreePoolConfig { memory_size: cap, enable_stats: true, max_cas_retries: 100_000, backoff_strategy: BackoffStrategy::None,
        enable_cache_alignment: false, cache_config: None, enable_numa_awareness: false, enable_huge_pages: false, huge_page_threshold: 1 << 30,
        enable_simd_optimization: zero, zero_on_free: zero };
    let pool = Arc::new(match LockFreeMemoryPool::new(cfg) { Ok(p) => p, Err(e) => return vec![format!("pool creation failed: {}", e)] });
    // zero: every free goes through deallocate_with_zero (scrub, then push)
    let give_back = move |p2: &LockFreeMemoryPool, p: NonNull<u8>| { let _ = if zero { p2.deallocate_with_zero(p, size) } else { p2.deallocate(p, size) }; };
    let base = pool.verif_layout().0;
    let own = Arc::new(Ownership::new(cap / 8 + 1));
    let okc = Arc::new(AtomicU64::new(0));
    let frc = Arc::new(AtomicU64::new(0));
    let (p2, o2, ok2, fr2) = (pool.clone(), own.clone(), okc.clone(), frc.clone());
    let r = stress_threads(nthr, move |t| {
        let mut rng = Rng::new(seed * 1000 + t as u64);
        let mut held: Vec<NonNull<u8>> = vec![];
        for _ in 0..iters {
            if held.len() < hold && (held.is_empty() || rng.chance(1, 2)) {
                if let Ok(p) = p2.allocate(size) {
                    ok2.fetch_add(1, Ordering::Relaxed);
                    o2.take((p.as_ptr() as usize - base) / 8, t);
                    unsafe { std::ptr::write_bytes(p.as_ptr(), t as u8 + 1, size); }
                    held.push(p);
                }
            } else if !held.is_empty() {
                let p = held.swap_remove(rng.below(held.len() as u64) as usize);
                let s = unsafe { std::slice::from_raw_parts(p.as_ptr(), size) };
                if s.iter().any(|&b| b != t as u8 + 1) { o2.clash.store(true, Ordering::SeqCst); *o2.detail.lock().unwrap() = format!("block contents of thread {} overwritten while it owned the block", t); }
                o2.give((p.as_ptr() as usize - base) / 8, t);
                fr2.fetch_add(1, Ordering::Relaxed);
                give_back(&p2, p);
            }
        }
        for p in held { o2.give((p.as_ptr() as usize - base) / 8, t); fr2.fetch_add(1, Ordering::Relaxed); give_back(&p2, p); }
    });
    let mut f = vec![];
    if let Err(e) = r { f.push(e); }
    if own.clash.load(Ordering::SeqCst) { f.push(own.detail.lock().unwrap().clone()); }
    // quiescence: every block ever carved must be on the free list exactly once
    let (packed, count) = pool.verif_bin_state(size).unwrap_or((0, 0));
    let (_, bump) = pool.verif_layout();
    let carved: BTreeSet<u64> = (0..).map(|i| 8 + i * bs as u64).take_while(|&o| o + bs as u64 <= (bump as u64).min(cap as u64)).collect();
    let link = |x: u64| pool.verif_read_link(x as u32).map(|v| v as u64);
    match walk_free(packed & 0xFFFF_FFFF, 0, &link, &carved, &BTreeSet::new(), carved.len()) {
        Ok(l) => {
            if l.len() != carved.len() { f.push(format!("{} blocks were carved but {} are on the free list after all threads freed everything (blocks lost)", carved.len(), l.len())); }
            if l.len() as u64 != count as u64 { f.push(format!("bin.count = {} but the free list has {} blocks", count, l.len())); }
        }
        Err(e) => f.push(e),
    }
    if let Some(st) = pool.stats() {
        let fa = st.fast_allocs.load(Ordering::SeqCst);
        let fd = st.fast_deallocs.load(Ordering::SeqCst);
        if fd != frc.load(Ordering::SeqCst) { f.push(format!("fast_deallocs {} != frees {}", fd, frc.load(Ordering::SeqCst))); }
        if fa + carved.len() as u64 != okc.load(Ordering::SeqCst) { f.push(format!("fast_allocs {} + carved {} != successful allocations {}", fa, carved.len(), okc.load(Ordering::SeqCst))); }
    }
    f
}

enum Fl { L(LockFreePool), M(MutexBasedPool), T(ThreadLocalPool) }
impl Fl {
    fn alloc(&self, s: usize) -> Option<MemOffset> { match self { Fl::L(p) => p.alloc(s).ok(), Fl::M(p) => p.alloc(s).ok(), Fl::T(p) => p.alloc(s).ok() } }
    fn free(&self, o: MemOffset, s: usize) { let _ = match self { Fl::L(p) => p.free(o, s), Fl::M(p) => p.free(o, s), Fl::T(p) => p.free(o, s) }; }
}
unsafe impl Send for Fl {}
unsafe impl Sync for Fl {}

fn stress_fl(nthr: usize, iters: usize, seed: u64, size: usize, hold: usize, which: u32) -> Vec<String> {
    let bs = (size + 7) & !7;
    let cap = bs * (nthr * hold + 2);
    let cfg = FiveLevelPoolConfig { max_fast_block_size: 1024, alignment: 8, initial_capacity: cap, max_skip_levels: 4, arena_size: 4 * bs, fixed_capacity: None,
        enable_cache_alignment: false, cache_config: None, enable_numa_awareness: false, enable_huge_pages: false, huge_page_threshold: 1 << 30 };
    let pool = match which {
        0 => LockFreePool::new(cfg).map(Fl::L),
        1 => MutexBasedPool::new(cfg).map(Fl::M),
        _ => ThreadLocalPool::new(cfg).map(Fl::T),
    };
    let pool = Arc::new(match pool { Ok(p) => p, Err(e) => return vec![format!("pool creation failed: {}", e)] });
    let own = Arc::new(Ownership::new(cap / 8 + 64));
    let (p2, o2) = (pool.clone(), own.clone());
    let r = stress_threads(nthr, move |t| {
        let mut rng = Rng::new(seed * 1000 + t as u64);
        let mut held: Vec<MemOffset> = vec![];
        for _ in 0..iters {
            if held.len() < hold && (held.is_empty() || rng.chance(1, 2)) {
                if let Some(o) = p2.alloc(size) { o2.take(o.verif_raw() as usize / 8, t); held.push(o); }
            } else if !held.is_empty() {
                let o = held.swap_remove(rng.below(held.len() as u64) as usize);
                o2.give(o.verif_raw() as usize / 8, t);
                p2.free(o, size);
            }
        }
        for o in held { o2.give(o.verif_raw() as usize / 8, t); p2.free(o, size); }
    });
    let mut f = vec![];
    if let Err(e) = r { f.push(e); }
    if own.clash.load(Ordering::SeqCst) { f.push(own.detail.lock().unwrap().clone()); }
    let (state, used, frag) = match &*pool {
        Fl::L(p) => (p.verif_bin_state(size).map(|(h, c)| ((h & 0xFFFF_FFFF) as u32, c)), p.stats().used_memory, p.stats().fragment_size),
        Fl::M(p) => (p.verif_bin_state(size), p.stats().used_memory, p.stats().fragment_size),
        Fl::T(_) => (None, 0, 0),
    };
    if let Some((head, count)) = state {
        let carved: BTreeSet<u64> = (0..).map(|i| i * bs as u64).take_while(|&o| o + bs as u64 <= used as u64).collect();
        let link = |x: u64| match &*pool { Fl::L(p) => p.verif_read_link(x as u32), Fl::M(p) => p.verif_read_link(x as u32), _ => None }.map(|v| v as u64);
        match walk_free(head as u64, u32::MAX as u64, &link, &carved, &BTreeSet::new(), carved.len()) {
            Ok(l) => {
                if l.len() != carved.len() { f.push(format!("{} blocks were carved but {} are on the free list after all threads freed everything (blocks lost)", carved.len(), l.len())); }
                if l.len() as u64 != count as u64 { f.push(format!("count = {} but the free list has {} blocks", count, l.len())); }
                if frag != l.len() * bs { f.push(format!("fragment_size {} != {} free blocks x {}", frag, l.len(), bs)); }
            }
            Err(e) => f.push(e),
        }
    }
    f
}

fn stress_fc(nthr: usize, iters: usize, seed: u64, size: usize, hold: usize) -> Vec<String> {
    let maxb = 64usize;
    let total = nthr * hold + 2;
    let cfg = FixedCapacityPoolConfig { max_block_size: maxb, total_blocks: total, alignment: 8, enable_stats: true, eager_allocation: true, secure_clear: false };
    let pool = Arc::new(match FixedCapacityMemoryPool::new(cfg) { Ok(p) => p, Err(e) => return vec![format!("pool creation failed: {}", e)] });
    let base = pool.verif_base();
    let own = Arc::new(Ownership::new(total + 1));
    let size = size.clamp(17, maxb);
    let okc = Arc::new(AtomicU64::new(0));
    let (p2, o2, ok2) = (pool.clone(), own.clone(), okc.clone());
    let r = stress_threads(nthr, move |t| {
        let mut rng = Rng::new(seed * 1000 + t as u64);
        let mut held: Vec<FixedCapacityAllocation> = vec![];
        for _ in 0..iters {
            if held.len() < hold && (held.is_empty() || rng.chance(1, 2)) {
                if let Ok(mut a) = p2.allocate(size) {
                    ok2.fetch_add(1, Ordering::Relaxed);
                    o2.take((a.as_ptr() as usize - base) / maxb, t);
                    for b in a.as_mut_slice().iter_mut() { *b = t as u8 + 1; }
                    held.push(a);
                }
            } else if !held.is_empty() {
                let a = held.swap_remove(rng.below(held.len() as u64) as usize);
                if a.as_slice().iter().any(|&b| b != t as u8 + 1) { o2.clash.store(true, Ordering::SeqCst); *o2.detail.lock().unwrap() = format!("block contents of thread {} overwritten while it owned the block", t); }
                o2.give((a.as_ptr() as usize - base) / maxb, t);
                drop(a);
            }
        }
        for a in held { o2.give((a.as_ptr() as usize - base) / maxb, t); drop(a); }
    });
    let mut f = vec![];
    if let Err(e) = r { f.push(e); }
    if own.clash.load(Ordering::SeqCst) { f.push(own.detail.lock().unwrap().clone()); }
    let all: BTreeSet<u64> = (0..total as u64).map(|i| i * maxb as u64).collect();
    let link = |x: u64| pool.verif_read_link(x as u32).map(|v| v as u64);
    let mut nfree = 0usize;
    let mut seen = BTreeSet::new();
    for ci in 0..pool.verif_num_classes() {
        let (packed, count) = pool.verif_class_state(ci).unwrap_or((u32::MAX as u64, 0));
        match walk_free(packed & 0xFFFF_FFFF, u32::MAX as u64, &link, &all, &BTreeSet::new(), total) {
            Ok(l) => {
                if l.len() as u64 != count as u64 { f.push(format!("class {} count = {} but its free list has {} blocks", ci, count, l.len())); }
                for b in &l { if !seen.insert(*b) { f.push(format!("block {} is on two free lists", b)); } }
                nfree += l.len();
            }
            Err(e) => { f.push(format!("class {}: {}", ci, e)); return f; }
        }
    }
    if nfree != total { f.push(format!("{} of {} blocks are on the free lists after all threads freed everything (blocks lost)", nfree, total)); }
    if let Some(st) = pool.stats() {
        let (a, d, act) = (st.allocations.load(Ordering::SeqCst), st.deallocations.load(Ordering::SeqCst), st.active_blocks.load(Ordering::SeqCst));
        if a != okc.load(Ordering::SeqCst) || a != d || act != 0 { f.push(format!("stats allocations={} deallocations={} active={} after {} allocations all freed", a, d, act, okc.load(Ordering::SeqCst))); }
    }
    f
}

fn stress_sp(nthr: usize, iters: usize, seed: u64, hold: usize, cache: usize, global: bool) -> Vec<String> {
    let pool: Arc<SecureMemoryPool> = if global {
        zipora::memory::get_global_pool_for_size(512).clone()
    } else {
        let cfg = SecurePoolConfig::new(64, 100, 8).with_local_cache_size(cache).with_cache_alignment(false).with_cache_config(None)
            .with_numa_awareness(false).with_hot_cold_separation(false).with_huge_pages(false).with_simd_ops(false);
        match SecureMemoryPool::new(cfg) { Ok(p) => p, Err(e) => return vec![format!("pool creation failed: {}", e)] }
    };
    let before = pool.stats();
    let clash = Arc::new(AtomicBool::new(false));
    let detail = Arc::new(Mutex::new(String::new()));
    let table: Arc<Mutex<HashMap<usize, usize>>> = Arc::new(Mutex::new(HashMap::new()));
    let ever: Arc<Mutex<BTreeSet<usize>>> = Arc::new(Mutex::new(BTreeSet::new()));
    let calls = Arc::new(AtomicU64::new(0));
    let frees = Arc::new(AtomicU64::new(0));
    let cached = Arc::new(AtomicUsize::new(0));
    let (p2, c2, d2, t2, e2, ca2, fr2, cc2) = (pool.clone(), clash.clone(), detail.clone(), table.clone(), ever.clone(), calls.clone(), frees.clone(), cached.clone());
    // all threads are alive from the first allocation to the last cache inspection: the thread_local crate
    // hands the slot (and cache) of an exited thread to the next new thread, which would count a cache twice
    let barrier = Arc::new(std::sync::Barrier::new(nthr));
    let r = stress_threads(nthr, move |t| {
        barrier.wait();
        let mut rng = Rng::new(seed * 1000 + t as u64);
        let mut held: Vec<SecurePooledPtr> = vec![];
        let give = |p: SecurePooledPtr| {
            if p.as_slice().iter().any(|&b| b != t as u8 + 1) { c2.store(true, Ordering::SeqCst); *d2.lock().unwrap() = format!("chunk contents of thread {} overwritten while it owned the chunk", t); }
            let id = p.as_ptr() as usize;
            if t2.lock().unwrap().remove(&id) != Some(t) { c2.store(true, Ordering::SeqCst); *d2.lock().unwrap() = format!("chunk {:#x} freed by thread {} which the table does not list as its owner", id, t); }
            fr2.fetch_add(1, Ordering::Relaxed);
            drop(p);
        };
        for _ in 0..iters {
            if held.len() < hold && (held.is_empty() || rng.chance(1, 2)) {
                ca2.fetch_add(1, Ordering::Relaxed);
                if let Ok(mut p) = p2.allocate() {
                    let id = p.as_ptr() as usize;
                    if let Some(o) = t2.lock().unwrap().insert(id, t) { c2.store(true, Ordering::SeqCst); *d2.lock().unwrap() = format!("chunk {:#x} handed to thread {} while thread {} owns it", id, t, o); }
                    e2.lock().unwrap().insert(id);
                    for b in p.as_mut_slice().iter_mut() { *b = t as u8 + 1; }
                    held.push(p);
                }
            } else if !held.is_empty() {
                let p = held.swap_remove(rng.below(held.len() as u64) as usize);
                give(p);
            }
        }
        for p in held { give(p); }
        cc2.fetch_add(p2.verif_local_cache_len(), Ordering::SeqCst);
        barrier.wait();
    });
    let mut f = vec![];
    if let Err(e) = r { f.push(e); }
    if clash.load(Ordering::SeqCst) { f.push(detail.lock().unwrap().clone()); }
    let st = pool.stats();
    let (dc, dd) = (st.alloc_count - before.alloc_count, st.dealloc_count - before.dealloc_count);
    if dc != calls.load(Ordering::SeqCst) || dd != frees.load(Ordering::SeqCst) {
        f.push(format!("alloc_count grew by {} for {} allocate calls, dealloc_count by {} for {} frees", dc, calls.load(Ordering::SeqCst), dd, frees.load(Ordering::SeqCst)));
    }
    if (st.pool_hits - before.pool_hits) + (st.pool_misses - before.pool_misses) != dc { f.push("pool_hits + pool_misses != alloc_count".into()); }
    if !global {
        if pool.verif_active_len() != 0 { f.push(format!("active-allocation table has {} entries after every chunk was freed", pool.verif_active_len())); }
        // every chunk ever created must be in a thread cache or on the shared stack (walk is safe: no thread is running)
        let mut n_stack = 0usize;
        let mut h = pool.verif_stack_head();
        let mut seen = BTreeSet::new();
        let created = ever.lock().unwrap().clone();
        while h != 0 {
            if !seen.insert(h) { f.push("shared stack has a cycle".into()); break; }
            let (nx, ch) = unsafe { pool.verif_stack_node(h) };
            if !created.contains(&ch) { f.push(format!("shared stack holds chunk {:#x} which the pool never handed out (corrupt node)", ch)); break; }
            n_stack += 1;
            h = nx;
            if n_stack > created.len() + 1 { f.push("shared stack longer than the number of chunks".into()); break; }
        }
        let in_caches = cached.load(Ordering::SeqCst);
        if f.is_empty() && n_stack + in_caches != created.len() {
            f.push(format!("{} chunks were created, all freed, but only {} are in thread caches and {} on the shared stack: {} lost",
                created.len(), in_caches, n_stack, created.len() as i64 - (n_stack + in_caches) as i64));
        }
    }
    f
}

fn stress_mp(nthr: usize, iters: usize, seed: u64, hold: usize) -> Vec<String> {
    let pool = Arc::new(match MemoryPool::new(PoolConfig::new(64, 8, 8)) { Ok(p) => p, Err(e) => return vec![format!("pool creation failed: {}", e)] });
    let clash = Arc::new(AtomicBool::new(false));
    let detail = Arc::new(Mutex::new(String::new()));
    let table: Arc<Mutex<HashMap<usize, usize>>> = Arc::new(Mutex::new(HashMap::new()));
    let calls = Arc::new(AtomicU64::new(0));
    let (p2, c2, d2, t2, ca2) = (pool.clone(), clash.clone(), detail.clone(), table.clone(), calls.clone());
    let r = stress_threads(nthr, move |t| {
        let mut rng = Rng::new(seed * 1000 + t as u64);
        let mut held: Vec<NonNull<u8>> = vec![];
        let give = |p: NonNull<u8>| {
            let s = unsafe { std::slice::from_raw_parts(p.as_ptr(), 64) };
            if s.iter().any(|&b| b != t as u8 + 1) { c2.store(true, Ordering::SeqCst); *d2.lock().unwrap() = format!("chunk contents of thread {} overwritten while it owned the chunk", t); }
            t2.lock().unwrap().remove(&(p.as_ptr() as usize));
            let _ = p2.deallocate(p);
        };
        for _ in 0..iters {
            if held.len() < hold && (held.is_empty() || rng.chance(1, 2)) {
                if let Ok(p) = p2.allocate() {
                    ca2.fetch_add(1, Ordering::Relaxed);
                    if let Some(o) = t2.lock().unwrap().insert(p.as_ptr() as usize, t) { c2.store(true, Ordering::SeqCst); *d2.lock().unwrap() = format!("chunk handed to thread {} while thread {} owns it", t, o); }
                    unsafe { std::ptr::write_bytes(p.as_ptr(), t as u8 + 1, 64); }
                    held.push(p);
                }
            } else if !held.is_empty() {
                let p = held.swap_remove(rng.below(held.len() as u64) as usize);
                give(p);
            }
        }
        for p in held { give(p); }
    });
    let mut f = vec![];
    if let Err(e) = r { f.push(e); }
    if clash.load(Ordering::SeqCst) { f.push(detail.lock().unwrap().clone()); }
    let st = pool.stats();
    let n = calls.load(Ordering::SeqCst);
    if st.alloc_count != n || st.dealloc_count != n { f.push(format!("alloc_count={} dealloc_count={} after {} allocations all freed", st.alloc_count, st.dealloc_count, n)); }
    if st.pool_hits + st.pool_misses != st.alloc_count { f.push(format!("pool_hits {} + pool_misses {} != alloc_count {}", st.pool_hits, st.pool_misses, st.alloc_count)); }
    if st.chunks > 8 { f.push(format!("{} chunks pooled, max_chunks is 8", st.chunks)); }
    if st.allocated != st.chunks as u64 * 64 {
        f.push(format!("stats.allocated = {} bytes but {} chunks of 64 bytes are alive (all pooled) at quiescence", st.allocated, st.chunks));
    }
    f
}

/// The process-wide size-class pools of pool.rs, reached through PooledBuffer.
fn stress_gp(nthr: usize, iters: usize, seed: u64, hold: usize) -> Vec<String> {
    use zipora::memory::PooledBuffer;
    let before = zipora::memory::pool::get_global_pool_stats();
    let clash = Arc::new(AtomicBool::new(false));
    let detail = Arc::new(Mutex::new(String::new()));
    let table: Arc<Mutex<HashMap<usize, usize>>> = Arc::new(Mutex::new(HashMap::new()));
    let calls = Arc::new(AtomicU64::new(0));
    let (c2, d2, t2, ca2) = (clash.clone(), detail.clone(), table.clone(), calls.clone());
    let iters = iters / 4; // chunks are up to 1 MiB
    let r = stress_threads(nthr, move |t| {
        let mut rng = Rng::new(seed * 1000 + t as u64);
        let mut held: Vec<PooledBuffer> = vec![];
        let give = |b: PooledBuffer| {
            if b.as_slice().iter().any(|&x| x != t as u8 + 1) { c2.store(true, Ordering::SeqCst); *d2.lock().unwrap() = format!("buffer contents of thread {} overwritten while it owned the buffer", t); }
            t2.lock().unwrap().remove(&(b.as_slice().as_ptr() as usize));
            drop(b);
        };
        for _ in 0..iters {
            if held.len() < hold && (held.is_empty() || rng.chance(1, 2)) {
                let size = *rng.pick(&[64usize, 1024, 1025, 4000, 65536, 65537]);
                if let Ok(mut b) = PooledBuffer::new(size) {
                    ca2.fetch_add(1, Ordering::Relaxed);
                    if let Some(o) = t2.lock().unwrap().insert(b.as_slice().as_ptr() as usize, t) { c2.store(true, Ordering::SeqCst); *d2.lock().unwrap() = format!("chunk handed to thread {} while thread {} owns it", t, o); }
                    for x in b.as_mut_slice().iter_mut() { *x = t as u8 + 1; }
                    held.push(b);
                }
            } else if !held.is_empty() {
                let b = held.swap_remove(rng.below(held.len() as u64) as usize);
                give(b);
            }
        }
        for b in held { give(b); }
    });
    let mut f = vec![];
    if let Err(e) = r { f.push(e); }
    if clash.load(Ordering::SeqCst) { f.push(detail.lock().unwrap().clone()); }
    let st = zipora::memory::pool::get_global_pool_stats();
    let n = calls.load(Ordering::SeqCst);
    if st.alloc_count - before.alloc_count != n || st.dealloc_count - before.dealloc_count != n {
        f.push(format!("alloc_count grew by {} and dealloc_count by {} after {} allocations all freed", st.alloc_count - before.alloc_count, st.dealloc_count - before.dealloc_count, n));
    }
    if st.pool_hits + st.pool_misses != st.alloc_count { f.push(format!("pool_hits {} + pool_misses {} != alloc_count {}", st.pool_hits, st.pool_misses, st.alloc_count)); }
    if st.allocated != st.available {
        f.push(format!("stats.allocated = {} bytes but the pooled chunks amount to {} bytes and nothing is live at quiescence", st.allocated, st.available));
    }
    f
}

// ------------------------------------------------------------------------------------------
pub fn run(args: &Args) {
    if std::env::var("ZV_C08_DEBUG").is_ok() { let _ = std::panic::take_hook(); }
    let mut cx = Ctx {
        sum: Summary::new("C08", "controlled schedules (real threads parked at every schedule point of the zipora_verif hooks): corpus witnesses, every interleaving of two threads x one operation on a pre-filled free list, every interleaving of short pop/push pairs, stalled-operation windows (one thread stops after k steps of an operation while another runs a whole program that drains and refills the list), LockFreeMemoryPool with zero_on_free through deallocate_with_zero (three and more blocks of a class freed and reallocated), SecureMemoryPool with local_cache_size < batch_size - 1 spilling to the shared stack and refilling another thread, MemoryPool with a thread parked under the queue lock, the oracle-breadth families of c08_wide.rs (bulk allocation under exhaustion and stalled part-way, compare-exchange retry storms with max_cas_retries 1-3 / back-off / 70 lost rounds, RAII guards, presets of every pool, size-class boundaries and the large-block / huge paths, five-level pools through AdaptiveFiveLevelPool::with_level + FiveLevelPoolHandle, fixed-capacity pools of other geometries / lazy arena / no statistics / utilization gauge, SecureMemoryPool hinted and bulk allocation, clear() racing with pops and pushes, observers in mid-history, cache size 0, 64 KiB / 1 MiB presets, builder options, MemoryPool::clear() between parked operations and presets), then random programs of 2-3 threads (alloc / free k-th held / owner overwrites the link word or header / foreign malloc; per-thread request sizes for the fixed-capacity pool; in every other case also bulk / hinted allocation, clear(), observers and a drawn configuration variant) under burst-biased random schedules, block size and arena size varied so that exhaustion and reuse occur; free-running stress with an ownership table for every pool and for every public way into it (bulk, guards, handles, presets as they are, clear(), global pools of all classes); a case is non-trivial when at least two threads execute operations; distinct = distinct (cell, programs, schedule)"),
        shards: CoqShards::new(HEADER, 250),
        coq_used: HashMap::new(),
        out: args.out.clone(), child_seq: 0, thorough: args.thorough, wide: false,
    };
    if let Some(f) = &args.replay {
        let txt = std::fs::read_to_string(f).expect("replay file");
        let v: Value = serde_json::from_str(&txt).expect("replay json");
        let c = if v.get("case").is_some() { v["case"].clone() } else { v };
        run_case(&mut cx, &c, true);
        let sh = cx.shards.write(&args.out);
        cx.sum.write(&args.out, sh);
        return;
    }
    let mut rng = Rng::new(args.seed);
    // 1. corpus
    let corpus_dir = std::env::current_dir().map(|d| d.join("corpus/C08")).unwrap_or_else(|_| "/verif/corpus/C08".into());
    if let Ok(rd) = std::fs::read_dir(&corpus_dir) {
        let mut files: Vec<_> = rd.filter_map(|e| e.ok()).map(|e| e.path()).filter(|p| p.extension().map(|e| e == "json").unwrap_or(false)).collect();
        files.sort();
        for p in files {
            if let Ok(txt) = std::fs::read_to_string(&p) {
                if let Ok(v) = serde_json::from_str::<Value>(&txt) {
                    let c = if v.get("case").is_some() { v["case"].clone() } else { v };
                    run_case(&mut cx, &c, true);
                    cx.sum.dist("corpus_cases");
                }
            }
        }
    }
    // 2. enumerated: thread 0 fills the free list with 2 blocks (alone), then every interleaving of
    //    T0: alloc (pop, 4 steps + start) against T1: alloc, free, alloc
    {
        let setup0 = vec![Op::Alloc, Op::Alloc, Op::Alloc, Op::Free(0), Op::Free(0)];
        // steps thread 0 needs alone for the setup: 3 x (start + load + bump) + 2 x (start+load+write+cas+count)
        let pre: Vec<usize> = vec![0; 3 * 3 + 2 * 5];
        let mut p0 = setup0.clone();
        p0.push(Op::Alloc);
        let p1 = vec![Op::Alloc, Op::Alloc, Op::Free(0), Op::Alloc];
        let mut all = vec![];
        interleavings(5, if args.thorough { 14 } else { 9 }, &mut vec![], &mut all);
        let stride = if args.thorough { 1 } else { (all.len() / 500).max(1) };
        for (i, il) in all.iter().enumerate() {
            if i % stride != 0 { continue; }
            let mut sched = pre.clone();
            sched.extend(il);
            // lockfree_pool.rs carves with load + compare-exchange: one more step per fresh block
            let mut sched_lf = vec![0usize; 3];
            sched_lf.extend(&sched);
            run_lf(&mut cx, 64, 6, false, &[p0.clone(), p1.clone()], &sched_lf, false);
            run_fl(&mut cx, 64, 6, &[p0.clone(), p1.clone()], &sched, false);
            if i % (stride * 3) == 0 { run_fc(&mut cx, if i % 2 == 0 { &[40] } else { &[40, 17] }, false, 4, &[vec![Op::Alloc, Op::Alloc, Op::Free(0), Op::Free(0), Op::Alloc], p1.clone()], &sched[10..], false); }
        }
        cx.sum.dist_max("enumerated_interleavings", (all.len() / stride) as u64);
    }
    // 2b. stalled-operation windows: thread 0 prepares a free list, starts an operation and stops after k steps;
    //     thread 1 then runs a whole program (drain and refill of the list, random programs); thread 0 finishes.
    //     This is where a stale (head, link) pair meets a list that was emptied and rebuilt.
    {
        let nwin = if args.thorough { 60 } else { 10 };
        for w in 0..nwin {
            let p0 = vec![Op::Alloc, Op::Alloc, Op::Free(1), Op::Free(0), if w % 3 == 2 { Op::Free(0) } else { Op::Alloc }, Op::Alloc];
            let p1: Vec<Op> = match w % 5 {
                0 => vec![Op::Alloc, Op::Alloc, Op::Alloc, Op::Free(2), Op::Free(0)],
                1 => vec![Op::Alloc, Op::Alloc, Op::Free(1), Op::Alloc, Op::Free(0), Op::Free(0)],
                _ => gen_prog(&mut rng, 6, false, 6),
            };
            let nsetup = if w % 3 == 2 { 3 } else { 4 };
            for k in 1..=4usize {
                let mut sched = vec![WHOLE_OP; nsetup];
                sched.extend(std::iter::repeat(0).take(k));
                sched.extend(std::iter::repeat(WHOLE_OP + 1).take(p1.len()));
                let progs = [p0.clone(), p1.clone()];
                run_lf(&mut cx, 64, 6, false, &progs, &sched, false);
                run_fl(&mut cx, 64, 6, &progs, &sched, false);
                run_fc(&mut cx, if w % 2 == 0 { &[40] } else { &[40, 40, 17] }, false, 6, &progs, &sched, false);
                if w % 2 == 1 { run_lf(&mut cx, 24, 6, true, &progs, &sched, false); }
                cx.sum.dist("stalled_operation_windows");
            }
        }
    }
    // 2c. LockFreeMemoryPool with zero_on_free + SIMD optimisation, frees through deallocate_with_zero: three and more
    //     blocks of one class are freed and allocated again (the scrub must not reach a block that is already listed)
    {
        let refill = vec![Op::Alloc, Op::Alloc, Op::Alloc, Op::Free(0), Op::Free(0), Op::Free(0), Op::Alloc, Op::Alloc, Op::Alloc, Op::Free(1), Op::Alloc];
        for &size in &[1usize, 3, 24, 64, 200] {
            run_lf(&mut cx, size, 6, true, &[refill.clone()], &[], false);
            let p1 = vec![Op::Alloc, Op::Alloc, Op::Free(0), Op::Free(0), Op::Alloc, Op::Alloc, Op::Free(1)];
            let reps = if args.thorough { 12 } else { 3 };
            for _ in 0..reps {
                let sched = gen_sched(&mut rng, 2, 90);
                run_lf(&mut cx, size, 8, true, &[refill.clone(), p1.clone()], &sched, false);
            }
        }
    }
    // 2d. SecureMemoryPool with local_cache_size < batch_size - 1 (both presets): one thread fills its cache and
    //     spills the surplus to the shared stack, another thread refills from there; also the stalled-pop window
    {
        let filler = vec![Op::Alloc, Op::Alloc, Op::Alloc, Op::Alloc, Op::Alloc, Op::Alloc, Op::Free(0), Op::Free(0), Op::Free(0), Op::Free(0), Op::Free(0), Op::Free(0), Op::Alloc];
        let taker = vec![Op::Alloc, Op::Alloc, Op::Alloc, Op::Free(0), Op::Free(1), Op::Alloc, Op::Free(0)];
        for &(cache, preset) in &[(1usize, 0u64), (4, 1), (2, 1), (4, 0)] {
            let mut sched: Vec<usize> = vec![WHOLE_OP; 12];
            sched.extend(std::iter::repeat(WHOLE_OP + 1).take(taker.len()));
            run_sp(&mut cx, cache, preset, &[filler.clone(), taker.clone()], &sched, false);
            let reps = if args.thorough { 10 } else { 3 };
            for _ in 0..reps {
                let sched = gen_sched(&mut rng, 2, 120);
                run_sp(&mut cx, cache, preset, &[filler.clone(), taker.clone()], &sched, false);
            }
            for k in 1..=3usize {
                let p0 = vec![Op::Alloc, Op::Alloc, Op::Alloc, Op::Free(0), Op::Free(0), Op::Free(0), Op::Alloc, Op::Alloc, Op::Alloc];
                let mut sched: Vec<usize> = vec![WHOLE_OP; 6 + cache.min(2)];
                sched.extend(std::iter::repeat(0).take(k));
                sched.extend(std::iter::repeat(WHOLE_OP + 1).take(3));
                run_sp(&mut cx, cache, preset, &[p0, vec![Op::Alloc, Op::Free(0), Op::Alloc]], &sched, false);
            }
        }
    }
    // 2e. MemoryPool: a thread stalled while it holds the queue lock (others find it busy: fresh chunk / direct
    //     release), a full pool, and the byte accounting of both
    {
        let p0 = vec![Op::Alloc, Op::Alloc, Op::Free(0), Op::Free(0), Op::Alloc, Op::Free(0)];
        let p1 = vec![Op::Alloc, Op::Free(0), Op::Alloc, Op::Alloc, Op::Free(1), Op::Free(0)];
        for &maxc in &[0usize, 1, 2] {
            for k in 0..=3usize {
                for pre in [2usize, 3, 4] {
                    let mut sched: Vec<usize> = vec![WHOLE_OP; pre];
                    sched.extend(std::iter::repeat(0).take(k));
                    sched.extend(std::iter::repeat(WHOLE_OP + 1).take(p1.len()));
                    run_mp(&mut cx, 64, maxc, &[p0.clone(), p1.clone()], &sched, false);
                }
            }
        }
    }
    // 2f. oracle breadth: the secondary entry points, presets, options and thresholds (c08_wide.rs)
    cx.wide = true;
    wide::families(&mut cx, &mut rng, args.thorough);
    cx.wide = false;
    // 3. random programs and schedules; every other case mixes the operations of the secondary entry points in
    //    (bulk allocation, hinted allocation, clear(), observers) and draws a configuration variant
    let nrand = if args.thorough { 6000 } else { 800 };
    for k in 0..nrand {
        let n = if rng.chance(1, 3) { 3 } else { 2 };
        let slots = *rng.pick(&[2usize, 3, 4, 6, 8]);
        let size = *rng.pick(&[1usize, 8, 9, 64, 136, 1000]);
        let plen = rng.range(2, 9) as usize;
        let progs: Vec<Vec<Op>> = (0..n).map(|_| gen_prog(&mut rng, plen, false, slots)).collect();
        let sched = gen_sched(&mut rng, n, plen * 6 * n);
        let widek = k % 10 >= 5;
        cx.wide = widek;
        match k % 5 {
            4 => {
                let progs: Vec<Vec<Op>> = (0..n).map(|_| if widek { wide::gen_prog_wide(&mut rng, plen + 2, slots, false, true, false) } else { gen_prog(&mut rng, plen + 2, false, slots) }).collect();
                let v = if widek && rng.chance(1, 4) { json!({"preset": rng.range(1, 3)}) } else if widek && rng.chance(1, 4) { json!({"align": 64}) } else { Value::Null };
                run_mp_v(&mut cx, *rng.pick(&[8usize, 64, 100]), *rng.pick(&[0usize, 1, 2, 3]), &v, &progs, &sched, false)
            }
            0 if widek => {
                let progs: Vec<Vec<Op>> = (0..n).map(|_| wide::gen_prog_wide(&mut rng, plen, slots, true, false, false)).collect();
                let size = *rng.pick(&[1usize, 64, 129, 136, 1000, 4097, 8192]);
                let v = match rng.below(6) { 0 => json!({"raii": true}), 1 => json!({"preset": rng.range(1, 3)}), 2 => json!({"sizes": [size, size.saturating_sub(3).max(1), size]}), 3 => json!({"zero": true}), 4 => json!({"retries": rng.range(1, 3)}), _ => json!({}) };
                run_lf_v(&mut cx, size, slots, &v, &progs, &sched, false)
            }
            0 => run_lf(&mut cx, size, slots, k % 12 == 8, &progs, &sched, false),
            1 if widek => {
                let progs: Vec<Vec<Op>> = (0..n).map(|_| wide::gen_prog_wide(&mut rng, plen, slots, false, false, false)).collect();
                let v = match rng.below(6) { 0 => json!({"handle": true}), 1 => json!({"preset": rng.range(1, 4)}), 2 => json!({"align": *rng.pick(&[4u64, 16, 64])}), 3 => json!({"maxfast": 64, "handle": true}), 4 => json!({"align": 16, "handle": true}), _ => json!({}) };
                run_fl_v(&mut cx, size.min(1000), slots, &v, &progs, &sched, false)
            }
            1 => run_fl(&mut cx, size.min(1000), slots, &progs, &sched, false),
            2 => {
                let progs: Vec<Vec<Op>> = if widek { (0..n).map(|_| wide::gen_prog_wide(&mut rng, plen, slots, false, false, false)).collect() } else { progs.clone() };
                let sizes: Vec<usize> = match rng.below(3) { 0 => vec![size.min(64)], 1 => vec![size.min(64), *rng.pick(&[1usize, 9, 24, 64])], _ => vec![*rng.pick(&[8usize, 16]), *rng.pick(&[17usize, 33]), *rng.pick(&[50usize, 64])] };
                let v = if !widek { Value::Null } else { match rng.below(6) { 0 => json!({"maxb": 128}), 1 => json!({"lazy": true}), 2 => json!({"align": 16}), 3 => json!({"util": true}), 4 => json!({"nostats": true}), _ => json!({}) } };
                let sizes = if v["maxb"].is_u64() { vec![sizes[0], *rng.pick(&[100usize, 128, 65])] } else { sizes };
                run_fc_v(&mut cx, &sizes, rng.chance(1, 5), slots, &v, &progs, &sched, false)
            }
            _ if widek => {
                let progs: Vec<Vec<Op>> = (0..n).map(|_| wide::gen_prog_wide(&mut rng, plen + 3, slots, true, true, true)).collect();
                let v = json!({"preset": *rng.pick(&[0u64, 0, 1, 1, 2, 3]), "opts": if rng.chance(1, 2) { 0 } else { rng.below(2048) }});
                run_sp_v(&mut cx, *rng.pick(&[0usize, 1, 1, 2, 4]), &v, &progs, &sched, false);
            }
            _ => {
                let progs: Vec<Vec<Op>> = (0..n).map(|_| gen_prog(&mut rng, plen + 3, true, slots)).collect();
                run_sp(&mut cx, *rng.pick(&[1usize, 1, 2, 4]), (k / 4) % 3 / 2, &progs, &sched, false);
            }
        }
        cx.wide = false;
        if k < 3 { cx.sum.sample(json!({"programs": progs_json(&progs), "schedule_prefix": sched.iter().take(24).collect::<Vec<_>>()})); }
    }
    // 4. stress
    let iters = if args.thorough { 200_000 } else { 20_000 };
    let cells = ["stress/LockFreeMemoryPool", "stress/five_level::LockFreePool", "stress/five_level::MutexBasedPool", "stress/five_level::ThreadLocalPool",
                 "stress/FixedCapacityMemoryPool", "stress/SecureMemoryPool", "stress/global_secure_pools", "stress/MemoryPool", "stress/global_memory_pools"];
    for (i, cell) in cells.iter().enumerate() {
        let reps = if args.thorough { 6 } else { 2 };
        for rep in 0..reps {
            let c = json!({"cell": cell, "threads": if rep % 2 == 0 { 4 } else { 3 }, "iters": iters, "seed": args.seed * 100 + i as u64 * 10 + rep as u64,
                           "size": if rep % 2 == 0 { 64 } else { 24 }, "hold": if rep % 2 == 0 { 2 } else { 5 }, "cache": if rep % 2 == 0 { 1 } else { 3 },
                           "zero": rep % 2 == 1});
            stress_case(&mut cx, &c);
        }
    }
    // 4b. the free-running cells of the secondary entry points, one run per variant (presets as they are)
    for (i, cell) in wide::WIDE_STRESS_CELLS.iter().enumerate() {
        let nvar = match i { 0 => 4, 1 => 6, 2 => 7, 3 => 6, _ => 5 };
        let reps = if args.thorough { 3 } else { 1 };
        for variant in 0..nvar {
            for rep in 0..reps {
                let c = json!({"cell": cell, "threads": if (variant + rep) % 2 == 0 { 4 } else { 3 }, "iters": iters / 2, "seed": args.seed * 100 + i as u64 * 10 + rep as u64 + variant as u64,
                               "hold": if (variant + rep) % 2 == 0 { 3 } else { 5 }, "variant": variant});
                stress_case(&mut cx, &c);
            }
        }
    }
    cx.sum.dist_max("coq_cases", cx.shards.len() as u64);
    let sh = cx.shards.write(&args.out);
    cx.sum.write(&args.out, sh);
}
