//! C13, part 2: SIMD batch varint, DataInput/DataOutput back ends, endian conversion.
//! Oracle only decides the property: value round trip, exact bytes consumed, concatenation.
use super::Ctx;
use crate::util::*;
use serde_json::{json, Value};
use std::io::{Cursor, Read, Write};
use zipora::io::data_input::{MmapDataInput, ReaderDataInput, SliceDataInput};
use zipora::io::data_output::{FileDataOutput, VecDataOutput, WriterDataOutput};
use zipora::io::simd_encoding::varint::{self as sv, SimdVarintCodec};
use zipora::io::var_int::VarInt;
use zipora::io::{
    DataInput, DataOutput, MemoryMappedInput, MemoryMappedOutput, RangeReader, StreamBufferConfig,
    StreamBufferedReader, StreamBufferedWriter, ZeroCopyReader, ZeroCopyWriter,
};

pub fn u8s(v: &Value) -> Vec<u8> {
    v.as_array().map(|a| a.iter().map(|x| x.as_u64().unwrap_or(0) as u8).collect()).unwrap_or_default()
}
pub fn strs(v: &Value) -> Vec<String> {
    v.as_array().map(|a| a.iter().map(|x| x.as_str().unwrap_or("").to_string()).collect()).unwrap_or_default()
}
pub fn u64s(v: &Value) -> Vec<u64> {
    v.as_array().map(|a| a.iter().map(|x| x.as_str().and_then(|s| s.parse::<u64>().ok()).or_else(|| x.as_u64()).unwrap_or(0)).collect()).unwrap_or_default()
}
pub fn ds(xs: &[u64]) -> Vec<String> { xs.iter().map(|x| x.to_string()).collect() }

/// A reader that hands out at most `k` bytes per call (short reads are legal for io::Read).
pub struct Chunky<R> { pub inner: R, pub k: usize }
impl<R: Read> Read for Chunky<R> {
    fn read(&mut self, buf: &mut [u8]) -> std::io::Result<usize> {
        let n = buf.len().min(self.k.max(1));
        self.inner.read(&mut buf[..n])
    }
}
/// A writer that accepts at most `k` bytes per call.
pub struct ChunkyW { pub inner: Vec<u8>, pub k: usize }
thread_local! {
    /// how many bytes the short-write destination of the current writer case holds (read after every operation for the model tie)
    pub static CHUNKY_LEN: std::cell::Cell<usize> = std::cell::Cell::new(0);
}
impl Write for ChunkyW {
    fn write(&mut self, buf: &[u8]) -> std::io::Result<usize> {
        let n = buf.len().min(self.k.max(1));
        self.inner.extend_from_slice(&buf[..n]);
        CHUNKY_LEN.with(|c| c.set(self.inner.len()));
        Ok(n)
    }
    fn flush(&mut self) -> std::io::Result<()> { Ok(()) }
}

pub fn sb_cfg(cap: usize, max: usize, readahead: bool, mult: usize, bulk: usize, growth: f64, pool: bool) -> StreamBufferConfig {
    StreamBufferConfig {
        initial_capacity: cap, max_capacity: max, growth_factor: growth, page_alignment: 1,
        use_secure_pool: pool, bulk_read_threshold: bulk, enable_readahead: readahead, readahead_multiplier: mult,
    }
}

// ------------------------------------------------------------------------------------------
// SIMD batch varint: byte-identical to the scalar codec; decoders invert encoders
// ------------------------------------------------------------------------------------------
pub fn simd_single(cx: &mut Ctx, v: u64, tail: &[u8], force: bool) {
    let cell = "simd_varint/single";
    cx.sum.eval(cell, &format!("sv1 {} {:?}", v, tail), v >= 128);
    let cj = json!({"cell": cell, "ints": [v.to_string()], "tail": tail});
    if !cx.gate(&cj) { return; }
    let r = guarded(|| {
        let c = SimdVarintCodec::new();
        let e1 = c.encode_single(v).ok();
        let e2 = sv::encode_varint(v).ok();
        let scalar = VarInt::encode(v);
        let mut buf = scalar.clone();
        buf.extend_from_slice(tail);
        let d1 = c.decode_single(&buf).ok();
        let d2 = sv::decode_varint(&buf).ok();
        (e1, e2, scalar, buf, d1, d2)
    });
    match r {
        Err(p) => cx.sum.fail(cell, None, cj, &format!("panicked: {}", p)),
        Ok((e1, e2, scalar, buf, d1, d2)) => {
            cx.coq2(8, 0, &[v as i128], &[], &e1.as_ref().map(|b| b.iter().map(|&x| x as i128).collect()), force);
            cx.coq2(9, 0, &[], &buf, &d1.map(|(x, n)| vec![x as i128, n as i128]), force);
            if e1.as_deref() != Some(&scalar[..]) || e2.as_deref() != Some(&scalar[..]) {
                cx.sum.fail(cell, None, cj.clone(), &format!("encode_single {:?} / encode_varint {:?} differ from scalar {:?}", e1, e2, scalar));
            }
            if d1 != Some((v, scalar.len())) || d2 != Some((v, scalar.len())) {
                cx.sum.fail(cell, None, cj, &format!("decode_single = {:?}, decode_varint = {:?}, want ({}, {})", d1, d2, v, scalar.len()));
            }
        }
    }
}

pub fn simd_batch(cx: &mut Ctx, xs: &[u64], tail: &[u8], force: bool) {
    let cell = "simd_varint/batch";
    cx.sum.eval(cell, &format!("svb {:?} {:?}", xs, tail), xs.len() >= 4);
    cx.sum.dist(&format!("simd_batch_len_ge4={}", xs.len() >= 4));
    let cj = json!({"cell": cell, "ints": ds(xs), "tail": tail});
    if !cx.gate(&cj) { return; }
    let r = guarded(|| {
        // a fresh codec, the Default one, a clone of the global one: all the same codec
        let c = match xs.len() % 3 { 0 => SimdVarintCodec::new(), 1 => SimdVarintCodec::default(), _ => sv::get_global_varint_codec().clone() };
        let e1 = c.encode_batch(xs).ok();
        let e2 = sv::encode_varint_batch(xs).ok();
        let scalar: Vec<u8> = xs.iter().flat_map(|&x| VarInt::encode(x)).collect();
        let mut buf = scalar.clone();
        buf.extend_from_slice(tail);
        // decoders on the scalar stream followed by unrelated bytes
        let d1 = if xs.is_empty() { c.decode_batch(&buf, 0).ok() } else { c.decode_batch(&buf, xs.len()).ok() };
        let d2 = sv::decode_varint_batch(&buf, xs.len()).ok();
        // a prefix of the batch must decode too (count < number present)
        let half = xs.len() / 2;
        let d3 = c.decode_batch(&buf, half).ok();
        // scalar decoder on the accelerated encoder's output
        let d4 = e1.as_ref().and_then(|e| VarInt::decode_multiple(e).ok());
        (format!("{:?}", c.tier()), e1, e2, scalar, buf, d1, d2, d3, d4)
    });
    match r {
        Err(p) => cx.sum.fail(cell, None, cj, &format!("panicked: {}", p)),
        Ok((tier, e1, e2, scalar, buf, d1, d2, d3, d4)) => {
            cx.sum.dist(&format!("simd_tier={}", tier));
            let ints: Vec<i128> = xs.iter().map(|&x| x as i128).collect();
            cx.coq2(14, 0, &ints, &[], &e1.as_ref().map(|b| b.iter().map(|&x| x as i128).collect()), force);
            cx.coq2(15, xs.len(), &[], &buf, &d1.as_ref().map(|v| v.iter().map(|&x| x as i128).collect()), force);
            if e1.as_deref() != Some(&scalar[..]) || e2.as_deref() != Some(&scalar[..]) {
                cx.sum.fail(cell, None, cj.clone(), &format!("encode_batch {:?} differs from scalar {:?}", e1, scalar));
            }
            if d1.as_deref() != Some(xs) || d2.as_deref() != Some(xs) {
                cx.sum.fail(cell, None, cj.clone(), &format!("decode_batch(count={}) = {:?} / {:?}", xs.len(), d1, d2));
            }
            if d3.as_deref() != Some(&xs[..xs.len() / 2]) {
                cx.sum.fail(cell, None, cj.clone(), &format!("decode_batch(count={}) = {:?}", xs.len() / 2, d3));
            }
            if d4.as_deref() != Some(xs) {
                cx.sum.fail(cell, None, cj, &format!("VarInt::decode_multiple(encode_batch) = {:?}", d4));
            }
        }
    }
}

// ------------------------------------------------------------------------------------------
// DataInput / DataOutput: a script of typed items through every back end
// ------------------------------------------------------------------------------------------
#[derive(Clone, Debug, PartialEq)]
pub enum Item { U8(u8), U16(u16), U32(u32), U64(u64), Var(u64), Bytes(Vec<u8>), Str(String), Raw(Vec<u8>), Skip(Vec<u8>), RawStr(String),
    /// big content named by (what: 0 bytes, 1 string, 2 raw, 3 skip, 4 raw string; n; seed) instead of spelled out
    Gen(u8, usize, u64) }

impl Item {
    pub fn to_json(&self) -> Value {
        match self {
            Item::U8(v) => json!(["u8", v.to_string()]),
            Item::U16(v) => json!(["u16", v.to_string()]),
            Item::U32(v) => json!(["u32", v.to_string()]),
            Item::U64(v) => json!(["u64", v.to_string()]),
            Item::Var(v) => json!(["var", v.to_string()]),
            Item::Bytes(b) => json!(["bytes", b]),
            Item::Str(s) => json!(["str", s]),
            Item::Raw(b) => json!(["raw", b]),
            Item::Skip(b) => json!(["skip", b]),
            Item::RawStr(s) => json!(["rawstr", s]),
            Item::Gen(w, n, seed) => json!(["gen", [w, n, seed]]),
        }
    }
    /// The concrete item a generated one stands for.
    pub fn expand(&self) -> Item {
        match self {
            Item::Gen(w, n, seed) => {
                let b: Vec<u8> = { let k = (*seed as u32).wrapping_mul(40503) | 1; (0..*n).map(|x| ((x as u32).wrapping_mul(2654435761).wrapping_add(k) >> 13) as u8).collect() };
                let txt = || -> String { b.iter().map(|x| (b'a' + x % 26) as char).collect() };
                match w { 0 => Item::Bytes(b), 1 => Item::Str(txt()), 2 => Item::Raw(b), 3 => Item::Skip(b), _ => Item::RawStr(txt()) }
            }
            other => other.clone(),
        }
    }
    pub fn from_json(v: &Value) -> Option<Item> {
        let k = v.get(0)?.as_str()?;
        let a = v.get(1)?;
        let n = || a.as_str().and_then(|s| s.parse::<u64>().ok()).unwrap_or(0);
        Some(match k {
            "u8" => Item::U8(n() as u8), "u16" => Item::U16(n() as u16), "u32" => Item::U32(n() as u32),
            "u64" => Item::U64(n()), "var" => Item::Var(n()),
            "bytes" => Item::Bytes(u8s(a)), "raw" => Item::Raw(u8s(a)), "skip" => Item::Skip(u8s(a)),
            "str" => Item::Str(a.as_str().unwrap_or("").to_string()),
            "rawstr" => Item::RawStr(a.as_str().unwrap_or("").to_string()),
            "gen" => Item::Gen(a.get(0).and_then(|x| x.as_u64()).unwrap_or(0) as u8, a.get(1).and_then(|x| x.as_u64()).unwrap_or(0) as usize, a.get(2).and_then(|x| x.as_u64()).unwrap_or(0)),
            _ => return None,
        })
    }
    /// Reference encoding, written independently of the library (LE fixed width, LEB128 length prefix).
    pub fn reference(&self, out: &mut Vec<u8>) {
        fn leb(mut v: u64, out: &mut Vec<u8>) {
            loop { let b = (v & 0x7f) as u8; v >>= 7; if v == 0 { out.push(b); break; } out.push(b | 0x80); }
        }
        match self {
            Item::U8(v) => out.push(*v),
            Item::U16(v) => out.extend_from_slice(&v.to_le_bytes()),
            Item::U32(v) => out.extend_from_slice(&v.to_le_bytes()),
            Item::U64(v) => out.extend_from_slice(&v.to_le_bytes()),
            Item::Var(v) => leb(*v, out),
            Item::Bytes(b) => { leb(b.len() as u64, out); out.extend_from_slice(b); }
            Item::Str(s) => { leb(s.len() as u64, out); out.extend_from_slice(s.as_bytes()); }
            Item::Raw(b) | Item::Skip(b) => out.extend_from_slice(b),
            Item::RawStr(s) => out.extend_from_slice(s.as_bytes()),
            Item::Gen(..) => self.expand().reference(out),
        }
    }
}

fn write_items<O: DataOutput>(o: &mut O, items: &[Item], base: u64) -> Result<(), String> {
    let mut want = base;
    let mut tmp = Vec::new();
    for (i, it) in items.iter().enumerate() {
        let r = match it {
            Item::U8(v) => o.write_u8(*v), Item::U16(v) => o.write_u16(*v), Item::U32(v) => o.write_u32(*v),
            Item::U64(v) => o.write_u64(*v), Item::Var(v) => o.write_var_int(*v),
            Item::Bytes(b) => o.write_length_prefixed_bytes(b), Item::Str(s) => o.write_length_prefixed_string(s),
            Item::Raw(b) | Item::Skip(b) => o.write_bytes(b), Item::RawStr(s) => o.write_string(s),
            Item::Gen(..) => Ok(()),
        };
        r.map_err(|e| format!("item {} write failed: {}", i, e))?;
        tmp.clear();
        it.reference(&mut tmp);
        want += tmp.len() as u64;
        if let Some(p) = o.bytes_written() { if p != want { return Err(format!("after item {} bytes_written() = {}, want {}", i, p, want)); } }
        if let Some(p) = o.position() { if p != want { return Err(format!("after item {} output position() = {}, want {}", i, p, want)); } }
    }
    o.flush().map_err(|e| format!("flush failed: {}", e))
}

/// Like write_items, but raw items go through the back end's std::io::Write implementation (which must count them too).
fn write_items_w<O: DataOutput + Write>(o: &mut O, items: &[Item], base: u64) -> Result<(), String> {
    let mut want = base;
    let mut tmp = Vec::new();
    for (i, it) in items.iter().enumerate() {
        match it {
            Item::Raw(b) | Item::Skip(b) => Write::write_all(o, b).map_err(|e| format!("item {} io::Write::write_all failed: {}", i, e))?,
            Item::RawStr(s) => { let k = Write::write(o, s.as_bytes()).map_err(|e| format!("item {} io::Write::write failed: {}", i, e))?; Write::write_all(o, &s.as_bytes()[k..]).map_err(|e| e.to_string())?; }
            other => write_items(o, std::slice::from_ref(other), want)?,
        }
        tmp.clear();
        it.reference(&mut tmp);
        want += tmp.len() as u64;
        if DataOutput::bytes_written(o) != Some(want) || DataOutput::position(o) != Some(want) { return Err(format!("after item {} (through io::Write) bytes_written() = {:?}, want {}", i, DataOutput::bytes_written(o), want)); }
    }
    Write::flush(o).map_err(|e| format!("io::Write::flush failed: {}", e))
}

fn read_items<I: DataInput>(inp: &mut I, items: &[Item], tail: &[u8]) -> Result<(), String> {
    read_items_only(inp, items, tail.len())?;
    // nothing beyond the items' own bytes was consumed: the trailing bytes are still all there
    let g = inp.read_vec(tail.len()).map_err(|e| format!("trailing bytes unreadable: {}", e))?;
    if g != tail { return Err(format!("trailing bytes read back as {:?}", g)); }
    Ok(())
}
/// As `read_items`, for the random-access inputs (slice, the two mapped inputs, the range reader), whose fixed-width readers
/// check that the field fits before touching anything: with 1..7 trailing bytes left, a fixed-width read wider than what is left
/// is refused and consumes nothing - position() stays, and the trailing bytes are still read back in full afterwards.
fn read_items_refused<I: DataInput>(inp: &mut I, items: &[Item], tail: &[u8]) -> Result<(), String> {
    read_items_only(inp, items, tail.len())?;
    if !tail.is_empty() && tail.len() < 8 {
        let before = inp.position();
        let (w, refused) = if tail.len() < 2 { (2, inp.read_u16().is_err()) } else if tail.len() < 4 { (4, inp.read_u32().is_err()) } else { (8, inp.read_u64().is_err()) };
        if !refused { return Err(format!("a {}-byte read succeeded with {} bytes left", w, tail.len())); }
        if inp.position() != before { return Err(format!("a refused {}-byte read with {} bytes left moved position() from {:?} to {:?}", w, tail.len(), before, inp.position())); }
        if inp.has_remaining() == Some(false) { return Err(format!("after a refused {}-byte read with {} bytes left has_remaining() = false", w, tail.len())); }
    }
    let g = inp.read_vec(tail.len()).map_err(|e| format!("trailing bytes unreadable after a refused wider read: {}", e))?;
    if g != tail { return Err(format!("trailing bytes read back as {:?}", g)); }
    Ok(())
}
/// Reads the items and stops; `extra` bytes follow them in the input.
fn read_items_only<I: DataInput>(inp: &mut I, items: &[Item], extra: usize) -> Result<(), String> {
    let mut want = 0u64;
    let mut tmp = Vec::new();
    let total: u64 = extra as u64 + items.iter().map(|it| { let mut t = vec![]; it.reference(&mut t); t.len() as u64 }).sum::<u64>();
    for (i, it) in items.iter().enumerate() {
        let bad = |got: String| { let d = format!("{:?}", it); format!("item {} ({}) read back as {}", i, &d[..d.len().min(80)], &got[..got.len().min(200)]) };
        match it {
            Item::U8(v) => { let g = inp.read_u8().map_err(|e| bad(e.to_string()))?; if g != *v { return Err(bad(g.to_string())); } }
            Item::U16(v) => { let g = inp.read_u16().map_err(|e| bad(e.to_string()))?; if g != *v { return Err(bad(g.to_string())); } }
            Item::U32(v) => { let g = inp.read_u32().map_err(|e| bad(e.to_string()))?; if g != *v { return Err(bad(g.to_string())); } }
            Item::U64(v) => { let g = inp.read_u64().map_err(|e| bad(e.to_string()))?; if g != *v { return Err(bad(g.to_string())); } }
            Item::Var(v) => { let g = inp.read_var_int().map_err(|e| bad(e.to_string()))?; if g != *v { return Err(bad(g.to_string())); } }
            Item::Bytes(b) => { let g = inp.read_length_prefixed_bytes().map_err(|e| bad(e.to_string()))?; if &g != b { return Err(bad(format!("{:?}", g))); } }
            Item::Str(s) => { let g = inp.read_length_prefixed_string().map_err(|e| bad(e.to_string()))?; if &g != s { return Err(bad(format!("{:?}", g))); } }
            Item::Raw(b) => {
                let g = if i % 2 == 0 { inp.read_vec(b.len()) } else { let mut t = vec![0u8; b.len()]; inp.read_bytes(&mut t).map(|_| t) }
                    .map_err(|e| bad(e.to_string()))?;
                if &g != b { return Err(bad(format!("{:?}", g))); }
            }
            Item::Skip(b) => { inp.skip(b.len()).map_err(|e| bad(e.to_string()))?; }
            Item::RawStr(s) => { let g = inp.read_string(s.len()).map_err(|e| bad(e.to_string()))?; if &g != s { return Err(bad(format!("{:?}", g))); } }
            Item::Gen(..) => {}
        }
        tmp.clear();
        it.reference(&mut tmp);
        want += tmp.len() as u64;
        if let Some(p) = inp.position() { if p != want { return Err(format!("after item {} input position() = {}, want {}", i, p, want)); } }
        if let Some(h) = inp.has_remaining() { if h != (want < total) { return Err(format!("after item {} has_remaining() = {} at {} of {} bytes", i, h, want, total)); } }
    }
    Ok(())
}

pub const N_OUT: usize = 16;
pub const N_IN: usize = 16;
pub fn out_name(k: usize) -> &'static str {
    ["vec", "vec_cap", "writer_vec", "writer_cursor", "file", "file_append", "mmap_out", "writer_sbw", "writer_zcw", "writer_chunky", "to_fns",
     "writer_as_io_write", "file_as_io_write", "writer_sbw_default", "writer_zcw_default", "mmap_out_open"][k % N_OUT]
}
pub fn in_name(k: usize) -> &'static str {
    ["slice", "reader_cursor", "reader_slice", "reader_file", "mmap_data_input", "mmapped_input", "range_reader", "reader_sbr", "reader_zcr",
     "reader_chunky", "range_over_sbr", "from_fns", "sbr_over_range", "reader_sbr_preset", "reader_zcr_default", "mmap_slices"][k % N_IN]
}

/// Serialise the items with output back end `k`; returns the bytes that reached the destination.
fn produce(cx: &Ctx, k: usize, items: &[Item], p: u64) -> Result<Vec<u8>, String> {
    let path = format!("{}/io_out_{}.bin", cx.tmp, k);
    let e = |x: zipora::ZiporaError| x.to_string();
    match k % N_OUT {
        0 => {
            // an output that was used and cleared before is an empty output again (clear / is_empty / reserve leave no trace)
            let mut o = match p % 3 { 0 => VecDataOutput::new(), 1 => VecDataOutput::default(), _ => zipora::io::to_vec() };
            if p % 2 == 1 {
                if !o.is_empty() { return Err("a new output is not empty".into()); }
                write_items(&mut o, &items[..items.len().min(3)], 0)?;
                o.write_u32(0xDEAD_BEEF).map_err(e)?;
                o.clear();
                if !o.is_empty() || o.len() != 0 || o.bytes_written() != Some(0) { return Err(format!("after clear(): len {} bytes_written {:?}", o.len(), o.bytes_written())); }
                o.reserve((p % 5000) as usize);
            }
            let half = items.len() / 2;
            write_items(&mut o, &items[..half], 0)?;
            let at = o.len() as u64;
            o.reserve((p % 70_000) as usize);
            write_items(&mut o, &items[half..], at)?;
            if o.len() as u64 != o.bytes_written().unwrap_or(0) || o.is_empty() != (o.len() == 0) { return Err("len() != bytes_written()".into()); }
            Ok(o.into_vec())
        }
        1 => { let mut o = VecDataOutput::with_capacity((p % 40) as usize); write_items(&mut o, items, 0)?; Ok(o.as_slice().to_vec()) }
        2 => { let mut o = WriterDataOutput::new(Vec::new()); write_items(&mut o, items, 0)?; Ok(o.into_inner()) }
        3 => { let mut o = WriterDataOutput::new(Cursor::new(Vec::new())); write_items(&mut o, items, 0)?; Ok(o.into_inner().into_inner()) }
        4 => {
            let mut o = FileDataOutput::create(&path).map_err(e)?;
            write_items(&mut o, items, 0)?;
            o.sync_all().map_err(e)?;
            drop(o);
            std::fs::read(&path).map_err(|x| x.to_string())
        }
        5 => {
            // append mode: an existing prefix must be preserved and counted
            let pre: Vec<u8> = (0..(p % 7) as u8).collect();
            std::fs::write(&path, &pre).map_err(|x| x.to_string())?;
            let mut o = FileDataOutput::append(&path).map_err(e)?;
            write_items(&mut o, items, pre.len() as u64)?;
            drop(o);
            let all = std::fs::read(&path).map_err(|x| x.to_string())?;
            if all.len() < pre.len() || all[..pre.len()] != pre[..] { return Err("append clobbered the existing prefix".into()); }
            Ok(all[pre.len()..].to_vec())
        }
        6 => {
            let init = [0usize, 1, 3, 16, 4096][(p % 5) as usize];
            let mut o = MemoryMappedOutput::create(&path, init).map_err(e)?;
            write_items(&mut o, items, 0)?;
            o.truncate().map_err(e)?;
            o.flush().map_err(e)?;
            drop(o);
            std::fs::read(&path).map_err(|x| x.to_string())
        }
        7 => {
            let cap = 1 + (p % 9) as usize;
            let bulk = [1usize, 4, 8192][(p / 9 % 3) as usize];
            let w = StreamBufferedWriter::with_config(Vec::new(), sb_cfg(cap, cap, true, 2, bulk, 2.0, false)).map_err(e)?;
            let mut o = WriterDataOutput::new(w);
            write_items(&mut o, items, 0)?;
            o.into_inner().into_inner().map_err(|x| x.to_string())
        }
        8 => {
            let cap = (p % 11) as usize;
            let w = ZeroCopyWriter::with_capacity(Vec::new(), cap).map_err(e)?;
            let mut o = WriterDataOutput::new(w);
            write_items(&mut o, items, 0)?;
            o.into_inner().into_inner().map_err(|x| x.to_string())
        }
        9 => { let mut o = WriterDataOutput::new(ChunkyW { inner: vec![], k: 1 + (p % 3) as usize }); write_items(&mut o, items, 0)?; Ok(o.into_inner().inner) }
        11 => { let mut o = WriterDataOutput::new(ChunkyW { inner: vec![], k: [1usize, 7, usize::MAX][(p % 3) as usize] }); write_items_w(&mut o, items, 0)?; let n = o.bytes_written(); let v = o.into_inner().inner; if v.len() as u64 != n { return Err(format!("bytes_written() = {}, {} bytes reached the writer", n, v.len())); } Ok(v) }
        12 => {
            let mut o = FileDataOutput::create(&path).map_err(e)?;
            write_items_w(&mut o, items, 0)?;
            o.sync_data().map_err(e)?;
            let n = o.bytes_written();
            drop(o);
            let f = std::fs::read(&path).map_err(|x| x.to_string())?;
            if f.len() as u64 != n { return Err(format!("bytes_written() = {}, the file has {} bytes", n, f.len())); }
            Ok(f)
        }
        13 => {
            // the default configuration: 64 KiB buffer, writes of 8 KiB and more bypass it
            let w = StreamBufferedWriter::new(ChunkyW { inner: vec![], k: [usize::MAX, 5000][(p % 2) as usize] }).map_err(e)?;
            let mut o = WriterDataOutput::new(w);
            write_items(&mut o, items, 0)?;
            Ok(o.into_inner().into_inner().map_err(|x| x.to_string())?.inner)
        }
        14 => {
            let w = ZeroCopyWriter::new(ChunkyW { inner: vec![], k: [usize::MAX, 5000][(p % 2) as usize] }).map_err(e)?;
            let mut o = WriterDataOutput::new(w);
            write_items(&mut o, items, 0)?;
            Ok(o.into_inner().into_inner().map_err(|x| x.to_string())?.inner)
        }
        15 => {
            // an existing file opened for mapped writing: overwritten from the start, then cut at the end of what was written
            let old: Vec<u8> = (0..[0usize, 1, 50, 5000][(p % 4) as usize]).map(|x| (x as u8) ^ 0x77).collect();
            std::fs::write(&path, &old).map_err(|x| x.to_string())?;
            let mut o = MemoryMappedOutput::open(&path).map_err(e)?;
            if o.capacity() != old.len() || o.position() != 0 || o.remaining() != old.len() { return Err("open(): capacity / position / remaining".into()); }
            write_items(&mut o, items, 0)?;
            let end = o.position();
            // a seek back and forth leaves the content alone
            o.seek(0).map_err(e)?;
            o.seek(end).map_err(e)?;
            o.truncate().map_err(e)?;
            o.flush().map_err(e)?;
            drop(o);
            std::fs::read(&path).map_err(|x| x.to_string())
        }
        _ => {
            let mut o = zipora::io::to_vec_with_capacity(3);
            write_items(&mut o, items, 0)?;
            let a = o.into_vec();
            let mut o2 = zipora::io::to_writer(Vec::new());
            write_items(&mut o2, items, 0)?;
            let mut o3 = zipora::io::to_file(&path).map_err(e)?;
            write_items(&mut o3, items, 0)?;
            drop(o3);
            let mut o4 = zipora::io::to_file_append(&path).map_err(e)?;
            write_items(&mut o4, items, a.len() as u64)?;
            drop(o4);
            let f = std::fs::read(&path).map_err(|x| x.to_string())?;
            let mut twice = a.clone();
            twice.extend_from_slice(&a);
            if o2.into_inner() != a || f != twice { return Err("to_writer / to_file / to_file_append disagree with to_vec".into()); }
            Ok(a)
        }
    }
}

/// Read the items back from `bytes ++ tail` with input back end `k`.
fn consume(cx: &Ctx, k: usize, bytes: &[u8], items: &[Item], tail: &[u8], p: u64) -> Result<(), String> {
    let mut all = bytes.to_vec();
    all.extend_from_slice(tail);
    let path = format!("{}/io_in_{}.bin", cx.tmp, k);
    let e = |x: zipora::ZiporaError| x.to_string();
    let io = |x: std::io::Error| x.to_string();
    match k % N_IN {
        0 => {
            let mut i = SliceDataInput::new(&all);
            // stop before the trailing bytes: they are what remaining_slice() shows
            read_items_only(&mut i, items, tail.len())?;
            if i.remaining_slice() != tail || i.remaining() != tail.len() || i.has_more() != !tail.is_empty() { return Err(format!("after the items remaining_slice() has {} bytes, the trailing bytes are {}", i.remaining_slice().len(), tail.len())); }
            let mut i = SliceDataInput::new(&all);
            read_items_refused(&mut i, items, tail)?;
            if i.pos() != all.len() || i.remaining() != 0 || i.has_more() || !i.remaining_slice().is_empty() { return Err(format!("slice input ends at pos {} of {}", i.pos(), all.len())); }
            Ok(())
        }
        1 => { let mut i = ReaderDataInput::new(Cursor::new(all.clone())); read_items(&mut i, items, tail)?; if i.pos() != all.len() as u64 { return Err("reader pos".into()); } Ok(()) }
        2 => { let mut i = ReaderDataInput::new(&all[..]); read_items(&mut i, items, tail)?; if !i.into_inner().is_empty() { return Err("reader left bytes".into()); } Ok(()) }
        3 => { std::fs::write(&path, &all).map_err(io)?; let mut i = ReaderDataInput::new(std::fs::File::open(&path).map_err(io)?); read_items(&mut i, items, tail) }
        4 => {
            if all.is_empty() { return Ok(()); } // an empty file cannot be mapped; nothing to read anyway
            std::fs::write(&path, &all).map_err(io)?;
            let mut i = MmapDataInput::open(&path).map_err(e)?;
            read_items_refused(&mut i, items, tail)?;
            if i.pos() != all.len() || i.remaining() != 0 { return Err("mmap input end position".into()); }
            Ok(())
        }
        5 => {
            // pad past 4 KiB on some cases so that the mmap strategy (not buffered I/O) is exercised
            let mut padded = all.clone();
            let mut t2 = tail.to_vec();
            if p % 3 == 0 { let pad: Vec<u8> = (0..4200u32).map(|x| (x * 7) as u8).collect(); padded.extend_from_slice(&pad); t2.extend_from_slice(&pad); }
            std::fs::write(&path, &padded).map_err(io)?;
            use zipora::io::AccessPattern;
            let pat = [AccessPattern::Unknown, AccessPattern::Sequential, AccessPattern::Random, AccessPattern::Mixed][(p / 4 % 4) as usize];
            let mut i = match p % 4 {
                0 => MemoryMappedInput::from_path(&path),
                1 => MemoryMappedInput::new(std::fs::File::open(&path).map_err(io)?),
                2 => MemoryMappedInput::from_path_with_pattern(&path, pat),
                _ => MemoryMappedInput::new_with_pattern(std::fs::File::open(&path).map_err(io)?, pat),
            }.map_err(e)?;
            if i.len() != padded.len() || i.is_empty() != padded.is_empty() { return Err("mapped input len()".into()); }
            read_items_refused(&mut i, items, &t2)?;
            if i.position() != padded.len() || i.remaining() != 0 { return Err(format!("mapped input ends at {} of {}", i.position(), padded.len())); }
            Ok(())
        }
        6 => {
            // the encoding sits in the middle of a larger stream; the range reader must expose exactly it
            let pre: Vec<u8> = (0..(p % 5) as u8).map(|x| x.wrapping_mul(37)).collect();
            let mut big = pre.clone();
            big.extend_from_slice(&all);
            big.extend_from_slice(&[0xEE; 3]);
            let (st, ln) = (pre.len() as u64, all.len() as u64);
            let mut i = match p / 5 % 3 {
                0 => RangeReader::new_and_seek(Cursor::new(big), st, ln).map_err(e)?,
                1 => { let mut c = Cursor::new(big); c.set_position(st); RangeReader::with_range(c, st, st + ln) }
                _ => zipora::io::range::reader(Cursor::new(big), st, ln).map_err(e)?,
            };
            if p % 2 == 0 { read_items_refused(&mut i, items, tail)?; } else { read_items(&mut i, items, tail)?; }
            if i.remaining() != 0 || !i.is_at_end() { return Err(format!("range reader has {} bytes left", i.remaining())); }
            if i.read_u8().is_ok() { return Err("range reader read past the end of its range".into()); }
            Ok(())
        }
        7 => {
            let cap = 1 + (p % 9) as usize;
            let r = StreamBufferedReader::with_config(Cursor::new(all.clone()), sb_cfg(cap, cap.max((p / 9 % 20) as usize), p % 2 == 0, 1 + (p / 4 % 3) as usize, [1usize, 5, 8192][(p / 7 % 3) as usize], 2.0, false)).map_err(e)?;
            let mut i = ReaderDataInput::new(r);
            read_items(&mut i, items, tail)
        }
        8 => { let r = ZeroCopyReader::with_capacity(Cursor::new(all.clone()), (p % 11) as usize).map_err(e)?; let mut i = ReaderDataInput::new(r); read_items(&mut i, items, tail) }
        9 => { let mut i = ReaderDataInput::new(Chunky { inner: Cursor::new(all.clone()), k: 1 + (p % 3) as usize }); read_items(&mut i, items, tail) }
        10 => {
            let cap = 1 + (p % 7) as usize;
            let pre = (p % 4) as usize;
            let mut big = vec![0xAB; pre];
            big.extend_from_slice(&all);
            big.extend_from_slice(&[0xCD; 2]);
            let mut r = StreamBufferedReader::with_config(Cursor::new(big), sb_cfg(cap, cap, true, 2, 8192, 2.0, false)).map_err(e)?;
            let mut skip = vec![0u8; pre];
            r.read_exact(&mut skip).map_err(io)?;
            let mut i = RangeReader::new(r, pre as u64, all.len() as u64);
            read_items(&mut i, items, tail)
        }
        11 => {
            let mut i = zipora::io::from_slice(&all);
            read_items(&mut i, items, tail)?;
            let mut i2 = zipora::io::from_reader(Cursor::new(all.clone()));
            read_items(&mut i2, items, tail)?;
            if all.is_empty() { return Ok(()); }
            std::fs::write(&path, &all).map_err(io)?;
            let mut i3 = zipora::io::from_file(&path).map_err(e)?;
            read_items(&mut i3, items, tail)
        }
        13 => {
            // the preset constructors (buffers of 8 .. 128 KiB, read-ahead on or off, bulk thresholds 2 .. 16 KiB)
            let inner = Chunky { inner: Cursor::new(all.clone()), k: [usize::MAX, 5000, 1][(p / 5 % 3) as usize] };
            let r = match p % 5 {
                0 => StreamBufferedReader::new(inner),
                1 => StreamBufferedReader::performance_optimized(inner),
                2 => StreamBufferedReader::memory_efficient(inner),
                3 => StreamBufferedReader::low_latency(inner),
                _ => StreamBufferedReader::with_config(inner, StreamBufferConfig { page_alignment: [1usize, 64, 4096][(p / 15 % 3) as usize], ..StreamBufferConfig::default() }),
            }.map_err(e)?;
            let mut i = ReaderDataInput::new(r);
            read_items(&mut i, items, tail)
        }
        14 => { let r = ZeroCopyReader::new(Chunky { inner: Cursor::new(all.clone()), k: [usize::MAX, 5000, 1][(p % 3) as usize] }).map_err(e)?; let mut i = ReaderDataInput::new(r); read_items(&mut i, items, tail) }
        15 => {
            if all.is_empty() { return Ok(()); }
            std::fs::write(&path, &all).map_err(io)?;
            // (MmapDataInput::from_mmap takes a memmap2::Mmap, a crate the harness does not link: open() builds the same object)
            let mut i = MmapDataInput::open(&path).map_err(e)?;
            if i.len() != all.len() || i.is_empty() || i.as_slice() != &all[..] { return Err("mapped input: len / as_slice".into()); }
            read_items_only(&mut i, items, tail.len())?;
            if i.remaining_slice() != tail || i.remaining() != tail.len() { return Err(format!("after the items remaining_slice() has {} bytes, the trailing bytes are {}", i.remaining_slice().len(), tail.len())); }
            let g = i.read_vec(tail.len()).map_err(e)?;
            if g != tail || i.remaining() != 0 || i.has_remaining() != Some(false) || !i.remaining_slice().is_empty() { return Err("mapped input: trailing bytes".into()); }
            Ok(())
        }
        _ => {
            let cap = 1 + (p % 6) as usize;
            let pre = (p % 3) as usize;
            let mut big = vec![0x11; pre];
            big.extend_from_slice(&all);
            big.extend_from_slice(&[0x22; 4]);
            let rr = RangeReader::new_and_seek(Cursor::new(big), pre as u64, all.len() as u64).map_err(e)?;
            let r = StreamBufferedReader::with_config(rr, sb_cfg(cap, cap, p % 2 == 1, 3, 8192, 2.0, false)).map_err(e)?;
            let mut i = ReaderDataInput::new(r);
            read_items(&mut i, items, tail)?;
            if i.read_u8().is_ok() { return Err("buffered reader over a range read past the end of the range".into()); }
            Ok(())
        }
    }
}

pub fn data_io(cx: &mut Ctx, items: &[Item], ok: usize, ik: usize, tail: &[u8], p: u64) {
    let cell = format!("data_io/{}->{}", out_name(ok), in_name(ik));
    let cj = json!({"cell": "data_io", "items": items.iter().map(|i| i.to_json()).collect::<Vec<_>>(), "out": ok, "in": ik, "tail": tail, "p": p.to_string()});
    if !cx.gate(&cj) { return; }
    cx.sum.eval(&cell, &cj.to_string(), items.len() >= 2);
    cx.sum.dist(&format!("data_out={}", out_name(ok)));
    cx.sum.dist(&format!("data_in={}", in_name(ik)));
    let expanded: Vec<Item> = items.iter().map(|i| i.expand()).collect();
    let items = &expanded[..];
    let mut reference = Vec::new();
    for it in items { it.reference(&mut reference); }
    let r = guarded(|| -> Result<Vec<u8>, String> {
        let bytes = produce(cx, ok, items, p)?;
        // every output back end must emit the same stream as the plain Vec back end (and the documented format)
        let mut o = VecDataOutput::new();
        write_items(&mut o, items, 0)?;
        if bytes != o.as_slice() { let i = bytes.iter().zip(o.as_slice()).position(|(a, b)| a != b).unwrap_or(bytes.len().min(o.len())); return Err(format!("output back end produced {} bytes, the Vec back end {}; first difference at byte {}: {:?} vs {:?}", bytes.len(), o.len(), i, &bytes[i.min(bytes.len())..(i + 8).min(bytes.len())], &o.as_slice()[i.min(o.len())..(i + 8).min(o.len())])); }
        consume(cx, ik, &bytes, items, tail, p)?;
        Ok(bytes)
    });
    match r {
        Err(pn) => cx.sum.fail(&cell, None, cj, &format!("panicked: {}", pn)),
        Ok(Err(why)) => cx.sum.fail(&cell, None, cj, &why),
        Ok(Ok(bytes)) => {
            // model tie (stricter than the property): the bytes are the modelled format
            if bytes != reference { cx.sum.notes.push(format!("data_io: bytes differ from the documented LE/LEB128 format on {}", cj)); cx.format_drift = true; }
            cx.coq_items(items, &bytes);
        }
    }
}

pub fn rand_string(r: &mut Rng) -> String {
    let n = match r.below(8) { 0 => 0, 1 => 127, 2 => 128, 3 => 129, 4 => r.below(5) as usize, 5 => r.below(300) as usize, 6 => 1, _ => r.below(20) as usize };
    let alpha = ["a", "Z", "0", " ", "\u{e9}", "\u{65e5}", "\u{1d11e}", "\0", "\u{7f}", "\u{80}"];
    let mut s = String::new();
    while s.len() < n { s.push_str(alpha[r.below(alpha.len() as u64) as usize]); }
    s
}
pub fn rand_blob(r: &mut Rng) -> Vec<u8> {
    let n = match r.below(9) { 0 => 0, 1 => 127, 2 => 128, 3 => 129, 4 => 16383, 5 => 16384, 6 => 1, _ => r.below(40) as usize };
    let n = if n > 1000 && !r.chance(1, 6) { r.below(12) as usize } else { n };
    r.bytes(n)
}
pub fn rand_item(r: &mut Rng) -> Item {
    match r.below(10) {
        0 => Item::U8(*r.pick(&[0u8, 1, 0x7f, 0x80, 0xff])),
        1 => Item::U16(*r.pick(&[0u16, 1, 0xff, 0x100, 0x7fff, 0x8000, 0xffff, 0x1234])),
        2 => Item::U32(if r.chance(1, 2) { r.next() as u32 } else { *r.pick(&[0u32, 0xff, 0x100, 0xffff, 0x10000, 0x7fffffff, 0x80000000, 0xffffffff, 0x01020304]) }),
        3 => Item::U64(super::rand_u64(r)),
        4 => Item::Var(super::rand_u64(r)),
        5 => Item::Bytes(rand_blob(r)),
        6 => Item::Str(rand_string(r)),
        7 => Item::Raw(rand_blob(r)),
        8 => Item::Skip(rand_blob(r)),
        _ => Item::RawStr(rand_string(r)),
    }
}

// ------------------------------------------------------------------------------------------
// Endian conversion
// ------------------------------------------------------------------------------------------
use zipora::io::endian::{detect_endianness_from_magic, write_endianness_magic, EndianConvert, EndianIO, Endianness};

fn endian_one<T>(v: T, le: Vec<u8>, be: Vec<u8>, swapped: T, tail: &[u8], eq: &dyn Fn(T, T) -> bool) -> Result<(), String>
where T: EndianConvert + std::fmt::Debug {
    let w = le.len();
    let little_host = cfg!(target_endian = "little");
    for (e, want) in [(Endianness::Little, &le), (Endianness::Big, &be), (Endianness::Native, if little_host { &le } else { &be })] {
        // the preset constructors build the same converter as new(e)
        let io = if tail.len() % 2 == 1 { EndianIO::<T>::new(e) } else { match e { Endianness::Little => EndianIO::<T>::little_endian(), Endianness::Big => EndianIO::<T>::big_endian(), Endianness::Native => EndianIO::<T>::native_endian() } };
        let native = e == Endianness::Native || (e == Endianness::Little) == little_host;
        if io.endianness() != e || io.needs_conversion() == native || e.is_native() != native || e.needs_conversion() == native || T::needs_swap_for(e) != (w > 1 && !native) {
            return Err(format!("{:?}: endianness() {:?}, needs_conversion() {}, is_native() {}, needs_swap_for {} on a {}-endian host", e, io.endianness(), io.needs_conversion(), e.is_native(), T::needs_swap_for(e), if little_host { "little" } else { "big" }));
        }
        let mut buf = vec![0x5Au8; w + tail.len()];
        buf[w..].copy_from_slice(tail);
        io.write_to_bytes(v, &mut buf).map_err(|x| x.to_string())?;
        if buf[..w] != want[..] { return Err(format!("{:?}: write_to_bytes({:?}) = {:?}, want {:?}", e, v, &buf[..w], want)); }
        if buf[w..] != tail[..] { return Err(format!("{:?}: write_to_bytes wrote past its own {} bytes", e, w)); }
        let g = io.read_from_bytes(&buf).map_err(|x| x.to_string())?;
        if !eq(g, v) { return Err(format!("{:?}: read_from_bytes(write_to_bytes({:?})) = {:?}", e, v, g)); }
        if w > 1 && io.read_from_bytes(&buf[..w - 1]).is_ok() { return Err(format!("{:?}: read_from_bytes accepted {} of {} bytes", e, w - 1, w)); }
        if !eq(v.to_endian(e).from_endian(e), v) || !eq(v.from_endian(e).to_endian(e), v) { return Err(format!("{:?}: to_endian/from_endian are not inverse on {:?}", e, v)); }
        let mut s = [v, v, v];
        io.convert_slice_to_endian(&mut s);
        if !eq(s[1], v.to_endian(e)) { return Err(format!("{:?}: convert_slice_to_endian differs from to_endian", e)); }
        io.convert_slice_from_endian(&mut s);
        if !(eq(s[0], v) && eq(s[1], v) && eq(s[2], v)) { return Err(format!("{:?}: slice conversion does not round-trip {:?}", e, v)); }
    }
    // the foreign byte order is the byte swap, the host order the identity; both are involutions
    let (foreign_to, foreign_from, host_to, host_from) = if little_host { (v.to_be(), v.from_be(), v.to_le(), v.from_le()) } else { (v.to_le(), v.from_le(), v.to_be(), v.from_be()) };
    if !eq(foreign_to, swapped) || !eq(foreign_from, swapped) { return Err(format!("foreign-order conversion of {:?} = {:?}, want the byte swap {:?}", v, foreign_to, swapped)); }
    if !eq(host_to, v) || !eq(host_from, v) { return Err(format!("host-order conversion changed {:?}", v)); }
    if !eq(v.to_be().to_be().from_be().from_be(), v) { return Err("swap is not an involution".into()); }
    Ok(())
}

pub fn endian(cx: &mut Ctx, raw: u128, tail: &[u8], force: bool) {
    let cell = "endian";
    let cj = json!({"cell": cell, "ints": [raw.to_string()], "tail": tail});
    if !cx.gate(&cj) { return; }
    cx.sum.eval(cell, &cj.to_string(), raw > 255);
    let r = guarded(|| -> Result<(), String> {
        macro_rules! int { ($t:ty) => {{ let v = raw as $t; endian_one::<$t>(v, v.to_le_bytes().to_vec(), v.to_be_bytes().to_vec(), v.swap_bytes(), tail, &|a, b| a == b).map_err(|e| format!("{}: {}", stringify!($t), e))?; }}; }
        int!(u8); int!(i8); int!(u16); int!(i16); int!(u32); int!(i32); int!(u64); int!(i64); int!(u128); int!(i128); int!(usize); int!(isize);
        let f = f32::from_bits(raw as u32);
        endian_one::<f32>(f, f.to_le_bytes().to_vec(), f.to_be_bytes().to_vec(), f32::from_bits((raw as u32).swap_bytes()), tail, &|a, b| a.to_bits() == b.to_bits()).map_err(|e| format!("f32: {}", e))?;
        let d = f64::from_bits(raw as u64);
        endian_one::<f64>(d, d.to_le_bytes().to_vec(), d.to_be_bytes().to_vec(), f64::from_bits((raw as u64).swap_bytes()), tail, &|a, b| a.to_bits() == b.to_bits()).map_err(|e| format!("f64: {}", e))?;
        Ok(())
    });
    match r {
        Err(p) => cx.sum.fail(cell, None, cj, &format!("panicked: {}", p)),
        Ok(Err(why)) => cx.sum.fail(cell, None, cj, &why),
        Ok(Ok(())) => {
            // tie the fixed-width model to the code: EndianIO bytes for u16/u32/u64 in both orders
            for (wd, v) in [(2usize, raw as u16 as u64), (4, raw as u32 as u64), (8, raw as u64)] {
                for big in [false, true] {
                    let mut b = vec![0u8; wd];
                    let e = if big { Endianness::Big } else { Endianness::Little };
                    let okw = match wd { 2 => EndianIO::<u16>::new(e).write_to_bytes(v as u16, &mut b).is_ok(), 4 => EndianIO::<u32>::new(e).write_to_bytes(v as u32, &mut b).is_ok(), _ => EndianIO::<u64>::new(e).write_to_bytes(v, &mut b).is_ok() };
                    if okw { cx.coq2(16 + big as u32, wd, &[v as i128], &[], &Some(b.iter().map(|&x| x as i128).collect()), force); }
                }
            }
        }
    }
}

/// Bulk conversions of endian::simd: array in the given byte order -> host order, element-wise.
pub fn endian_bulk(cx: &mut Ctx, xs: &[u64], from_little: bool) {
    let cell = "endian/bulk";
    let cj = json!({"cell": cell, "ints": ds(xs), "from_little": from_little});
    if !cx.gate(&cj) { return; }
    cx.sum.eval(cell, &cj.to_string(), xs.len() >= 8);
    #[cfg(all(target_arch = "x86_64", target_feature = "sse2"))]
    {
        use zipora::io::endian::simd::{convert_u16_slice_simd, convert_u32_slice_simd};
        let r = guarded(|| -> Result<(), String> {
            let a: Vec<u16> = xs.iter().map(|&x| x as u16).collect();
            let mut b = a.clone();
            convert_u16_slice_simd(&mut b, from_little);
            let want: Vec<u16> = a.iter().map(|&x| if from_little { u16::from_le(x) } else { u16::from_be(x) }).collect();
            if b != want { return Err(format!("convert_u16_slice_simd(from_little={}) = {:?}, want {:?}", from_little, b, want)); }
            let a: Vec<u32> = xs.iter().map(|&x| x as u32).collect();
            let mut b = a.clone();
            convert_u32_slice_simd(&mut b, from_little);
            let want: Vec<u32> = a.iter().map(|&x| if from_little { u32::from_le(x) } else { u32::from_be(x) }).collect();
            if b != want { return Err(format!("convert_u32_slice_simd(from_little={}) = {:?}, want {:?}", from_little, b, want)); }
            Ok(())
        });
        match r {
            Err(p) => cx.sum.fail(cell, None, cj, &format!("panicked: {}", p)),
            Ok(Err(why)) => cx.sum.fail(cell, None, cj, &why),
            Ok(Ok(())) => {}
        }
    }
}

pub fn endian_magic(cx: &mut Ctx) {
    let cell = "endian/magic";
    // the configuration builder carries no behaviour of its own (its fields are private and nothing reads them): building every preset must simply work
    if guarded(|| { use zipora::io::EndianConfig; let _ = (EndianConfig::new(), EndianConfig::default(), EndianConfig::performance_optimized(), EndianConfig::cross_platform(),
        EndianConfig::new().with_default_endianness(Endianness::Big).with_auto_detect(true).with_simd_acceleration(false)); }).is_err() {
        cx.sum.fail(cell, None, json!({"cell": cell, "which": 9}), "an EndianConfig constructor panicked");
    }
    for (i, e) in [Endianness::Little, Endianness::Big, Endianness::Native].into_iter().enumerate() {
        let cj = json!({"cell": cell, "which": i});
        if !cx.gate(&cj) { return; }
        cx.sum.eval(cell, &cj.to_string(), true);
        let want = if e == Endianness::Native { Endianness::native() } else { e };
        match guarded(|| detect_endianness_from_magic(write_endianness_magic(e))) {
            Err(p) => cx.sum.fail(cell, None, cj, &format!("panicked: {}", p)),
            Ok(g) => if g != Some(want) { cx.sum.fail(cell, None, cj, &format!("detect(write_magic({:?})) = {:?}, want {:?}", e, g, want)); }
        }
    }
}
