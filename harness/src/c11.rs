//! C11: sorts, merges and set operations produce the mathematically defined result.
//!
//! Every public sorting / merging / set-operation entry point of src/algorithms is run on
//! boundary-biased inputs under many configurations; the oracle is the property itself
//! (std sort, concatenate-and-sort, textbook two-pointer algorithms written here).
//! Cells with a mechanism model (M+S) are additionally replayed in Coq.
//! Calls that can abort the process (unbounded recursion, huge allocations) run in a child process.
use crate::util::*;
use serde_json::{json, Value};
use std::cmp::Ordering;
use std::path::PathBuf;
use zipora::algorithms::cache_oblivious::{CacheObliviousConfig, CacheObliviousSort};
use zipora::algorithms::external_sort::{ExternalSort, ReplaceSelectSort, ReplaceSelectSortConfig};
use zipora::algorithms::multiway_merge::{MergeOperations, MultiWayMerge, MultiWayMergeConfig, VectorSource};
use zipora::algorithms::radix_sort::{
    AdvancedRadixSort, AdvancedRadixSortConfig, KeyValueRadixSort, RadixSort, RadixSortConfig, RadixSortable,
    RadixString, SortingStrategy,
};
use zipora::algorithms::set_operations::{SetOperations, SetOperationsConfig};
use zipora::algorithms::set_ops;
use zipora::algorithms::simd_merge::{SimdComparator, SimdConfig, SimdOperations};
use zipora::algorithms::tournament_tree::{EnhancedLoserTree, LoserTreeConfig};
use zipora::algorithms::Algorithm;
use zipora::memory::cache_layout::CacheHierarchy;

#[path = "c11_wide.rs"]
mod wide;

const HEADER: &str = r#"From ZV.Common Require Import Base Run.
From ZV.C11 Require Import Model ModelCases.
Open Scope N_scope.
Definition case_t : Type := N * list N * list (list N) * list N.
Definition ok (c : case_t) : bool :=
  let '(op, ps, ins, expect) := c in eqb_ln (run_case_x op ps ins) expect.
"#;

struct Ctx {
    sum: Summary,
    shards: CoqShards,
    budget: usize,
    per_op: std::collections::HashMap<u32, usize>,
    rng: Rng,
    tmp: PathBuf,
    out: String,
    /// rayon::current_num_threads(), observed through AdvancedRadixSort::stats().threads_used
    threads: u64,
}

/// The size of the global rayon pool as the library sees it: the parallel LSD path records the thread
/// count it used (config.num_threads, or rayon::current_num_threads() when that is 0).
fn pool_threads() -> u64 {
    let r = guarded(|| {
        let cfg = AdvancedRadixSortConfig {
            force_strategy: Some(SortingStrategy::LsdRadix), use_parallel: true, parallel_threshold: 1, num_threads: 0,
            use_secure_memory: false, ..Default::default()
        };
        let mut s = AdvancedRadixSort::<u32>::with_config(cfg).ok()?;
        let mut d = vec![3u32, 1, 2, 0];
        s.sort(&mut d).ok()?;
        Some(s.stats().threads_used as u64)
    });
    match r { Ok(Some(n)) if n > 0 => n, _ => std::thread::available_parallelism().map(|n| n.get() as u64).unwrap_or(1) }
}

#[derive(Clone, Default, Debug)]
struct Case {
    cell: String,
    p: Vec<u64>,
    xs: Vec<u64>,
    runs: Vec<Vec<u64>>,
    a: Vec<u64>,
    b: Vec<u64>,
    strs: Vec<Vec<u8>>,
    /// operation history of the breadth cells (c11_wide.rs): one JSON object per step, at the top level of the case
    /// so that the shrinker deletes whole steps
    ops: Vec<Value>,
    /// big input described by (kind, n, seed, bits, k, kind2) instead of being spelled out; expanded into
    /// xs / strs / runs / a, b when the case is built (wide::fill_from_gen)
    gen: Vec<u64>,
}
fn ju(v: &[u64]) -> Value { json!(v) }
fn pu(v: &Value) -> Vec<u64> {
    v.as_array().map(|a| a.iter().map(|x| x.as_u64().unwrap_or(0)).collect()).unwrap_or_default()
}
impl Case {
    fn new(cell: &str, p: &[u64]) -> Case { Case { cell: cell.to_string(), p: p.to_vec(), ..Default::default() } }
    fn json(&self) -> Value {
        // parameters live in a nested object so that the shrinker (which deletes elements of
        // top-level lists) never changes the configuration
        if !self.gen.is_empty() {
            // the input is a function of the descriptor: keep the replay small
            return json!({"cell": self.cell, "cfg": {"p": self.p, "gen": self.gen}, "ops": self.ops});
        }
        json!({"cell": self.cell, "cfg": {"p": self.p}, "xs": ju(&self.xs),
               "runs": self.runs.iter().map(|r| ju(r)).collect::<Vec<_>>(),
               "a": ju(&self.a), "b": ju(&self.b),
               "strs": self.strs.iter().map(|s| json!(s)).collect::<Vec<_>>(),
               "ops": self.ops})
    }
    fn from_json(v: &Value) -> Case {
        let mut c = Case::from_json_raw(v);
        if !c.gen.is_empty() { wide::fill_from_gen(&mut c); }
        c
    }
    fn from_json_raw(v: &Value) -> Case {
        Case {
            ops: v["ops"].as_array().cloned().unwrap_or_default(),
            gen: pu(&v["cfg"]["gen"]),
            cell: v["cell"].as_str().unwrap_or("").to_string(),
            p: pu(&v["cfg"]["p"]),
            xs: pu(&v["xs"]),
            runs: v["runs"].as_array().map(|a| a.iter().map(pu).collect()).unwrap_or_default(),
            a: pu(&v["a"]),
            b: pu(&v["b"]),
            strs: v["strs"].as_array().map(|a| a.iter().map(|s| pu(s).iter().map(|&x| x as u8).collect()).collect()).unwrap_or_default(),
        }
    }
    fn pp(&self, i: usize) -> u64 { self.p.get(i).copied().unwrap_or(0) }
    fn key(&self) -> String {
        if !self.gen.is_empty() { return format!("{} {:?} {:?} {:?}", self.cell, self.p, self.gen, self.ops); }
        format!("{:?}", self)
    }
    /// a case whose input is the expansion of a (kind, n, seed, bits, k, kind2) descriptor
    fn big(cell: &str, p: &[u64], gen: &[u64]) -> Case {
        let mut c = Case::new(cell, p);
        c.gen = gen.to_vec();
        wide::fill_from_gen(&mut c);
        c
    }
}

/// What the implementation produced.
#[derive(Clone, Default, Debug, PartialEq)]
struct Out {
    ints: Vec<u64>,
    strs: Vec<Vec<u8>>,
    aux: Vec<u64>,
}
impl Out {
    fn ints(v: Vec<u64>) -> Out { Out { ints: v, ..Default::default() } }
    fn json(&self) -> Value { json!({"ints": self.ints, "strs": self.strs, "aux": self.aux}) }
    fn from_json(v: &Value) -> Out {
        Out { ints: pu(&v["ints"]),
              strs: v["strs"].as_array().map(|a| a.iter().map(|s| pu(s).iter().map(|&x| x as u8).collect()).collect()).unwrap_or_default(),
              aux: pu(&v["aux"]) }
    }
}

fn strategy_of(code: u64) -> (Option<SortingStrategy>, bool) {
    match code {
        1 => (Some(SortingStrategy::Insertion), true),
        2 => (Some(SortingStrategy::TimSort), true),
        3 => (Some(SortingStrategy::LsdRadix), true),
        4 => (Some(SortingStrategy::MsdRadix), true),
        5 => (Some(SortingStrategy::Adaptive), true),
        6 => (None, false),
        _ => (None, true),
    }
}
fn adv_config(c: &Case) -> AdvancedRadixSortConfig {
    let (force, adaptive) = strategy_of(c.pp(0));
    AdvancedRadixSortConfig {
        force_strategy: force,
        adaptive_strategy: adaptive,
        radix_bits: c.pp(1) as usize,
        use_parallel: c.pp(2) != 0,
        parallel_threshold: c.pp(3) as usize,
        num_threads: c.pp(4) as usize,
        insertion_sort_threshold: c.pp(5) as usize,
        use_simd: c.pp(6) != 0,
        use_secure_memory: c.pp(7) != 0,
        ..Default::default()
    }
}
fn radix_config(c: &Case) -> RadixSortConfig {
    RadixSortConfig {
        radix_bits: c.pp(0) as usize,
        use_parallel: c.pp(1) != 0,
        parallel_threshold: c.pp(2) as usize,
        use_counting_sort_threshold: c.pp(3) as usize,
        use_simd: c.pp(4) != 0,
    }
}
/// Sorts and returns what stats() shows of the path taken: [strategy_used, used_parallel].
fn adv_sort<T: RadixSortable>(c: &Case, data: &mut [T]) -> Result<Vec<u64>, String> {
    let mut s = AdvancedRadixSort::<T>::with_config(adv_config(c)).map_err(|e| format!("with_config: {}", e))?;
    s.sort(data).map_err(|e| format!("sort: {}", e))?;
    let st = match s.stats().strategy_used {
        SortingStrategy::Insertion => 1, SortingStrategy::TimSort => 2, SortingStrategy::LsdRadix => 3,
        SortingStrategy::MsdRadix => 4, SortingStrategy::Adaptive => 5,
    };
    Ok(vec![st, s.stats().basic_stats.used_parallel as u64])
}
const I32_OFF: i64 = 1 << 31;
fn to_i32(x: u64) -> i32 { (x as i64 - I32_OFF) as i32 }
fn from_i32(x: i32) -> u64 { (x as i64 + I32_OFF) as u64 }
fn ucmp(a: &u64, b: &u64) -> Ordering { a.cmp(b) }

/// Run the real code on the case.  Err = the API reported an error.
fn exec(c: &Case, tmp: &PathBuf) -> Result<Out, String> {
    let cell = c.cell.as_str();
    // breadth cells judge themselves step by step against their shadow (c11_wide.rs): Err = the violation
    if wide::handles(cell) { return wide::eval(c, tmp).map(|_| Out::default()); }
    match cell {
        "radix/u32" => {
            let mut d: Vec<u32> = c.xs.iter().map(|&x| x as u32).collect();
            let mut s = RadixSort::with_config(radix_config(c));
            s.sort_u32(&mut d).map_err(|e| e.to_string())?;
            Ok(Out::ints(d.iter().map(|&x| x as u64).collect()))
        }
        "radix/u32_execute" => {
            let d: Vec<u32> = c.xs.iter().map(|&x| x as u32).collect();
            let s = RadixSort::new();
            let r = s.execute(&radix_config(c), d).map_err(|e| e.to_string())?;
            Ok(Out::ints(r.iter().map(|&x| x as u64).collect()))
        }
        "radix/u64" => {
            let mut d = c.xs.clone();
            let mut s = RadixSort::with_config(radix_config(c));
            s.sort_u64(&mut d).map_err(|e| e.to_string())?;
            Ok(Out::ints(d))
        }
        "radix/bytes" => {
            let mut d = c.strs.clone();
            let mut s = RadixSort::with_config(radix_config(c));
            s.sort_bytes(&mut d).map_err(|e| e.to_string())?;
            Ok(Out { strs: d, ..Default::default() })
        }
        "radix/bytes_deep" => {
            // every string = p[5] copies of byte p[6], followed by its own suffix from c.strs
            let prefix = vec![c.pp(6) as u8; c.pp(5) as usize];
            let mut d: Vec<Vec<u8>> = c.strs.iter().map(|s| { let mut t = prefix.clone(); t.extend_from_slice(s); t }).collect();
            let mut s = RadixSort::with_config(radix_config(c));
            s.sort_bytes(&mut d).map_err(|e| e.to_string())?;
            // report the suffixes (the prefix is checked to be intact)
            if d.iter().any(|t| t.len() < prefix.len() || t[..prefix.len()] != prefix[..]) { return Err("a string lost its prefix".to_string()); }
            Ok(Out { strs: d.iter().map(|t| t[prefix.len()..].to_vec()).collect(), ..Default::default() })
        }
        "kv/u32" => {
            let mut d: Vec<(u32, u64)> = c.xs.iter().enumerate().map(|(i, &k)| (k as u32, i as u64)).collect();
            KeyValueRadixSort::<u32, u64>::new().sort_by_key(&mut d).map_err(|e| e.to_string())?;
            Ok(Out { ints: d.iter().map(|x| x.0 as u64).collect(), aux: d.iter().map(|x| x.1).collect(), ..Default::default() })
        }
        "kv/u64" => {
            let mut d: Vec<(u64, u64)> = c.xs.iter().enumerate().map(|(i, &k)| (k, i as u64)).collect();
            KeyValueRadixSort::<u64, u64>::new().sort_by_key(&mut d).map_err(|e| e.to_string())?;
            Ok(Out { ints: d.iter().map(|x| x.0).collect(), aux: d.iter().map(|x| x.1).collect(), ..Default::default() })
        }
        "adv/u32" => {
            let mut d: Vec<u32> = c.xs.iter().map(|&x| x as u32).collect();
            let obs = adv_sort(c, &mut d)?;
            Ok(Out { ints: d.iter().map(|&x| x as u64).collect(), aux: obs, ..Default::default() })
        }
        "adv/u64" => {
            let mut d = c.xs.clone();
            let obs = adv_sort(c, &mut d)?;
            Ok(Out { ints: d, aux: obs, ..Default::default() })
        }
        "adv/u64_execute" => {
            let s = AdvancedRadixSort::<u64>::with_config(AdvancedRadixSortConfig { use_secure_memory: false, ..Default::default() })
                .map_err(|e| e.to_string())?;
            let r = s.execute(&adv_config(c), c.xs.clone()).map_err(|e| e.to_string())?;
            Ok(Out::ints(r))
        }
        "adv/str" => {
            let mut d: Vec<RadixString> = c.strs.iter().map(|s| RadixString::new(s)).collect();
            let obs = adv_sort(c, &mut d)?;
            Ok(Out { strs: d.iter().map(|s| s.as_slice().to_vec()).collect(), aux: obs, ..Default::default() })
        }
        "co/sort" | "co/oblivious" | "co/sort_u8" => {
            let ch = CacheHierarchy {
                l1_size: c.pp(0) as usize, l2_size: c.pp(1) as usize, l3_size: c.pp(2) as usize,
                l2_line_size: (c.pp(5) as usize).max(1),
                ..CacheHierarchy::default()
            };
            let cfg = CacheObliviousConfig {
                cache_hierarchy: ch, small_threshold: c.pp(3) as usize, use_simd: c.pp(4) != 0,
                ..CacheObliviousConfig::default()
            };
            let mut s = CacheObliviousSort::with_config(cfg);
            if cell == "co/sort_u8" {
                let mut d: Vec<u8> = c.xs.iter().map(|&x| x as u8).collect();
                s.sort(&mut d).map_err(|e| e.to_string())?;
                return Ok(Out::ints(d.iter().map(|&x| x as u64).collect()));
            }
            let mut d = c.xs.clone();
            if cell == "co/sort" { s.sort(&mut d).map_err(|e| e.to_string())?; }
            else { s.cache_oblivious_sort(&mut d).map_err(|e| e.to_string())?; }
            Ok(Out::ints(d))
        }
        "co/default" => {
            let mut s = CacheObliviousSort::new();
            let mut d = c.xs.clone();
            s.sort(&mut d).map_err(|e| e.to_string())?;
            Ok(Out::ints(d))
        }
        "ext/sort" | "ext/rev" | "ext/vec" => {
            let cfg = ReplaceSelectSortConfig {
                memory_buffer_size: c.pp(0) as usize, merge_ways: c.pp(1) as usize,
                use_secure_memory: c.pp(2) != 0, temp_dir: tmp.clone(), ..Default::default()
            };
            if cell == "ext/vec" {
                let mut d = c.xs.clone();
                d.external_sort_with_config(cfg).map_err(|e| e.to_string())?;
                return Ok(Out::ints(d));
            }
            if cell == "ext/rev" {
                let mut s = ReplaceSelectSort::with_comparator(cfg, |a: &u64, b: &u64| b.cmp(a));
                let r = s.sort(c.xs.clone()).map_err(|e| e.to_string())?;
                return Ok(Out { ints: r, aux: vec![s.stats().runs_generated as u64], ..Default::default() });
            }
            let mut s = ReplaceSelectSort::new(cfg);
            let r = s.sort(c.xs.clone()).map_err(|e| e.to_string())?;
            Ok(Out { ints: r, aux: vec![s.stats().runs_generated as u64], ..Default::default() })
        }
        "mwm/merge" => {
            let cfg = MultiWayMergeConfig { use_tournament_tree: c.pp(0) != 0, max_merge_ways: c.pp(1) as usize, ..Default::default() };
            let mut m = MultiWayMerge::with_config(cfg);
            let srcs: Vec<VectorSource<u64>> = c.runs.iter().cloned().map(VectorSource::new).collect();
            Ok(Out::ints(m.merge(srcs).map_err(|e| e.to_string())?))
        }
        "mwm/execute" => {
            let cfg = MultiWayMergeConfig { use_tournament_tree: c.pp(0) != 0, max_merge_ways: c.pp(1) as usize, ..Default::default() };
            let m = MultiWayMerge::new();
            let input: Vec<Vec<i32>> = c.runs.iter().map(|r| r.iter().map(|&x| to_i32(x)).collect()).collect();
            let r = m.execute(&cfg, input).map_err(|e| e.to_string())?;
            Ok(Out::ints(r.iter().map(|&x| from_i32(x)).collect()))
        }
        "merge/two" => Ok(Out::ints(MergeOperations::merge_two(c.a.clone(), c.b.clone()))),
        "merge/in_place" => {
            let mut d = c.a.clone();
            d.extend_from_slice(&c.b);
            MergeOperations::merge_in_place(&mut d, c.a.len());
            Ok(Out::ints(d))
        }
        "lt/merge" | "lt/iter" | "lt/rev" => {
            let cfg = LoserTreeConfig {
                stable_sort: c.pp(0) != 0, cache_optimized: c.pp(1) != 0, use_simd: c.pp(2) != 0,
                use_secure_memory: c.pp(3) != 0, initial_capacity: c.pp(4) as usize, prefetch_distance: c.pp(5) as usize,
                ..Default::default()
            };
            if cell == "lt/rev" {
                let mut t = EnhancedLoserTree::with_comparator(cfg, |a: &u64, b: &u64| b.cmp(a));
                for r in &c.runs { t.add_way(r.clone().into_iter()).map_err(|e| e.to_string())?; }
                return Ok(Out::ints(t.merge_to_vec().map_err(|e| e.to_string())?));
            }
            let mut t = EnhancedLoserTree::<u64>::new(cfg);
            for r in &c.runs { t.add_way(r.clone().into_iter()).map_err(|e| e.to_string())?; }
            if cell == "lt/merge" {
                Ok(Out::ints(t.merge_to_vec().map_err(|e| e.to_string())?))
            } else {
                t.initialize().map_err(|e| e.to_string())?;
                Ok(Out::ints(t.collect()))
            }
        }
        "simd/merge2" => {
            let cfg = SimdConfig { use_avx2: c.pp(0) != 0, min_vector_size: c.pp(1) as usize, ..Default::default() };
            let s = SimdComparator::with_config(cfg);
            let a: Vec<i32> = c.a.iter().map(|&x| to_i32(x)).collect();
            let b: Vec<i32> = c.b.iter().map(|&x| to_i32(x)).collect();
            Ok(Out::ints(s.merge_sorted_i32(&a, &b).iter().map(|&x| from_i32(x)).collect()))
        }
        "simd/multi" => {
            let input: Vec<Vec<i32>> = c.runs.iter().map(|r| r.iter().map(|&x| to_i32(x)).collect()).collect();
            Ok(Out::ints(SimdOperations::merge_multiple_sorted(input).iter().map(|&x| from_i32(x)).collect()))
        }
        "set/ms_inter" => Ok(Out::ints(set_ops::multiset_intersection(&c.a, &c.b, ucmp))),
        "set/ms_1small_inter" => Ok(Out::ints(set_ops::multiset_1small_intersection(&c.a, &c.b, ucmp))),
        "set/ms_fast_inter" => Ok(Out::ints(set_ops::multiset_fast_intersection(&c.a, &c.b, ucmp, c.pp(0) as usize))),
        "set/ms_inter2" => Ok(Out::ints(set_ops::multiset_intersection2(&c.a, &c.b, ucmp))),
        "set/ms_1small_inter2" => Ok(Out::ints(set_ops::multiset_1small_intersection2(&c.a, &c.b, ucmp))),
        "set/ms_fast_inter2" => Ok(Out::ints(set_ops::multiset_fast_intersection2(&c.a, &c.b, ucmp, c.pp(0) as usize))),
        "set/ms_union" => Ok(Out::ints(set_ops::multiset_union(&c.a, &c.b, ucmp))),
        "set/ms_diff" => Ok(Out::ints(set_ops::multiset_difference(&c.a, &c.b, ucmp))),
        "set/unique" => {
            let mut d = c.a.clone();
            let n = set_ops::set_unique(&mut d, |x, y| x == y);
            let mut d2 = c.a.clone();
            let n2 = set_ops::set_unique_default(&mut d2);
            if n > d.len() || n2 > d2.len() { return Err(format!("set_unique returned {} / {} for a slice of {}", n, n2, d.len())); }
            d.truncate(n);
            d2.truncate(n2);
            Ok(Out { ints: d, aux: d2, ..Default::default() })
        }
        "set/inter" => Ok(Out::ints(set_ops::set_intersection(&c.a, &c.b, ucmp))),
        "set/union" => Ok(Out::ints(set_ops::set_union(&c.a, &c.b, ucmp))),
        "set/diff" => Ok(Out::ints(set_ops::set_difference(&c.a, &c.b, ucmp))),
        "kway/inter" | "kway/union" => {
            let cfg = SetOperationsConfig { use_bit_mask_optimization: c.pp(0) != 0, bit_mask_threshold: c.pp(1) as usize, ..Default::default() };
            let mut s = SetOperations::with_config(cfg);
            let its: Vec<std::vec::IntoIter<u64>> = c.runs.iter().cloned().map(|r| r.into_iter()).collect();
            let r = if cell == "kway/inter" { s.intersection(its) } else { s.union(its) };
            Ok(Out::ints(r.map_err(|e| e.to_string())?))
        }
        "kway/filter_merge" => {
            let mut s = SetOperations::new();
            let its: Vec<std::vec::IntoIter<u64>> = c.runs.iter().cloned().map(|r| r.into_iter()).collect();
            Ok(Out::ints(s.filter_merge(its, |_| true).map_err(|e| e.to_string())?))
        }
        _ => Err(format!("unknown cell {}", cell)),
    }
}

/// Cells whose failure mode on a broken tree is a process abort (stack overflow, allocation failure).
fn needs_isolation(c: &Case) -> bool {
    match c.cell.as_str() {
        "co/sort" | "co/oblivious" | "co/sort_u8" | "co/default" => true,
        // every other CacheObliviousSort cell (element types, histories, execute)
        s if s.starts_with("co/") => true,
        // recursion depth of the byte-string MSD sort
        "radix/bytes_deep" => true,
        // counting sort sizes its table by the largest value
        "radix/u32" | "radix/u32_execute" => c.xs.iter().any(|&x| x >= (1 << 22)) && c.xs.len() <= c.pp(3) as usize,
        _ => false,
    }
}

/// Run the case in a child process under an address-space limit; a crash becomes Err.
fn isolated(cx: &Ctx, c: &Case) -> Result<Result<Out, String>, String> {
    let dir = format!("{}/child", cx.out);
    let _ = std::fs::create_dir_all(&dir);
    let f = format!("{}/case.json", dir);
    let mut cj = c.json();
    cj["child"] = json!(1);
    std::fs::write(&f, serde_json::to_string(&json!({"case": cj})).unwrap()).unwrap();
    let resf = format!("{}/child.json", dir);
    let _ = std::fs::remove_file(&resf);
    let exe = std::env::current_exe().map_err(|e| e.to_string())?;
    let mut child = std::process::Command::new(exe)
        .args(["C11", "--seed", "0", "--tier", "quick", "--out", &dir, "--replay", &f])
        .stdout(std::process::Stdio::null()).stderr(std::process::Stdio::null())
        .spawn().map_err(|e| e.to_string())?;
    let t0 = std::time::Instant::now();
    let status = loop {
        match child.try_wait() {
            Ok(Some(s)) => break s,
            Ok(None) => {
                if t0.elapsed().as_secs() > 60 {
                    let _ = child.kill();
                    let _ = child.wait();
                    return Err("child process did not finish within 60 s".to_string());
                }
                std::thread::sleep(std::time::Duration::from_millis(2));
            }
            Err(e) => return Err(e.to_string()),
        }
    };
    match std::fs::read_to_string(&resf) {
        Ok(txt) => {
            let v: Value = serde_json::from_str(&txt).map_err(|e| e.to_string())?;
            if let Some(p) = v.get("panic") { return Err(p.as_str().unwrap_or("panic").to_string()); }
            if let Some(e) = v.get("err") { return Ok(Err(e.as_str().unwrap_or("error").to_string())); }
            Ok(Ok(Out::from_json(&v["ok"])))
        }
        Err(_) => {
            use std::os::unix::process::ExitStatusExt;
            Err(format!("process died: signal {:?} exit {:?} (stack overflow / allocation failure)", status.signal(), status.code()))
        }
    }
}
fn child_main(c: &Case, args: &Args, tmp: &PathBuf) {
    unsafe {
        let lim = libc::rlimit { rlim_cur: 6 << 30, rlim_max: 6 << 30 };
        libc::setrlimit(libc::RLIMIT_AS, &lim);
    }
    let r = guarded(|| exec(c, tmp));
    let v = match r {
        Err(p) => json!({"panic": p}),
        Ok(Err(e)) => json!({"err": e}),
        Ok(Ok(o)) => json!({"ok": o.json()}),
    };
    std::fs::write(format!("{}/child.json", args.out), serde_json::to_string(&v).unwrap()).unwrap();
}

// ---------------------------------------------------------------------------
// the oracle: textbook definitions, written independently of the code under test
// ---------------------------------------------------------------------------
fn sorted(v: &[u64]) -> Vec<u64> { let mut s = v.to_vec(); s.sort(); s }
fn is_sorted(v: &[u64]) -> bool { v.windows(2).all(|w| w[0] <= w[1]) }
fn ref_inter_first(a: &[u64], b: &[u64]) -> Vec<u64> {
    // std two-pointer scan that keeps the element of the first sequence and does not consume the second
    let (mut i, mut j, mut r) = (0, 0, vec![]);
    while i < a.len() && j < b.len() {
        if a[i] < b[j] { i += 1 } else if a[i] > b[j] { j += 1 } else { r.push(a[i]); i += 1 }
    }
    r
}
fn ref_union(a: &[u64], b: &[u64]) -> Vec<u64> {
    let (mut i, mut j, mut r) = (0, 0, vec![]);
    while i < a.len() && j < b.len() {
        if a[i] < b[j] { r.push(a[i]); i += 1 } else if a[i] > b[j] { r.push(b[j]); j += 1 } else { r.push(a[i]); r.push(b[j]); i += 1; j += 1 }
    }
    r.extend_from_slice(&a[i..]);
    r.extend_from_slice(&b[j..]);
    r
}
fn ref_diff(a: &[u64], b: &[u64]) -> Vec<u64> {
    let (mut i, mut j, mut r) = (0, 0, vec![]);
    while i < a.len() && j < b.len() {
        if a[i] < b[j] { r.push(a[i]); i += 1 } else if a[i] > b[j] { j += 1 } else { i += 1; j += 1 }
    }
    r.extend_from_slice(&a[i..]);
    r
}
fn ref_unique(a: &[u64]) -> Vec<u64> { let mut r = a.to_vec(); r.dedup(); r }
/// k-way intersection: an element is reported as often as its least multiplicity over the ways
fn ref_kway_inter(runs: &[Vec<u64>]) -> Vec<u64> {
    if runs.is_empty() { return vec![]; }
    let mut acc = runs[0].clone();
    for r in &runs[1..] {
        let (mut i, mut j, mut o) = (0, 0, vec![]);
        while i < acc.len() && j < r.len() {
            if acc[i] < r[j] { i += 1 } else if acc[i] > r[j] { j += 1 } else { o.push(acc[i]); i += 1; j += 1 }
        }
        acc = o;
    }
    acc
}
fn concat(runs: &[Vec<u64>]) -> Vec<u64> { runs.iter().flat_map(|r| r.iter().cloned()).collect() }

/// Class predicates of the recorded findings (see findings/C11.txt).
fn known_class(c: &Case) -> Option<&'static str> {
    match c.cell.as_str() {
        // RadixString::extract_key packs only the first 8 bytes (zero padded); every comparison that goes
        // through the key cannot order strings whose keys coincide
        "adv/str" => {
            let mut keys: Vec<(Vec<u8>, &Vec<u8>)> = c.strs.iter().map(|s| { let mut k = s.iter().take(8).cloned().collect::<Vec<u8>>(); k.resize(8, 0); (k, s) }).collect();
            keys.sort();
            // only the LSD path (forced, non-adaptive, or chosen adaptively) still sorts by the key alone
            let may_be_lsd = matches!(c.pp(0), 0 | 3 | 5 | 6);
            if may_be_lsd && keys.windows(2).any(|w| w[0].0 == w[1].0 && w[0].1 != w[1].1) { Some("string_lsd_key_collision") } else { None }
        }
        "ext/rev" => Some("extsort_comparator_not_ord"),
        s if wide::handles(s) => wide::known_class(c),
        "kway/inter" => {
            // the bit mask is a u32: since fix 6e4ef32 more than 32 ways take the general path whatever the threshold says
            let general = c.pp(0) == 0 || c.runs.len() > (c.pp(1) as usize).min(32);
            if general && c.runs.iter().any(|r| r.windows(2).any(|w| w[0] == w[1])) { Some("kway_general_duplicates") } else { None }
        }
        _ => None,
    }
}

impl Ctx {
    fn coq(&mut self, op: u32, ps: &[u64], ins: &[&[u64]], expect: &[u64], c: &Case, force: bool) {
        self.coq_f(op, 0, 1, ps, ins, expect, c, force)
    }
    /// `flavour` of `flavours`: the op's share of the budget is split evenly between the code paths of one
    /// model (sequential / chunked, the strategy taken), so that the rarer paths are not crowded out.
    fn coq_f(&mut self, op: u32, flavour: u32, flavours: usize, ps: &[u64], ins: &[&[u64]], expect: &[u64], c: &Case, force: bool) {
        let size: usize = ins.iter().map(|v| v.len()).sum();
        // per-op share of the Coq budget (quick tier: the shares add up to about 1500 cases)
        let share: usize = match op {
            0 | 1 | 16 => 30, 2 => 40, 3 => 70, 4..=11 => 30, 12 => 60, 13 | 14 | 15 => 40, 17 => 40, 18 => 60,
            19..=22 => 45, 28 => 40, 29 => 150, 30 => 90, 31 | 32 => 60, 33 => 30, 34 | 35 => 40, 36 => 60,
            37 => 30, 38 => 20, 39 => 40, 40 => 10, 41 => 60,
            _ => 30,
        };
        let cap = share * self.budget / 1500 / flavours.max(1) + 1;
        // the chunked paths need inputs of at least twice the parallel threshold
        let max_size = match op { 29 | 31 | 32 => 130, 28 | 30 => 400, _ => 90 };
        let n = self.per_op.entry(op + 1000 * flavour).or_insert(0);
        if !force && (self.shards.len() >= self.budget || *n >= cap || size > max_size) { return; }
        // a replayed / corpus case is always emitted - unless it is a big input (Coq would not get through it)
        if size > 2000 { return; }
        *n += 1;
        let ins_s: Vec<String> = ins.iter().map(|v| coq_n_list(v.iter().map(|&x| x as u128))).collect();
        let term = format!("({}, {}, [{}], {})", op, coq_n_list(ps.iter().map(|&x| x as u128)), ins_s.join("; "),
                           coq_n_list(expect.iter().map(|&x| x as u128)));
        let mut cj = c.json();
        cj["coq_op"] = json!(op);
        cj["impl_obs"] = json!(expect);
        self.shards.push(term, cj);
    }
    fn fail(&mut self, c: &Case, detail: &str) {
        let class = known_class(c);
        self.sum.fail(&c.cell, class, c.json(), detail);
    }
}

fn run_case(cx: &mut Ctx, c: &Case, force: bool) {
    let cell = c.cell.clone();
    let total = c.xs.len() + c.a.len() + c.b.len() + c.runs.iter().map(|r| r.len()).sum::<usize>() + c.strs.len() + 2 * c.ops.len();
    cx.sum.eval(&cell, &c.key(), total >= 2);
    let tmp = cx.tmp.clone();
    let r = if needs_isolation(c) { cx.sum.dist("child_process_cases"); isolated(cx, c) } else { guarded(|| exec(c, &tmp)) };
    let out = match r {
        Err(p) => { cx.fail(c, &format!("panicked / aborted: {}", p)); return; }
        Ok(Err(e)) if wide::handles(&cell) => { cx.fail(c, &e); return; }
        Ok(Err(e)) => { cx.fail(c, &format!("returned an error where the property demands a result: {}", e)); return; }
        Ok(Ok(o)) => o,
    };
    if wide::handles(&cell) { return; }
    let family = cell.split('/').next().unwrap_or("");
    match family {
        "radix" | "adv" | "co" | "ext" | "kv" if cell != "radix/bytes" && cell != "adv/str" && cell != "radix/bytes_deep" => {
            let want = if cell == "ext/rev" { let mut s = sorted(&c.xs); s.reverse(); s } else { sorted(&c.xs) };
            if out.ints != want {
                let why = if out.ints.len() != want.len() { format!("length {} instead of {}", out.ints.len(), want.len()) }
                          else if !is_sorted(&out.ints) && cell != "ext/rev" { "output is not sorted".to_string() }
                          else { "output is not a permutation of the input".to_string() };
                cx.fail(c, &format!("{}: got {:?}", why, &out.ints[..out.ints.len().min(24)]));
                return;
            }
            if family == "kv" {
                // every key keeps its value: value i was attached to xs[i]
                let mut seen = vec![false; c.xs.len()];
                for (k, v) in out.ints.iter().zip(out.aux.iter()) {
                    let i = *v as usize;
                    let kk = if cell == "kv/u32" { c.xs.get(i).map(|&x| x as u32 as u64) } else { c.xs.get(i).copied() };
                    if i >= c.xs.len() || seen[i] || kk != Some(*k) {
                        cx.fail(c, &format!("key {} came out with value {} (pairing lost or value duplicated)", k, v));
                        return;
                    }
                    seen[i] = true;
                }
            }
            // model comparison
            let threads = cx.threads;
            let fits = |n: usize| c.xs.len() <= n;
            match cell.as_str() {
                "radix/u32" | "radix/u32_execute" => {
                    let par = c.pp(1) != 0 && c.xs.len() >= 2 * (c.pp(2) as usize).max(1) && c.xs.len() >= c.pp(2) as usize;
                    let small = c.xs.iter().all(|&x| x < 3000) || c.xs.len() > c.pp(3) as usize;
                    if cell == "radix/u32" && !par && c.pp(0) <= 8 && small { cx.coq(1, &[c.pp(0), c.pp(3)], &[&c.xs], &out.ints, c, force); }
                    // the whole entry point incl. the chunk + merge path; counting sort only on small values
                    // (its table has max+1 entries)
                    if c.pp(0) <= 8 && small && fits(if par { 120 } else { 40 }) {
                        cx.coq_f(31, par as u32, 2, &[c.pp(0), c.pp(3), c.pp(1), c.pp(2), threads], &[&c.xs], &out.ints, c, force);
                    } else if cell == "radix/u32_execute" { cx.coq(12, &[], &[&c.xs, &out.ints], &[1], c, force); }
                }
                "radix/u64" => {
                    let par = c.pp(1) != 0 && c.xs.len() >= 2 * (c.pp(2) as usize).max(1) && c.xs.len() >= c.pp(2) as usize;
                    if !par && c.pp(0) <= 8 && c.xs.len() <= 40 {
                        cx.coq(0, &[64, c.pp(0)], &[&c.xs], &out.ints, c, force);
                        cx.coq(33, &[64, c.pp(0)], &[&c.xs], &out.ints, c, force);
                    }
                    if c.pp(0) >= 3 && c.pp(0) <= 8 && fits(if par { 120 } else { 40 }) {
                        cx.coq_f(32, par as u32, 2, &[c.pp(0), c.pp(1), c.pp(2), threads], &[&c.xs], &out.ints, c, force);
                    }
                }
                "adv/u32" | "adv/u64" => {
                    let lsd = c.pp(0) == 3 || c.pp(0) == 6;
                    let par = c.pp(2) != 0 && c.xs.len() >= 2 * (c.pp(3) as usize).max(1) && c.xs.len() >= c.pp(3) as usize;
                    if lsd && !par && c.pp(1) <= 8 && c.xs.len() <= 40 { cx.coq(2, &[c.pp(1)], &[&c.xs], &out.ints, c, force); }
                    else if c.pp(0) == 1 { cx.coq(16, &[], &[&c.xs], &out.ints, c, force); }
                    // the whole dispatch: strategy selection, the strategy itself, and what stats() shows of the
                    // path taken (strategy_used, used_parallel).  LSD passes with a wide digit or many passes are
                    // too slow to evaluate in Coq: those cases only go through the verified checker.
                    let took_lsd = out.aux.get(0).copied() == Some(3);
                    // (a thread count near usize::MAX is a nat in the model's chunking: not evaluable)
                    let cheap = (!took_lsd || (c.pp(1) >= 3 && c.pp(1) <= 8)) && c.pp(4) <= 4096;
                    if cheap && fits(if took_lsd && out.aux.get(1).copied() == Some(1) { 120 } else { 48 }) {
                        let w = if cell == "adv/u32" { 4 } else { 8 };
                        let (force_s, adaptive) = (if c.pp(0) <= 5 { c.pp(0) } else { 0 }, (c.pp(0) != 6) as u64);
                        let nt = if c.pp(4) > 0 { c.pp(4) } else { threads };
                        let mut e = out.aux.clone();
                        e.extend_from_slice(&out.ints);
                        let fl = (out.aux.get(0).copied().unwrap_or(0) * 2 + out.aux.get(1).copied().unwrap_or(0)) as u32;
                        cx.coq_f(29, fl, 6, &[w, force_s, adaptive, c.pp(1), c.pp(2), c.pp(3), nt, c.pp(5)], &[&c.xs], &e, c, force);
                    } else { cx.coq(12, &[], &[&c.xs, &out.ints], &[1], c, force); }
                }
                "ext/sort" => {
                    let items = ((c.pp(0) / 8) as u64).max(1);
                    let mut e = vec![out.aux.get(0).copied().unwrap_or(0)];
                    e.extend_from_slice(&out.ints);
                    if items < 4000 {
                        cx.coq(13, &[items], &[&c.xs], &e, c, force);
                        // merging in passes of `merge_ways` runs must give the same result
                        cx.coq(34, &[items, c.pp(1)], &[&c.xs], &e, c, force);
                    }
                }
                "ext/rev" => {}
                "ext/vec" => {
                    // the Vec wrapper: std sort when the data fits the buffer, else replacement selection
                    if c.pp(0) / 8 < 4000 { cx.coq(38, &[c.pp(0)], &[&c.xs], &out.ints, c, force); }
                    else { cx.coq(12, &[], &[&c.xs, &out.ints], &[1], c, force); }
                }
                "kv/u32" | "kv/u64" => {
                    // keys and the values that came out with them (value i was attached to xs[i])
                    let keys: Vec<u64> = if cell == "kv/u32" { c.xs.iter().map(|&x| x as u32 as u64).collect() } else { c.xs.clone() };
                    let mut e = vec![1u64];
                    e.extend_from_slice(&out.ints);
                    e.extend_from_slice(&out.aux);
                    cx.coq(39, &[threads], &[&keys], &e, c, force);
                }
                "adv/u64_execute" => {
                    if fits(48) && c.pp(4) <= 4096 {
                        let (force_s, adaptive) = (if c.pp(0) <= 5 { c.pp(0) } else { 0 }, (c.pp(0) != 6) as u64);
                        let nt = if c.pp(4) > 0 { c.pp(4) } else { threads };
                        cx.coq(40, &[8, force_s, adaptive, c.pp(1), c.pp(2), c.pp(3), nt, c.pp(5)], &[&c.xs], &out.ints, c, force);
                    } else { cx.coq(12, &[], &[&c.xs, &out.ints], &[1], c, force); }
                }
                "co/sort" | "co/sort_u8" => {
                    // the whole entry point: strategy from the cache hierarchy, then insertion / quicksort / merge sort / funnel
                    let esz = if cell == "co/sort_u8" { 1 } else { 8 };
                    if fits(90) { cx.coq(41, &[c.pp(3), esz, c.pp(0), c.pp(1), c.pp(2), c.pp(5).max(1)], &[&c.xs], &out.ints, c, force); }
                    else { cx.coq(12, &[], &[&c.xs, &out.ints], &[1], c, force); }
                }
                "co/oblivious" => {
                    if fits(90) { cx.coq(35, &[c.pp(3), c.pp(1), c.pp(5).max(1)], &[&c.xs], &out.ints, c, force); }
                    else { cx.coq(12, &[], &[&c.xs, &out.ints], &[1], c, force); }
                }
                _ => cx.coq(12, &[], &[&c.xs, &out.ints], &[1], c, force),
            }
        }
        "radix" | "adv" => {
            // byte strings
            let mut want = c.strs.clone();
            want.sort();
            if out.strs != want {
                cx.fail(c, &format!("byte strings not in sorted order / not a permutation: got {:?}", &out.strs[..out.strs.len().min(8)]));
            }
            // model comparison (also for the recorded LSD finding: the model orders by the 8-byte key exactly as the code does)
            if cell != "radix/bytes_deep" && out.strs.len() == c.strs.len() && c.strs.len() <= 40 && c.strs.iter().all(|s| s.len() <= 24) {
                let ins: Vec<Vec<u64>> = c.strs.iter().map(|s| s.iter().map(|&b| b as u64).collect()).collect();
                let refs: Vec<&[u64]> = ins.iter().map(|v| v.as_slice()).collect();
                let mut e: Vec<u64> = vec![];
                if cell == "adv/str" { e.extend_from_slice(&out.aux); }
                for s in &out.strs { e.push(s.len() as u64); e.extend(s.iter().map(|&b| b as u64)); }
                if cell == "radix/bytes" { cx.coq(28, &[], &refs, &e, c, force); }
                else if c.pp(4) <= 4096 {
                    let (force_s, adaptive) = (if c.pp(0) <= 5 { c.pp(0) } else { 0 }, (c.pp(0) != 6) as u64);
                    let nt = if c.pp(4) > 0 { c.pp(4) } else { cx.threads };
                    let fl = (out.aux.get(0).copied().unwrap_or(0) * 2 + out.aux.get(1).copied().unwrap_or(0)) as u32;
                    cx.coq_f(30, fl, 6, &[force_s, adaptive, c.pp(1), c.pp(2), c.pp(3), nt, c.pp(5)], &refs, &e, c, force);
                }
            }
        }
        "mwm" | "lt" | "simd" | "merge" | "kway" if cell != "kway/inter" && cell != "kway/union" => {
            let all = if family == "merge" || cell == "simd/merge2" { let mut v = c.a.clone(); v.extend_from_slice(&c.b); v } else { concat(&c.runs) };
            let mut want = sorted(&all);
            if cell == "lt/rev" { want.reverse(); }
            if out.ints != want {
                cx.fail(c, &format!("merge is not the sorted union with duplicates kept: got {:?}", &out.ints[..out.ints.len().min(24)]));
                return;
            }
            let ins: Vec<&[u64]> = c.runs.iter().map(|r| r.as_slice()).collect();
            match cell.as_str() {
                "lt/merge" | "lt/iter" | "kway/filter_merge" => cx.coq(3, &[], &ins, &out.ints, c, force),
                "mwm/merge" | "mwm/execute" => {
                    if c.runs.len() >= 2 && c.pp(0) != 0 && c.runs.len() > 8 && c.runs.len() <= c.pp(1) as usize { cx.coq(3, &[], &ins, &out.ints, c, force) }
                    else { cx.coq(17, &[], &ins, &out.ints, c, force) }
                    // the dispatch of MultiWayMerge::merge itself (single source / hierarchical / tournament / heap)
                    cx.coq(36, &[c.pp(0), c.pp(1)], &ins, &out.ints, c, force);
                }
                "merge/two" | "merge/in_place" | "simd/merge2" => cx.coq(18, &[], &[&c.a, &c.b], &out.ints, c, force),
                "simd/multi" => cx.coq(37, &[], &ins, &out.ints, c, force),
                _ => {}
            }
        }
        "set" => {
            let (a, b) = (&c.a, &c.b);
            let flip = |x: &[u64], y: &[u64]| ref_inter_first(y, x);
            let (want, op, ps): (Vec<u64>, u32, Vec<u64>) = match cell.as_str() {
                "set/ms_inter" => (ref_inter_first(a, b), 4, vec![]),
                "set/ms_1small_inter" => (ref_inter_first(a, b), 19, vec![]),
                "set/ms_fast_inter" => (ref_inter_first(a, b), 21, vec![c.pp(0)]),
                "set/ms_inter2" => (flip(a, b), 5, vec![]),
                "set/ms_1small_inter2" => (flip(a, b), 20, vec![]),
                "set/ms_fast_inter2" => (flip(a, b), 22, vec![c.pp(0)]),
                "set/ms_union" => (ref_union(a, b), 6, vec![]),
                "set/ms_diff" => (ref_diff(a, b), 7, vec![]),
                "set/unique" => (ref_unique(a), 8, vec![]),
                "set/inter" => (ref_unique(&ref_inter_first(a, b)), 9, vec![]),
                "set/union" => (ref_unique(&ref_union(a, b)), 10, vec![]),
                _ => (ref_unique(&ref_diff(a, b)), 11, vec![]),
            };
            if out.ints != want {
                cx.fail(c, &format!("differs from the two-pointer definition: got {:?}, want {:?}", &out.ints[..out.ints.len().min(24)], &want[..want.len().min(24)]));
                return;
            }
            if cell == "set/unique" && out.aux != want {
                cx.fail(c, "set_unique_default differs from set_unique");
                return;
            }
            // on strictly increasing inputs the results are the mathematical set operations
            let strict = |v: &[u64]| v.windows(2).all(|w| w[0] < w[1]);
            if strict(a) && strict(b) {
                let sa: std::collections::BTreeSet<u64> = a.iter().cloned().collect();
                let sb: std::collections::BTreeSet<u64> = b.iter().cloned().collect();
                let math: Option<Vec<u64>> = match cell.as_str() {
                    "set/ms_inter" | "set/ms_1small_inter" | "set/ms_fast_inter" | "set/ms_inter2" | "set/ms_1small_inter2" | "set/ms_fast_inter2" | "set/inter" =>
                        Some(sa.intersection(&sb).cloned().collect()),
                    "set/union" => Some(sa.union(&sb).cloned().collect()),
                    "set/ms_diff" | "set/diff" => Some(sa.difference(&sb).cloned().collect()),
                    _ => None,
                };
                if let Some(m) = math { if m != out.ints { cx.fail(c, "differs from the mathematical set operation on strictly increasing inputs"); return; } }
            }
            cx.coq(op, &ps, &[a, b], &out.ints, c, force);
        }
        "kway" => {
            let ins: Vec<&[u64]> = c.runs.iter().map(|r| r.as_slice()).collect();
            if cell == "kway/inter" {
                let want = ref_kway_inter(&c.runs);
                if out.ints != want {
                    cx.fail(c, &format!("k-way intersection: got {:?}, want {:?}", &out.ints[..out.ints.len().min(24)], &want[..want.len().min(24)]));
                    return;
                }
                cx.coq(14, &[], &ins, &out.ints, c, force);
            } else {
                let want = ref_unique(&sorted(&concat(&c.runs)));
                if out.ints != want {
                    cx.fail(c, &format!("k-way union: got {:?}, want {:?}", &out.ints[..out.ints.len().min(24)], &want[..want.len().min(24)]));
                    return;
                }
                cx.coq(15, &[], &ins, &out.ints, c, force);
            }
        }
        _ => {}
    }
}

// ---------------------------------------------------------------------------
// generators
// ---------------------------------------------------------------------------
const LENS: [usize; 30] = [0, 1, 2, 3, 4, 5, 7, 8, 9, 15, 16, 17, 23, 31, 32, 33, 40, 63, 64, 65, 99, 100, 101, 128, 255, 256, 257, 300, 511, 1025];
fn boundary(bits: u32) -> Vec<u64> {
    let max = if bits == 64 { u64::MAX } else { (1u64 << bits) - 1 };
    let mut v = vec![0, 1, 2, max, max - 1, max / 2, max / 2 + 1];
    for k in [7u32, 8, 15, 16, 24, 31, 32, 33, 48, 56, 63] {
        if k < bits { let p = 1u64 << k; v.extend_from_slice(&[p - 1, p, p + 1]); }
    }
    v
}
fn gen_ints(r: &mut Rng, n: usize, bits: u32) -> Vec<u64> {
    let max = if bits == 64 { u64::MAX } else { (1u64 << bits) - 1 };
    let kind = r.below(12);
    let mut v: Vec<u64> = match kind {
        0 => (0..n).map(|_| r.next() & max).collect(),
        1 => { let m = r.range(1, 6); (0..n).map(|_| r.below(m)).collect() }
        2 => { let x = r.next() & max; vec![x; n] }
        3 | 4 => { let sh = r.below(bits as u64) as u32; (0..n).map(|_| (r.next() & max) >> sh).collect() }
        5 => { // values differing only in the highest byte(s)
            let low = r.next() & max & ((1u64 << (bits - 8)) - 1);
            let hb = (*r.pick(&[8u32, 8, 16, 4])).min(bits);
            (0..n).map(|_| ((r.below(1 << hb)) << (bits - hb)) | (low & ((1u64 << (bits - hb)) - 1))).collect()
        }
        6 => { let b = boundary(bits); (0..n).map(|_| *r.pick(&b)).collect() }
        7 => (0..n).map(|_| r.below(1 << 12)).collect(),
        8 => { // high word varies, low word constant or tiny
            (0..n).map(|_| (((r.next() & max) >> (bits / 2)) << (bits / 2)) | r.below(2)).collect()
        }
        9 => (0..n).map(|i| (i as u64).wrapping_mul(0x9E3779B97F4A7C15) & max).collect(),
        _ => (0..n).map(|_| r.next() & max).collect(),
    };
    for x in v.iter_mut() { *x &= max; }
    match r.below(8) {
        0 => v.sort(),
        1 => { v.sort(); v.reverse(); }
        2 => { v.sort(); for _ in 0..(n / 16 + 1) { if n >= 2 { let i = r.below(n as u64) as usize; let j = r.below(n as u64) as usize; v.swap(i, j); } } }
        _ => {}
    }
    v
}
fn gen_len(r: &mut Rng, extra: &[usize]) -> usize {
    if !extra.is_empty() && r.chance(1, 2) {
        let t = *r.pick(extra);
        let d = r.below(5) as i64 - 2;
        (t as i64 + d).max(0) as usize
    } else { *r.pick(&LENS) }
}
fn gen_sorted(r: &mut Rng, n: usize, strict: bool) -> Vec<u64> {
    let mut v: Vec<u64> = match r.below(4) {
        0 => (0..n).map(|_| r.below(8)).collect(),
        1 => (0..n).map(|_| r.below(40)).collect(),
        2 => (0..n).map(|_| r.next()).collect(),
        _ => (0..n).map(|_| r.below(3)).collect(),
    };
    v.sort();
    if strict { v.dedup(); }
    v
}
fn gen_runs(r: &mut Rng, k: usize, maxlen: usize, bits: u32) -> Vec<Vec<u64>> {
    let small = r.chance(1, 2);
    (0..k).map(|_| {
        let n = if r.chance(1, 5) { 0 } else { r.below(maxlen as u64 + 1) as usize };
        let mut v: Vec<u64> = if small { (0..n).map(|_| r.below(6)).collect() } else { gen_ints(r, n, bits) };
        v.sort();
        v
    }).collect()
}
fn gen_strs(r: &mut Rng, n: usize, long_prefix: bool) -> Vec<Vec<u8>> {
    let alpha: u64 = *r.pick(&[2u64, 3, 256]);
    let prefix: Vec<u8> = if long_prefix { let l = r.range(6, 12) as usize; (0..l).map(|_| b'a' + r.below(2) as u8).collect() } else { vec![] };
    (0..n).map(|_| {
        let l = r.below(if long_prefix { 5 } else { 7 }) as usize;
        let mut s = if r.chance(3, 4) { prefix.clone() } else { prefix[..prefix.len() / 2].to_vec() };
        s.extend((0..l).map(|_| if alpha == 256 { r.next() as u8 } else { r.below(alpha) as u8 }));
        s
    }).collect()
}

fn all_cases(cx: &mut Ctx, thorough: bool) -> Vec<Case> {
    let mut cases: Vec<Case> = vec![];
    let mut r = cx.rng.clone();
    let scale = if thorough { 12 } else { 1 };

    // ---- RadixSort u32 / u64: every radix width, parallel on/off, thresholds ----
    for rb in 1..=16u64 {
        for rep in 0..(4 * scale) {
            for (cell, bits) in [("radix/u32", 32u32), ("radix/u64", 64u32)] {
                let pt = *r.pick(&[4u64, 16, 50, 10_000]);
                let ct = *r.pick(&[0u64, 8, 256]);
                let par = r.chance(1, 2) as u64;
                let n = gen_len(&mut r, &[pt as usize, 2 * pt as usize, ct as usize]);
                let n = if rb >= 12 && rep > 0 { n.min(64) } else { n };
                let mut c = Case::new(cell, &[rb, par, pt, ct, r.below(2)]);
                c.xs = gen_ints(&mut r, n, bits);
                cases.push(c);
            }
        }
    }
    for _ in 0..(20 * scale) {
        let mut c = Case::new("radix/u32_execute", &[8, 1, *r.pick(&[8u64, 10_000]), *r.pick(&[0u64, 256]), 1]);
        let n = gen_len(&mut r, &[16, 256]);
        c.xs = gen_ints(&mut r, n, 32);
        cases.push(c);
    }
    // large inputs through the default configuration (parallel path with the real thread pool)
    for (cell, bits) in [("radix/u32", 32u32), ("radix/u64", 64u32)] {
        let mut c = Case::new(cell, &[8, 1, 10_000, 256, 1]);
        c.xs = gen_ints(&mut r, 20_003, bits);
        cases.push(c);
    }
    // ---- the chunk + merge paths on inputs small enough for the Coq model: len just above 2 * threshold, so that the
    //      chunk size (ceil(len / threads)) leaves a shorter last chunk, divides the length exactly, or exceeds it ----
    for k in 0..(24 * scale) {
        let pt = *r.pick(&[2u64, 4, 8, 16, 40]);
        let rb = r.range(3, 8);
        let n = (2 * pt + *r.pick(&[0u64, 1, 2, 3, 5, 9, 17])) as usize;
        for (cell, bits) in [("radix/u32", 32u32), ("radix/u64", 64u32)] {
            let mut c = Case::new(cell, &[rb, 1, pt, *r.pick(&[0u64, 8]), r.below(2)]);
            c.xs = gen_ints(&mut r, n, bits);
            cases.push(c);
        }
        for (cell, bits) in [("adv/u32", 32u32), ("adv/u64", 64u32)] {
            let strat = *r.pick(&[3u64, 6, 0, 5]);
            let nt = *r.pick(&[0u64, 1, 2, 3, 5, 7, 64]);
            let mut c = Case::new(cell, &[strat, rb, 1, pt, nt, *r.pick(&[0u64, 4]), r.below(2), 0]);
            c.xs = gen_ints(&mut r, n, bits);
            if k % 3 == 0 { c.xs.iter_mut().for_each(|x| *x >>= bits - 16); }
            cases.push(c);
        }
        let mut c = Case::new("adv/str", &[*r.pick(&[3u64, 6]), 8, 1, pt, *r.pick(&[0u64, 2, 3]), 2, r.below(2), 0]);
        c.strs = gen_strs(&mut r, n.min(40), k % 2 == 0);
        cases.push(c);
    }
    // ---- byte strings ----
    for k in 0..(40 * scale) {
        let mut c = Case::new("radix/bytes", &[8, 0, 10_000, 256, 0]);
        let n = gen_len(&mut r, &[2, 10]).min(300);
        c.strs = gen_strs(&mut r, n, k % 3 == 0);
        cases.push(c);
    }
    // long common prefixes: the recursion depth of sort_bytes must not grow with the prefix length
    for (plen, n) in [(150_000u64, 2usize), (40_000, 5), (300_000, 3)] {
        if !thorough && plen > 200_000 { continue; }
        let mut c = Case::new("radix/bytes_deep", &[8, 0, 10_000, 256, 0, plen, 97]);
        c.strs = (0..n).map(|i| if i % 2 == 0 { vec![] } else { vec![r.below(3) as u8; (i % 3) as usize] }).collect();
        cases.push(c);
    }
    // ---- key-value ----
    for _ in 0..(40 * scale) {
        for (cell, bits) in [("kv/u32", 32u32), ("kv/u64", 64u32)] {
            let mut c = Case::new(cell, &[]);
            let n = gen_len(&mut r, &[256]).min(400);
            c.xs = gen_ints(&mut r, n, bits);
            cases.push(c);
        }
    }
    // ---- AdvancedRadixSort: every forced strategy x radix width x parallel on/off ----
    for strat in 0..=6u64 {
        for rb in [1u64, 2, 3, 4, 5, 7, 8, 9, 11, 12, 13, 16] {
            for rep in 0..(2 * scale) {
                for (cell, bits) in [("adv/u32", 32u32), ("adv/u64", 64u32)] {
                    let pt = *r.pick(&[4u64, 16, 50, 10_000]);
                    let it = *r.pick(&[0u64, 4, 16, 100]);
                    let par = r.chance(1, 2) as u64;
                    let nt = *r.pick(&[0u64, 1, 2, 3, 7]);
                    let n = gen_len(&mut r, &[pt as usize, 2 * pt as usize, it as usize, 16]);
                    let n = if rb >= 12 && rep > 0 { n.min(64) } else { n };
                    let mut c = Case::new(cell, &[strat, rb, par, pt, nt, it, r.below(2), (r.below(8) == 0) as u64]);
                    c.xs = gen_ints(&mut r, n, bits);
                    cases.push(c);
                }
            }
        }
    }
    for _ in 0..(6 * scale) {
        let mut c = Case::new("adv/u64_execute", &[*r.pick(&[0u64, 3, 4]), 8, 1, 16, 2, 4, 1, 0]);
        let n = gen_len(&mut r, &[16, 32]);
        c.xs = gen_ints(&mut r, n, 64);
        cases.push(c);
    }
    {
        let mut c = Case::new("adv/u64", &[0, 8, 1, 10_000, 0, 100, 1, 1]);
        c.xs = gen_ints(&mut r, 20_011, 64);
        cases.push(c);
    }
    for strat in 0..=6u64 {
        for k in 0..(6 * scale) {
            let it = *r.pick(&[0u64, 2, 16, 100]);
            let mut c = Case::new("adv/str", &[strat, 8, r.below(2), *r.pick(&[4u64, 10_000]), 2, it, r.below(2), 0]);
            let n = gen_len(&mut r, &[it as usize, 8]).min(200);
            c.strs = gen_strs(&mut r, n, k % 2 == 0);
            cases.push(c);
        }
    }
    // buckets larger than the insertion-sort cut-off whose FIRST element is exactly the bucket's common prefix (the string that
    // ends where the next radix level starts), at depths 0, 1, 3 and 9 - for every strategy, the MSD recursion in particular
    for strat in 0..=6u64 {
        for &it in &[0u64, 2, 16, 100] {
            for &d in &[0usize, 1, 3, 9] {
                if !thorough && (strat + it + d as u64) % 2 == 1 && strat != 4 { continue; }
                let mut c = Case::new("adv/str", &[strat, 8, 0, 10_000, 2, it, r.below(2), 0]);
                let prefix: Vec<u8> = (0..d).map(|i| b'a' + (i % 3) as u8).collect();
                let mut strs = vec![prefix.clone()];
                for _ in 0..(it as usize + 5) {
                    let mut t = prefix.clone();
                    let l = r.range(1, 4) as usize;
                    t.extend((0..l).map(|_| b'a' + r.below(3) as u8));
                    strs.push(t);
                }
                // a second bucket in front, so that the interesting one is not the whole input
                if d > 0 { strs.push(vec![b'A']); strs.push(vec![b'z', b'z']); }
                c.strs = strs;
                cases.push(c);
            }
        }
    }
    // ---- CacheObliviousSort: every strategy branch via small cache sizes ----
    for k in 0..(60 * scale) {
        let cell = *r.pick(&["co/sort", "co/sort", "co/oblivious", "co/sort_u8"]);
        let l1 = *r.pick(&[0u64, 64, 256, 32768]);
        let l2 = *r.pick(&[128u64, 1024, 4096, 262144]);
        let l3 = *r.pick(&[256u64, 2048, 16384, 8 << 20]);
        let st = *r.pick(&[0u64, 1, 2, 4, 16, 1024]);
        let line = *r.pick(&[64u64, 64, 16, 1024]);
        let mut c = Case::new(cell, &[l1, l2, l3, st, r.below(2), line]);
        let n = if k % 10 == 9 { 3000 + r.below(3000) as usize } else { gen_len(&mut r, &[st as usize, (l1 / 8) as usize, (l2 / 8) as usize, 16, 32]) };
        c.xs = gen_ints(&mut r, n, if cell == "co/sort_u8" { 8 } else { 64 });
        cases.push(c);
    }
    // the cache-aware branches on inputs small enough for the Coq model: quicksort needs 17+ elements that miss L1 and fit L2
    // (reached through CacheAware with an L1 of 8n bytes for u8 elements, or through Hybrid with an L3 below 8n bytes)
    for k in 0..(30 * scale) {
        let cell = if k % 3 == 0 { "co/sort_u8" } else { "co/sort" };
        let n = r.range(10, 80) as usize;
        let l1 = *r.pick(&[0u64, 16, 64, 128, 1024]);
        let l2 = *r.pick(&[64u64, 256, 1024, 4096]);
        let l3 = *r.pick(&[0u64, 64, 256, 2048, 8 << 20]);
        let mut c = Case::new(cell, &[l1, l2, l3, *r.pick(&[0u64, 2, 16]), r.below(2), *r.pick(&[64u64, 16])]);
        c.xs = gen_ints(&mut r, n, if cell == "co/sort_u8" { 8 } else { 64 });
        cases.push(c);
    }
    // funnel recursion on inputs small enough for the Coq model: several levels with small thresholds and widths
    for _ in 0..(30 * scale) {
        let st = *r.pick(&[0u64, 1, 2, 3, 4, 8]);
        let l2 = *r.pick(&[64u64, 128, 256, 1024, 4096, 262144]);
        let line = *r.pick(&[64u64, 16, 1, 1024]);
        let mut c = Case::new("co/oblivious", &[64, l2, 2048, st, r.below(2), line]);
        let n = r.range(0, 85) as usize;
        c.xs = gen_ints(&mut r, n, 64);
        cases.push(c);
    }
    {
        let mut c = Case::new("co/default", &[]);
        c.xs = gen_ints(&mut r, 5000, 64);
        cases.push(c);
        // beyond small_threshold * 1024 the funnel recursion reaches width 1
        let mut c = Case::new("co/default", &[]);
        c.xs = gen_ints(&mut r, 1_100_000, 64);
        c.xs.iter_mut().for_each(|x| *x >>= 20);
        cases.push(c);
    }
    // ---- ReplaceSelectSort: tiny buffers, every fan-in ----
    for _ in 0..(50 * scale) {
        let buf = *r.pick(&[0u64, 1, 7, 8, 9, 16, 24, 40, 64, 800, 1 << 20]);
        let ways = *r.pick(&[0u64, 1, 2, 3, 4, 16, 64]);
        let cell = *r.pick(&["ext/sort", "ext/sort", "ext/sort", "ext/vec", "ext/rev"]);
        let mut c = Case::new(cell, &[buf, ways, (r.below(6) == 0) as u64]);
        let n = gen_len(&mut r, &[(buf / 8) as usize, 2 * (buf / 8) as usize]).min(if buf < 64 { 120 } else { 400 });
        c.xs = gen_ints(&mut r, n, 64);
        cases.push(c);
    }
    // ---- MultiWayMerge heap / tournament / hierarchical; two-way merges ----
    for _ in 0..(70 * scale) {
        let tt = r.below(2);
        let mw = *r.pick(&[0u64, 1, 2, 3, 9, 1024]);
        let k = *r.pick(&[0usize, 1, 2, 3, 8, 9, 10, 17]);
        let cell = if r.chance(1, 6) { "mwm/execute" } else { "mwm/merge" };
        let mut c = Case::new(cell, &[tt, mw]);
        c.runs = gen_runs(&mut r, k, 6, if cell == "mwm/execute" { 32 } else { 64 });
        cases.push(c);
    }
    for _ in 0..(40 * scale) {
        for cell in ["merge/two", "merge/in_place"] {
            let mut c = Case::new(cell, &[]);
            let (na, nb) = (r.below(12) as usize, r.below(12) as usize);
            c.a = gen_sorted(&mut r, na, false);
            c.b = gen_sorted(&mut r, nb, false);
            cases.push(c);
        }
    }
    // ---- EnhancedLoserTree: 0..k ways, enumerated small universe + generated ----
    let seqs: Vec<Vec<u64>> = {
        let mut s = vec![vec![]];
        for a in 0..3u64 { s.push(vec![a]); for b in a..3u64 { s.push(vec![a, b]); } }
        s
    };
    for k in 0..=3usize {
        let total = seqs.len().pow(k as u32);
        for idx in 0..total {
            if k == 3 && !thorough && idx % 3 != (cx.rng.0 % 3) as usize { continue; }
            let mut c = Case::new("lt/merge", &[1, 1, 1, 0, 64, 2]);
            let mut q = idx;
            for _ in 0..k { c.runs.push(seqs[q % seqs.len()].clone()); q /= seqs.len(); }
            cases.push(c);
        }
    }
    for _ in 0..(90 * scale) {
        let k = *r.pick(&[0usize, 1, 2, 3, 4, 5, 8, 9, 16, 33]);
        let cell = *r.pick(&["lt/merge", "lt/merge", "lt/iter", "lt/rev"]);
        let mut c = Case::new(cell, &[r.below(2), r.below(2), r.below(2), (r.below(10) == 0) as u64, *r.pick(&[0u64, 1, 64]), r.below(4)]);
        c.runs = gen_runs(&mut r, k, 5, 64);
        if cell == "lt/rev" { for run in c.runs.iter_mut() { run.reverse(); } }
        cases.push(c);
    }
    // ---- SIMD merge ----
    for _ in 0..(60 * scale) {
        let mut c = Case::new("simd/merge2", &[r.below(2), *r.pick(&[0u64, 1, 4, 8])]);
        let (na, nb) = (*r.pick(&[0usize, 1, 3, 7, 8, 9, 15, 16, 17, 24, 40]), *r.pick(&[0usize, 1, 5, 8, 9, 16, 17, 31, 33]));
        c.a = sorted(&gen_ints(&mut r, na, 32));
        c.b = sorted(&gen_ints(&mut r, nb, 32));
        cases.push(c);
        if r.chance(1, 3) {
            let mut c = Case::new("simd/multi", &[]);
            let k = *r.pick(&[0usize, 1, 2, 3, 4, 5, 7]);
            c.runs = gen_runs(&mut r, k, 20, 32);
            cases.push(c);
        }
    }
    // ---- set_ops: all thirteen functions ----
    let set_cells = ["set/ms_inter", "set/ms_1small_inter", "set/ms_fast_inter", "set/ms_inter2", "set/ms_1small_inter2",
                     "set/ms_fast_inter2", "set/ms_union", "set/ms_diff", "set/unique", "set/inter", "set/union", "set/diff"];
    for k in 0..(45 * scale) {
        let strict = k % 3 == 0;
        let (na, nb) = (r.below(10) as usize, if r.chance(1, 4) { 40 + r.below(60) as usize } else { r.below(12) as usize });
        let a = gen_sorted(&mut r, na, strict);
        let b = gen_sorted(&mut r, nb, strict);
        let th = *r.pick(&[0u64, 1, 2, 32]);
        for cell in set_cells {
            let mut c = Case::new(cell, &[th]);
            c.a = a.clone();
            c.b = b.clone();
            cases.push(c);
            let mut c = Case::new(cell, &[th]);
            c.a = b.clone();
            c.b = a.clone();
            cases.push(c);
        }
    }
    // ---- SetOperations: k-way intersection (bit mask / general) and union ----
    for i in 0..(80 * scale) {
        let k = *r.pick(&[0usize, 1, 2, 3, 4, 5, 31, 32, 33, 40]);
        let strict = i % 4 != 0;
        let bm = r.below(2);
        let th = *r.pick(&[0u64, 2, 32, 64]);
        let runs: Vec<Vec<u64>> = (0..k).map(|_| { let n = r.below(9) as usize; let mut v: Vec<u64> = (0..n).map(|_| r.below(7)).collect(); v.sort(); if strict { v.dedup(); } v }).collect();
        for cell in ["kway/inter", "kway/union", "kway/filter_merge"] {
            let mut c = Case::new(cell, &[bm, th]);
            c.runs = runs.clone();
            cases.push(c);
        }
    }
    wide::cases(&mut r, thorough, &mut cases);
    cx.rng = r;
    // small cases first: the first unlisted failure is the one that gets shrunk
    cases.sort_by_key(|c| (c.xs.len() > 2000 || !c.gen.is_empty()) as u8);
    cases
}

/// The case the main thread is working on, for the watchdog: a library call that never returns (an endless merge
/// loop, say) must end as a failure with a replay, not as a harness that hangs until the check's time-out.
static CURRENT: std::sync::Mutex<Option<(std::time::Instant, String)>> = std::sync::Mutex::new(None);
const RULE: &str = "every public sort / merge / set-operation entry point x configuration (radix width 1..16, forced strategy, parallel on/off with small thresholds, thread counts, cache sizes, buffer sizes, fan-in) on boundary-biased inputs (empty, singleton, all equal, sorted, reversed, nearly sorted, high-byte-only differences, 2^k +-1, lengths around the thresholds); loser tree enumerated over 0..3 ways of sorted sequences of length <= 2 over a 3-value alphabet; a case is non-trivial when it has >= 2 input elements; distinct = distinct (cell, configuration, input)";
fn watch(c: &Case) { *CURRENT.lock().unwrap() = Some((std::time::Instant::now(), c.json().to_string())); }
fn unwatch() { *CURRENT.lock().unwrap() = None; }
fn start_watchdog(out: String, limit_s: u64, tmp: PathBuf) {
    std::thread::spawn(move || loop {
        std::thread::sleep(std::time::Duration::from_millis(250));
        let hung = match &*CURRENT.lock().unwrap() { Some((t0, cj)) if t0.elapsed().as_secs() >= limit_s => Some(cj.clone()), _ => None };
        if let Some(cj) = hung {
            let v: Value = serde_json::from_str(&cj).unwrap_or(json!({}));
            let c = Case::from_json(&v);
            let mut sum = Summary::new("C11", RULE);
            sum.eval(&c.cell, &c.key(), true);
            sum.fail(&c.cell, known_class(&c), v, &format!("the call did not return within {} s (endless loop) where the property demands a result", limit_s));
            sum.write(&out, vec![]);
            let _ = std::fs::remove_dir_all(&tmp);
            std::process::exit(0);
        }
    });
}

pub fn run(args: &Args) {
    let tmp = {
        let base = if std::path::Path::new("/dev/shm").is_dir() { PathBuf::from("/dev/shm") } else { PathBuf::from(&args.out) };
        let d = base.join(format!("zv_c11_{}", std::process::id()));
        let _ = std::fs::create_dir_all(&d);
        d
    };
    // child mode: run one case's implementation call and report
    if let Some(f) = &args.replay {
        let txt = std::fs::read_to_string(f).expect("replay file");
        let v: Value = serde_json::from_str(&txt).expect("replay json");
        let cv = if v.get("case").is_some() { v["case"].clone() } else { v };
        if cv.get("child").is_some() {
            child_main(&Case::from_json(&cv), args, &tmp);
            let _ = std::fs::remove_dir_all(&tmp);
            return;
        }
    }
    let mut cx = Ctx {
        sum: Summary::new("C11", RULE),
        shards: CoqShards::new(HEADER, 300),
        budget: if args.thorough { 6000 } else { 1500 },
        per_op: Default::default(),
        rng: Rng::new(args.seed),
        tmp: tmp.clone(),
        out: args.out.clone(),
        threads: pool_threads(),
    };
    let limit = std::env::var("ZV_C11_WATCHDOG").ok().and_then(|s| s.parse().ok()).unwrap_or(if args.replay.is_some() { 20 } else { 60 });
    start_watchdog(args.out.clone(), limit, tmp.clone());
    if let Some(f) = &args.replay {
        let txt = std::fs::read_to_string(f).expect("replay file");
        let v: Value = serde_json::from_str(&txt).expect("replay json");
        let cv = if v.get("case").is_some() { v["case"].clone() } else { v };
        let c = Case::from_json(&cv);
        watch(&c);
        run_case(&mut cx, &c, true);
        unwatch();
        let sh = cx.shards.write(&args.out);
        cx.sum.write(&args.out, sh);
        let _ = std::fs::remove_dir_all(&tmp);
        return;
    }
    // corpus first
    let corpus = std::env::current_dir().map(|d| d.join("corpus/C11")).unwrap_or_else(|_| PathBuf::from("corpus/C11"));
    if let Ok(rd) = std::fs::read_dir(&corpus) {
        let mut files: Vec<_> = rd.filter_map(|e| e.ok()).map(|e| e.path()).filter(|p| p.extension().map(|e| e == "json").unwrap_or(false)).collect();
        files.sort();
        for p in files {
            if let Ok(txt) = std::fs::read_to_string(&p) {
                if let Ok(v) = serde_json::from_str::<Value>(&txt) {
                    let cv = if v.get("case").is_some() { v["case"].clone() } else { v };
                    let c = Case::from_json(&cv);
                    watch(&c);
                    run_case(&mut cx, &c, true);
                    unwatch();
                    cx.sum.dist("corpus_cases");
                }
            }
        }
    }
    let cases = all_cases(&mut cx, args.thorough);
    // spread the Coq budget over the cells: visit cases in an interleaved order for emission purposes
    let mut fam_ms: std::collections::BTreeMap<String, u128> = Default::default();
    for (i, c) in cases.iter().enumerate() {
        let t0 = std::time::Instant::now();
        watch(c);
        run_case(&mut cx, c, false);
        unwatch();
        *fam_ms.entry(c.cell.split('/').next().unwrap_or("").to_string()).or_insert(0) += t0.elapsed().as_micros();
        if i % 97 == 0 { cx.sum.sample(json!({"cell": c.cell, "cfg": c.p, "n": c.xs.len() + c.a.len() + c.b.len() + c.runs.len() + c.strs.len()})); }
        cx.sum.dist(&format!("family={}", c.cell.split('/').next().unwrap_or("")));
    }
    for cell in ["co/default", "ext/rev", "lt/rev", "radix/bytes_deep"] {
        cx.sum.cell_status(cell, "S-only");
    }
    for cell in wide::CELLS { cx.sum.cell_status(cell, "S-only"); }
    for cell in ["adv/str", "ext/rev", "kway/inter"] { cx.sum.cell_status(cell, "finding"); }
    if std::env::var("ZV_C11_TIMING").is_ok() { eprintln!("family time (us): {:?}", fam_ms); }
    cx.sum.dist_max("coq_cases", cx.shards.len() as u64);
    cx.sum.dist_max("rayon_threads", cx.threads);
    let sh = cx.shards.write(&args.out);
    cx.sum.write(&args.out, sh);
    let _ = std::fs::remove_dir_all(&tmp);
}
