//! C05: a trie is exactly the set of keys inserted and not removed.
//!
//! Oracle: every history of insert/remove/lookup ops is run against the real code and against a
//! `BTreeSet<Vec<u8>>`; after every mutation `len` and `contains` of every key of the history are
//! compared, explicit query ops compare keys()/keys_with_prefix()/accepts()/lookup()/longest_prefix().
//! Cells: every ZiporaTrieConfig preset, the legacy wrapper types, the alias types, the DAWG types
//! that implement `Trie`, and the ParallelLoudsTrie front end.
//! Model comparison (Coq): Patricia presets (node-vector model, all ops), sparse preset (same model,
//! remove = no-op, and the hash-map model of ModelCs.v), LOUDS preset (flat length-prefixed list model),
//! critical-bit preset (stub model), double-array cells (base/check model of ModelDa.v incl. relocation).
use crate::util::*;
use serde_json::{json, Value};
use std::collections::BTreeSet;
use zipora::concurrency::parallel_trie::{ParallelLoudsTrie, ParallelTrieBuilder, ParallelTrieOps};
use zipora::fsa::nested_louds_trie::NestedLoudsTrieBuilder;
use zipora::fsa::{
    BitVectorType, CacheStrategy, CompressedSparseTrie, CompressionStrategy, ConcurrencyLevel, DawgConfig, DoubleArrayTrie,
    DoubleArrayTrieBuilder, DoubleArrayTrieConfig, FiniteStateAutomaton, FsaCacheConfig, NestedLoudsTrie, NestedTrieDawg,
    NestingConfig, PrefixIterable, RankSelectType, SimpleDawg, StorageStrategy, Trie, TrieStrategy, VersionManager, ZiporaTrie,
    ZiporaTrieConfig,
};
use zipora::memory::{SecureMemoryPool, SecurePoolConfig};
use zipora::succinct::RankSelectInterleaved256;

const HEADER: &str = r#"From ZV.Common Require Import Base Run.
From ZV.C05 Require Import Model ModelAll.
Open Scope N_scope.
Definition case_t : Type := N * list (N * list N) * list (list (list N)).
Fixpoint eqb_lln (a b : list (list N)) : bool :=
  match a, b with
  | [], [] => true
  | x :: a', y :: b' => eqb_ln x y && eqb_lln a' b'
  | _, _ => false
  end.
Fixpoint eqb_llln (a b : list (list (list N))) : bool :=
  match a, b with
  | [], [] => true
  | x :: a', y :: b' => eqb_lln x y && eqb_llln a' b'
  | _, _ => false
  end.
Definition ok (c : case_t) : bool := let '(kind, ops, expect) := c in eqb_llln (run_cell2 kind ops) expect.
"#;

// op codes shared with coq/C05/Model.v
const INS: u64 = 0;
const REM: u64 = 1;
const HAS: u64 = 2;
const LEN: u64 = 3;
const KEYS: u64 = 4;
const PRE: u64 = 5;
const ACC: u64 = 6;
const LP: u64 = 7;
const CLONE: u64 = 8; // trie = trie.clone(); the model treats it as a no-op (code 9)
const SHRINK: u64 = 10; // shrink_to_fit() / refresh_replicas(): housekeeping that must not change the set; the models have no such step (code 9)
// ---- oracle breadth: secondary entry points. None of them is a step of the Coq models: INS_ID is replayed as an insert (code 0),
// every other one as a no-op (code 9) - they do not change the set, and the models' answers do not depend on the layout.
const INS_ID: u64 = 11; // insert through the second door: insert_and_get_node_id / Trie::insert of a wrapper / insert_with_token / bulk_insert([k])
const HAS2: u64 = 12; // every other door to membership: Trie::contains, Trie::lookup, lookup(), *_with_token, parallel_contains, parallel_process
const KEYS2: u64 = 13; // PrefixIterable::iter_all / parallel_prefix_search([""])
const PRE2: u64 = 14; // PrefixIterable::iter_prefix / parallel_prefix_search([p, p])
const FSAWALK: u64 = 15; // the language of the automaton view: DFS over root()/transitions()/is_final(), transitions() against transition()
const NODEID: u64 = 16; // lookup_node_id(k) and restore_string of the id
const DAWALK: u64 = 17; // a walk over the public double-array accessors (get_base / get_parent / get_check / is_free / is_terminal)
const REBUILD: u64 = 18; // the trie is replaced by one built in bulk from its own keys (builders, build_from_*, from_trie, merge_tries, config() round trip); key[0] selects the door
const CLEAR: u64 = 19; // clear(): the object is reused empty (NestedTrieDawg only)

#[derive(Clone, Copy, PartialEq, Debug)]
enum Kind { Patricia, Sparse, Louds, CritBit, DoubleArray, Dawg }

type Key = Vec<u8>;
type Op = (u64, Key);

/// Uniform face of everything the property names.  `None` = the type has no such operation.
trait Tr {
    fn insert(&mut self, k: &[u8]) -> Result<(), String>;
    fn remove(&mut self, _k: &[u8]) -> Option<Result<bool, String>> { None }
    fn contains(&self, k: &[u8]) -> bool;
    fn len(&self) -> usize;
    fn keys(&self) -> Option<Vec<Key>> { None }
    fn prefix(&self, _p: &[u8]) -> Option<Vec<Key>> { None }
    fn accepts(&self, _k: &[u8]) -> Option<bool> { None }
    fn lookup_some(&self, _k: &[u8]) -> Option<bool> { None }
    fn lp(&self, _q: &[u8]) -> Option<Option<usize>> { None }
    /// replace self by its Clone (ZiporaTrie::clone re-inserts keys() into a fresh trie)
    fn reclone(&mut self) -> bool { false }
    /// shrink_to_fit; false = the type has none
    fn shrink(&mut self) -> bool { false }
    /// the second insert door; Some(id) = the node id it reports
    fn insert_alt(&mut self, _k: &[u8]) -> Option<Result<Option<u32>, String>> { None }
    /// many keys through the bulk door of the type (default: one insert each)
    fn insert_many(&mut self, ks: &[Key]) -> Result<(), String> { for k in ks { self.insert(k)?; } Ok(()) }
    /// (door, answer, answered through the FSA view)
    fn contains_alt(&self, _k: &[u8]) -> Vec<(&'static str, bool, bool)> { vec![] }
    fn is_empty_all(&self) -> Vec<(&'static str, bool)> { vec![] }
    fn len_alt(&self) -> Vec<(&'static str, usize)> { vec![] }
    fn keys_alt(&self, _p: Option<&[u8]>) -> Option<Vec<Key>> { None }
    fn fsa(&self) -> Option<&dyn FiniteStateAutomaton> { None }
    /// (lookup_node_id(k), restore_string(that id))
    fn node_id(&self, _k: &[u8]) -> Option<(Option<u32>, Option<Key>)> { None }
    fn da_walk(&self, _k: &[u8]) -> Option<bool> { None }
    fn rebuild(&mut self, _keys: &[Key], _how: u64) -> Option<Result<(), String>> { None }
    fn clear(&mut self) -> bool { false }
}

fn es<E: std::fmt::Debug>(e: E) -> String { format!("{:?}", e) }

/// membership by hand over the accessors the double-array types publish
fn da_accessor_walk(k: &[u8], base: &dyn Fn(u32) -> u32, parent: &dyn Fn(u32) -> u32, check: &dyn Fn(u32) -> u32, free: &dyn Fn(u32) -> bool, term: &dyn Fn(u32) -> bool) -> bool {
    let mut s = 0u32;
    for &c in k {
        let n = match base(s).checked_add(c as u32) { Some(n) => n, None => return false };
        if n == 0 || free(n) || parent(n) != s || check(n) != s { return false; }
        s = n;
    }
    !free(s) && term(s)
}

fn trie_from(cfg: ZiporaTrieConfig, keys: &[Key], door: u64) -> Result<ZiporaTrie, String> {
    let mut t: ZiporaTrie = ZiporaTrie::with_config(cfg);
    for (i, k) in keys.iter().enumerate() {
        match (door + i as u64) % 3 { 0 => t.insert(k).map_err(es)?, 1 => { t.insert_and_get_node_id(k).map_err(es)?; } _ => { Trie::insert(&mut t, k).map_err(es)?; } }
    }
    Ok(t)
}

struct Z(ZiporaTrie, Kind);
impl Tr for Z {
    fn insert(&mut self, k: &[u8]) -> Result<(), String> { self.0.insert(k).map_err(|e| format!("{:?}", e)) }
    fn remove(&mut self, k: &[u8]) -> Option<Result<bool, String>> { Some(self.0.remove(k).map_err(|e| format!("{:?}", e))) }
    fn contains(&self, k: &[u8]) -> bool { self.0.contains(k) }
    fn len(&self) -> usize { self.0.len() }
    fn keys(&self) -> Option<Vec<Key>> { Some(self.0.keys()) }
    fn prefix(&self, p: &[u8]) -> Option<Vec<Key>> { Some(self.0.keys_with_prefix(p)) }
    fn accepts(&self, k: &[u8]) -> Option<bool> { Some(self.0.accepts(k)) }
    fn lookup_some(&self, k: &[u8]) -> Option<bool> { Some(Trie::lookup(&self.0, k).is_some()) }
    fn lp(&self, q: &[u8]) -> Option<Option<usize>> { Some(self.0.longest_prefix(q)) }
    fn reclone(&mut self) -> bool { self.0 = self.0.clone(); true }
    fn shrink(&mut self) -> bool { self.0.shrink_to_fit(); true }
    fn insert_alt(&mut self, k: &[u8]) -> Option<Result<Option<u32>, String>> { Some(self.0.insert_and_get_node_id(k).map(Some).map_err(es)) }
    /// ZiporaTrie::insert recomputes the statistics over all nodes after every call (quadratic on a big key set):
    /// a bulk load takes that door for its first keys and then alternates between the two other insert doors
    fn insert_many(&mut self, ks: &[Key]) -> Result<(), String> {
        for (i, k) in ks.iter().enumerate() {
            if i < 16 { self.0.insert(k).map_err(es)?; } else if i % 2 == 0 { self.0.insert_and_get_node_id(k).map_err(es)?; } else { Trie::insert(&mut self.0, k).map_err(es)?; }
        }
        Ok(())
    }
    fn contains_alt(&self, k: &[u8]) -> Vec<(&'static str, bool, bool)> {
        vec![("Trie::contains", Trie::contains(&self.0, k), false), ("Trie::lookup", Trie::lookup(&self.0, k).is_some(), true)]
    }
    fn is_empty_all(&self) -> Vec<(&'static str, bool)> { vec![("is_empty", self.0.is_empty()), ("Trie::is_empty", Trie::is_empty(&self.0))] }
    fn len_alt(&self) -> Vec<(&'static str, usize)> { vec![("Trie::len", Trie::len(&self.0)), ("stats().num_keys", self.0.stats().num_keys)] }
    fn keys_alt(&self, p: Option<&[u8]>) -> Option<Vec<Key>> {
        Some(match p { None => <ZiporaTrie as PrefixIterable>::iter_all(&self.0).collect(), Some(p) => <ZiporaTrie as PrefixIterable>::iter_prefix(&self.0, p).collect() })
    }
    fn fsa(&self) -> Option<&dyn FiniteStateAutomaton> { Some(&self.0) }
    fn node_id(&self, k: &[u8]) -> Option<(Option<u32>, Option<Key>)> { let id = self.0.lookup_node_id(k); Some((id, id.and_then(|i| self.0.restore_string(i)))) }
    fn da_walk(&self, k: &[u8]) -> Option<bool> {
        if self.1 != Kind::DoubleArray { return None; }
        let t = &self.0;
        Some(da_accessor_walk(k, &|s| t.get_base_double_array(s), &|s| t.get_parent_double_array(s), &|s| t.get_check_double_array(s), &|s| t.is_free_double_array(s), &|s| t.is_final(s)))
    }
    fn rebuild(&mut self, keys: &[Key], how: u64) -> Option<Result<(), String>> {
        // the critical-bit stub counts insert calls: a rebuilt trie would count differently, which says nothing about the property
        if self.1 == Kind::CritBit { return None; }
        let mut cfg = self.0.config().clone();
        if how % 2 == 1 {
            // the configuration is serialisable: a trie configured from the round trip is the same kind of trie
            match serde_json::to_string(&cfg).map_err(es).and_then(|s| serde_json::from_str::<ZiporaTrieConfig>(&s).map_err(es)) { Ok(c) => cfg = c, Err(e) => return Some(Err(format!("config serde round trip: {}", e))) }
        }
        // the source is the trie's own enumeration when the door says so, else the keys handed in (with a duplicate)
        let src: Vec<Key> = if how % 4 < 2 { self.0.iter_all().collect() } else { let mut v = keys.to_vec(); v.reverse(); if let Some(f) = keys.first() { v.push(f.clone()); } v };
        Some(trie_from(cfg, &src, how / 4).map(|t| { self.0 = t; }))
    }
}
/// ZiporaTrie driven through the `Trie` trait only (insert returns a state id).
struct ZT(ZiporaTrie);
impl Tr for ZT {
    fn insert(&mut self, k: &[u8]) -> Result<(), String> { Trie::insert(&mut self.0, k).map(|_| ()).map_err(|e| format!("{:?}", e)) }
    fn remove(&mut self, k: &[u8]) -> Option<Result<bool, String>> { Some(self.0.remove(k).map_err(|e| format!("{:?}", e))) }
    fn contains(&self, k: &[u8]) -> bool { Trie::contains(&self.0, k) }
    fn len(&self) -> usize { Trie::len(&self.0) }
    fn keys(&self) -> Option<Vec<Key>> { Some(self.0.iter_all().collect()) }
    fn prefix(&self, p: &[u8]) -> Option<Vec<Key>> { Some(self.0.iter_prefix(p).collect()) }
    fn accepts(&self, k: &[u8]) -> Option<bool> { Some(self.0.accepts(k)) }
    fn lookup_some(&self, k: &[u8]) -> Option<bool> { Some(Trie::lookup(&self.0, k).is_some()) }
    fn lp(&self, q: &[u8]) -> Option<Option<usize>> { Some(self.0.longest_prefix(q)) }
    fn shrink(&mut self) -> bool { self.0.shrink_to_fit(); true }
    fn insert_alt(&mut self, k: &[u8]) -> Option<Result<Option<u32>, String>> { Some(self.0.insert_and_get_node_id(k).map(Some).map_err(es)) }
    fn contains_alt(&self, k: &[u8]) -> Vec<(&'static str, bool, bool)> { vec![("contains", self.0.contains(k), false)] }
    fn is_empty_all(&self) -> Vec<(&'static str, bool)> { vec![("Trie::is_empty", Trie::is_empty(&self.0))] }
    fn len_alt(&self) -> Vec<(&'static str, usize)> { vec![("len", self.0.len())] }
    fn keys_alt(&self, p: Option<&[u8]>) -> Option<Vec<Key>> { Some(match p { None => self.0.keys(), Some(p) => self.0.keys_with_prefix(p) }) }
    fn fsa(&self) -> Option<&dyn FiniteStateAutomaton> { Some(&self.0) }
    fn node_id(&self, k: &[u8]) -> Option<(Option<u32>, Option<Key>)> { let id = self.0.lookup_node_id(k); Some((id, id.and_then(|i| self.0.restore_string(i)))) }
}
/// second field: the configuration the wrapper was made with (bulk rebuilds go through the builder with it)
struct WDa(DoubleArrayTrie, DoubleArrayTrieConfig);
impl Tr for WDa {
    fn insert(&mut self, k: &[u8]) -> Result<(), String> { self.0.insert(k).map_err(|e| format!("{:?}", e)) }
    fn contains(&self, k: &[u8]) -> bool { self.0.contains(k) }
    fn len(&self) -> usize { self.0.len() }
    fn accepts(&self, k: &[u8]) -> Option<bool> { Some(self.0.accepts(k)) }
    fn lookup_some(&self, k: &[u8]) -> Option<bool> { Some(self.0.lookup(k).is_some()) }
    fn lp(&self, q: &[u8]) -> Option<Option<usize>> { Some(self.0.longest_prefix(q)) }
    fn shrink(&mut self) -> bool { self.0.shrink_to_fit(); true }
    fn insert_alt(&mut self, k: &[u8]) -> Option<Result<Option<u32>, String>> { Some(Trie::insert(&mut self.0, k).map(|_| None).map_err(es)) }
    fn contains_alt(&self, k: &[u8]) -> Vec<(&'static str, bool, bool)> {
        vec![("Trie::contains", Trie::contains(&self.0, k), false), ("Trie::lookup", Trie::lookup(&self.0, k).is_some(), false)]
    }
    fn is_empty_all(&self) -> Vec<(&'static str, bool)> { vec![("is_empty", self.0.is_empty()), ("Trie::is_empty", Trie::is_empty(&self.0))] }
    fn len_alt(&self) -> Vec<(&'static str, usize)> { vec![("Trie::len", Trie::len(&self.0)), ("stats().num_keys", self.0.stats().num_keys)] }
    fn fsa(&self) -> Option<&dyn FiniteStateAutomaton> { Some(&self.0) }
    fn da_walk(&self, k: &[u8]) -> Option<bool> {
        let t = &self.0;
        Some(da_accessor_walk(k, &|s| t.get_base(s), &|s| t.get_parent(s), &|s| t.get_check(s), &|s| t.is_free(s), &|s| t.is_terminal(s)))
    }
    fn rebuild(&mut self, keys: &[Key], how: u64) -> Option<Result<(), String>> {
        let mut v = keys.to_vec();
        if let Some(f) = keys.first() { v.push(f.clone()); }
        let r = match how % 3 {
            0 => DoubleArrayTrieBuilder::with_config(self.1.clone()).build_from_sorted(keys.to_vec()),
            1 => { v.reverse(); DoubleArrayTrieBuilder::with_config(self.1.clone()).build_from_unsorted(v) }
            _ => { v.reverse(); DoubleArrayTrieBuilder::new_compact().build_from_unsorted(v) }
        };
        Some(r.map(|t| { self.0 = t; }).map_err(es))
    }
}
struct WNl(NestedLoudsTrie<RankSelectInterleaved256>, NestingConfig);
impl Tr for WNl {
    fn insert(&mut self, k: &[u8]) -> Result<(), String> { self.0.insert(k).map_err(|e| format!("{:?}", e)) }
    fn contains(&self, k: &[u8]) -> bool { self.0.contains(k) }
    fn len(&self) -> usize { self.0.len() }
    fn accepts(&self, k: &[u8]) -> Option<bool> { Some(self.0.accepts(k)) }
    fn lookup_some(&self, k: &[u8]) -> Option<bool> { Some(self.0.lookup(k).is_some()) }
    fn lp(&self, q: &[u8]) -> Option<Option<usize>> { Some(self.0.longest_prefix(q)) }
    fn insert_alt(&mut self, k: &[u8]) -> Option<Result<Option<u32>, String>> { Some(Trie::insert(&mut self.0, k).map(|_| None).map_err(es)) }
    fn contains_alt(&self, k: &[u8]) -> Vec<(&'static str, bool, bool)> {
        vec![("Trie::contains", Trie::contains(&self.0, k), false), ("Trie::lookup", Trie::lookup(&self.0, k).is_some(), false)]
    }
    fn is_empty_all(&self) -> Vec<(&'static str, bool)> { vec![("is_empty", self.0.is_empty()), ("Trie::is_empty", Trie::is_empty(&self.0))] }
    fn len_alt(&self) -> Vec<(&'static str, usize)> {
        let p = self.0.performance_stats();
        vec![("Trie::len", Trie::len(&self.0)), ("stats().num_keys", self.0.stats().num_keys), ("performance_stats().key_count", p.key_count), ("performance_stats().num_keys", p.num_keys)]
    }
    fn fsa(&self) -> Option<&dyn FiniteStateAutomaton> { Some(&self.0) }
    fn rebuild(&mut self, keys: &[Key], how: u64) -> Option<Result<(), String>> {
        let mut v = keys.to_vec();
        if how % 2 == 1 { v.reverse(); if let Some(f) = keys.first() { v.push(f.clone()); } }
        let r = if how % 4 < 2 { NestedLoudsTrieBuilder::with_config(self.1.clone()).build_from_iter(v) } else { NestedLoudsTrie::<RankSelectInterleaved256>::builder().build_from_iter(v) };
        Some(r.map(|t| { self.0 = t; }).map_err(es))
    }
}
struct WCs(CompressedSparseTrie, VersionManager);
impl Tr for WCs {
    fn insert(&mut self, k: &[u8]) -> Result<(), String> { self.0.insert(k).map_err(|e| format!("{:?}", e)) }
    fn contains(&self, k: &[u8]) -> bool { self.0.contains(k) }
    fn len(&self) -> usize { self.0.len() }
    fn accepts(&self, k: &[u8]) -> Option<bool> { Some(self.0.accepts(k)) }
    fn lookup_some(&self, k: &[u8]) -> Option<bool> { Some(self.0.lookup(k).is_some()) }
    fn lp(&self, q: &[u8]) -> Option<Option<usize>> { Some(self.0.longest_prefix(q)) }
    fn insert_alt(&mut self, k: &[u8]) -> Option<Result<Option<u32>, String>> {
        // a read-only version manager hands out no writer token: then the Trie trait door
        Some(match self.1.acquire_writer_token() {
            Ok(tok) => self.0.insert_with_token(k, &tok).map(|_| None).map_err(es),
            Err(_) => Trie::insert(&mut self.0, k).map(|_| None).map_err(es),
        })
    }
    fn contains_alt(&self, k: &[u8]) -> Vec<(&'static str, bool, bool)> {
        let mut v = vec![("Trie::contains", Trie::contains(&self.0, k), false), ("Trie::lookup", Trie::lookup(&self.0, k).is_some(), false)];
        if let Ok(tok) = self.1.acquire_reader_token() {
            v.push(("contains_with_token", self.0.contains_with_token(k, &tok), false));
            v.push(("lookup_with_token", self.0.lookup_with_token(k, &tok).is_some(), false));
        }
        v
    }
    fn is_empty_all(&self) -> Vec<(&'static str, bool)> { vec![("is_empty", self.0.is_empty()), ("Trie::is_empty", Trie::is_empty(&self.0))] }
    fn len_alt(&self) -> Vec<(&'static str, usize)> { vec![("Trie::len", Trie::len(&self.0)), ("stats().num_keys", self.0.stats().num_keys)] }
    fn fsa(&self) -> Option<&dyn FiniteStateAutomaton> { Some(&self.0) }
}
/// second field: Some(keys so far) = the static use, the automaton is rebuilt by build_from_keys (duplicates included) on every insert
struct WDawg(NestedTrieDawg, Option<Vec<Key>>);
impl Tr for WDawg {
    fn insert(&mut self, k: &[u8]) -> Result<(), String> {
        match &mut self.1 {
            None => Trie::insert(&mut self.0, k).map(|_| ()).map_err(|e| format!("{:?}", e)),
            Some(all) => { all.push(k.to_vec()); self.0.build_from_keys(all.iter()).map_err(|e| format!("{:?}", e)) }
        }
    }
    fn contains(&self, k: &[u8]) -> bool { Trie::contains(&self.0, k) }
    fn len(&self) -> usize { Trie::len(&self.0) }
    fn accepts(&self, k: &[u8]) -> Option<bool> { Some(self.0.accepts(k)) }
    fn lookup_some(&self, k: &[u8]) -> Option<bool> { Some(Trie::lookup(&self.0, k).is_some()) }
    fn lp(&self, q: &[u8]) -> Option<Option<usize>> { Some(self.0.longest_prefix(q)) }
    fn is_empty_all(&self) -> Vec<(&'static str, bool)> { vec![("Trie::is_empty", Trie::is_empty(&self.0))] }
    fn len_alt(&self) -> Vec<(&'static str, usize)> {
        use zipora::fsa::StatisticsProvider;
        vec![("statistics().num_keys", self.0.statistics().num_keys), ("stats().num_keys", self.0.stats().num_keys)]
    }
    fn fsa(&self) -> Option<&dyn FiniteStateAutomaton> { Some(&self.0) }
    /// build_from_keys on the automaton that is in use (it clears itself first); later inserts go on through its own insert door
    fn rebuild(&mut self, keys: &[Key], how: u64) -> Option<Result<(), String>> {
        let mut v = keys.to_vec();
        if how % 2 == 1 { v.reverse(); if let Some(f) = keys.first() { v.push(f.clone()); } }
        if let Some(all) = &mut self.1 { *all = v.clone(); }
        Some(self.0.build_from_keys(v.iter()).map_err(es))
    }
    fn clear(&mut self) -> bool { self.0.clear(); if let Some(all) = &mut self.1 { all.clear(); } true }
}
struct WSDawg(SimpleDawg);
impl Tr for WSDawg {
    fn insert(&mut self, k: &[u8]) -> Result<(), String> { self.0.insert(k).map_err(|e| format!("{:?}", e)) }
    fn contains(&self, k: &[u8]) -> bool { self.0.contains(k) }
    fn len(&self) -> usize { self.0.num_keys() }
}
struct WPar(ParallelLoudsTrie, tokio::runtime::Runtime);
impl Tr for WPar {
    fn insert(&mut self, k: &[u8]) -> Result<(), String> { self.1.block_on(self.0.insert(k)).map(|_| ()).map_err(|e| format!("{:?}", e)) }
    fn contains(&self, k: &[u8]) -> bool { self.1.block_on(self.0.contains(k)) }
    fn len(&self) -> usize { self.1.block_on(self.0.len()) }
    fn prefix(&self, p: &[u8]) -> Option<Vec<Key>> { self.1.block_on(self.0.parallel_prefix_search(vec![p.to_vec()])).into_iter().next() }
    /// refresh_replicas: housekeeping that must leave every answer as it was
    fn shrink(&mut self) -> bool { self.1.block_on(self.0.refresh_replicas()).is_ok() }
    fn insert_alt(&mut self, k: &[u8]) -> Option<Result<Option<u32>, String>> {
        Some(self.1.block_on(self.0.bulk_insert(vec![k.to_vec()])).map_err(es).and_then(|ids| if ids.len() == 1 { Ok(Some(ids[0])) } else { Err(format!("bulk_insert of one key returned {} ids", ids.len())) }))
    }
    fn insert_many(&mut self, ks: &[Key]) -> Result<(), String> {
        let ids = self.1.block_on(self.0.bulk_insert(ks.to_vec())).map_err(es)?;
        if ids.len() == ks.len() { Ok(()) } else { Err(format!("bulk_insert of {} keys returned {} ids", ks.len(), ids.len())) }
    }
    fn contains_alt(&self, k: &[u8]) -> Vec<(&'static str, bool, bool)> {
        let mut q = k.to_vec(); q.push(0);
        let pc = self.1.block_on(self.0.parallel_contains(vec![k.to_vec(), q, k.to_vec()]));
        let kk = k.to_vec();
        let pp = self.1.block_on(self.0.parallel_process(vec![move |t: &ZiporaTrie| -> zipora::Result<bool> { Ok(t.contains(&kk)) }]));
        let mut v = vec![];
        if pc.len() == 3 { v.push(("parallel_contains[0]", pc[0], false)); v.push(("parallel_contains[2]", pc[2], false)); } else { v.push(("parallel_contains answered for every key", false, false)); v.push(("parallel_contains answered for every key", true, false)); }
        for r in pp { if let Ok(b) = r { v.push(("parallel_process(contains)", b, false)); } }
        v
    }
    fn is_empty_all(&self) -> Vec<(&'static str, bool)> { vec![("is_empty", self.1.block_on(self.0.is_empty()))] }
    fn len_alt(&self) -> Vec<(&'static str, usize)> {
        let pp = self.1.block_on(self.0.parallel_process(vec![|t: &ZiporaTrie| -> zipora::Result<usize> { Ok(t.len()) }]));
        pp.into_iter().filter_map(|r| r.ok()).map(|n| ("parallel_process(len) on a replica", n)).collect()
    }
    fn keys_alt(&self, p: Option<&[u8]>) -> Option<Vec<Key>> {
        let p = p.unwrap_or(&[]).to_vec();
        let mut r = self.1.block_on(self.0.parallel_prefix_search(vec![p.clone(), p])).into_iter();
        let a = r.next()?; let b = r.next()?;
        // both answers are for the same prefix: a difference shows up as a duplicate
        if sorted(a.clone()) == sorted(b.clone()) { Some(a) } else { let mut a = a; a.extend(b); Some(a) }
    }
    fn rebuild(&mut self, keys: &[Key], how: u64) -> Option<Result<(), String>> {
        let mut v = keys.to_vec();
        v.reverse();
        if let Some(f) = keys.first() { v.push(f.clone()); }
        let rt = &self.1;
        let r: Result<ParallelLoudsTrie, String> = match how % 3 {
            // chunk sizes below the number of keys: partial tries are built and merged
            0 => rt.block_on(ParallelTrieBuilder::new().chunk_size(1 + (how / 3 % 3) as usize).max_workers(2).build_louds_trie(v)).map_err(es),
            1 => trie_from(ZiporaTrieConfig::default(), &v, how / 3).map(ParallelLoudsTrie::from_trie),
            _ => {
                // merge of the trie in use with one that holds every second key; their Jaccard similarity is |half| / |all|
                let half: Vec<Key> = keys.iter().step_by(2).cloned().collect();
                match trie_from(ZiporaTrieConfig::default(), &half, how / 3).map(ParallelLoudsTrie::from_trie) {
                    Err(e) => Err(e),
                    Ok(other) => {
                        let old = std::mem::replace(&mut self.0, ParallelLoudsTrie::new());
                        let sim = rt.block_on(ParallelTrieOps::compute_similarity(&old, &other, 100)).map_err(es);
                        let want = if keys.is_empty() { 1.0 } else { half.len() as f64 / keys.len() as f64 };
                        match sim {
                            Ok(s) if s == want => rt.block_on(ParallelTrieOps::merge_tries(vec![old, other])).map_err(es),
                            Ok(s) => Err(format!("compute_similarity = {} but the two key sets share {} of {} keys", s, half.len(), keys.len())),
                            Err(e) => Err(e),
                        }
                    }
                }
            }
        };
        Some(r.map(|t| { self.0 = t; }))
    }
}

struct CellDef { name: &'static str, kind: Kind, status: &'static str }
const CELLS: &[CellDef] = &[
    CellDef { name: "ZiporaTrie/default", kind: Kind::Patricia, status: "M+S" },
    CellDef { name: "ZiporaTrie/cache_optimized", kind: Kind::Patricia, status: "M+S" },
    CellDef { name: "ZiporaTrie/default/via-Trie-trait", kind: Kind::Patricia, status: "M+S" },
    CellDef { name: "PatriciaTrie(alias)", kind: Kind::Patricia, status: "M+S" },
    CellDef { name: "CritBitTrie(alias)", kind: Kind::Patricia, status: "M+S" },
    CellDef { name: "ZiporaTrie/custom(Patricia,Succinct)", kind: Kind::Patricia, status: "M+S" },
    CellDef { name: "ZiporaTrie/custom(CompressedSparse,Hybrid)", kind: Kind::Sparse, status: "M+S" },
    CellDef { name: "ZiporaTrie/custom(Louds,Standard)", kind: Kind::Louds, status: "M+S" },
    CellDef { name: "ZiporaTrie/custom(DoubleArray,CacheOptimized)", kind: Kind::DoubleArray, status: "M+S" },
    CellDef { name: "ZiporaTrie/custom(CriticalBit,Standard)", kind: Kind::CritBit, status: "finding" },
    CellDef { name: "ZiporaTrie/sparse_optimized", kind: Kind::Sparse, status: "M+S" },
    CellDef { name: "CompressedSparseTrie(wrapper)", kind: Kind::Sparse, status: "M+S" },
    CellDef { name: "ZiporaTrie/space_optimized", kind: Kind::Louds, status: "M+S" },
    CellDef { name: "NestedLoudsTrie(wrapper)", kind: Kind::Louds, status: "M+S" },
    CellDef { name: "ZiporaTrie/string_specialized", kind: Kind::CritBit, status: "finding" },
    CellDef { name: "ZiporaTrie/concurrent_high_performance", kind: Kind::DoubleArray, status: "M+S" },
    CellDef { name: "DoubleArrayTrie(wrapper)", kind: Kind::DoubleArray, status: "M+S" },
    CellDef { name: "DoubleArrayTrie(wrapper,capacity=1)", kind: Kind::DoubleArray, status: "M+S" },
    CellDef { name: "NestedTrieDawg(Trie::insert)", kind: Kind::Dawg, status: "S-only" },
    CellDef { name: "NestedTrieDawg(build_from_keys)", kind: Kind::Dawg, status: "S-only" },
    CellDef { name: "SimpleDawg", kind: Kind::Dawg, status: "S-only" },
    CellDef { name: "ParallelLoudsTrie", kind: Kind::Patricia, status: "S-only" },
    // ---- oracle breadth: every configuration field / constructor / builder drawn from the `cfg` number of the case
    CellDef { name: "ZiporaTrie/varied(Patricia)", kind: Kind::Patricia, status: "M+S" },
    CellDef { name: "ZiporaTrie/varied(DoubleArray)", kind: Kind::DoubleArray, status: "M+S" },
    CellDef { name: "ZiporaTrie/varied(CompressedSparse)", kind: Kind::Sparse, status: "M+S" },
    CellDef { name: "ZiporaTrie/varied(Louds)", kind: Kind::Louds, status: "M+S" },
    CellDef { name: "ZiporaTrie/varied(CriticalBit)", kind: Kind::CritBit, status: "finding" },
    CellDef { name: "DoubleArrayTrie(varied)", kind: Kind::DoubleArray, status: "M+S" },
    CellDef { name: "NestedLoudsTrie(varied)", kind: Kind::Louds, status: "M+S" },
    CellDef { name: "CompressedSparseTrie(varied)", kind: Kind::Sparse, status: "M+S" },
    CellDef { name: "NestedTrieDawg(varied)", kind: Kind::Dawg, status: "S-only" },
    CellDef { name: "ParallelLoudsTrie(varied)", kind: Kind::Patricia, status: "S-only" },
    // ---- refused operations inside histories: an automaton with room for DAWG_CAP states refuses the insert that would need more
    CellDef { name: DAWG_CAPPED, kind: Kind::Dawg, status: "S-only" },
];
const DAWG_CAPPED: &str = "NestedTrieDawg(max_states=12)";
const DAWG_CAP: usize = 12;

fn small_pool() -> Result<std::sync::Arc<SecureMemoryPool>, String> { SecureMemoryPool::new(SecurePoolConfig::small_secure()).map_err(es) }

fn varied_storage(r: &mut Rng, depth: u32) -> Result<StorageStrategy, String> {
    let sizes = [0usize, 1, 2, 63, 64, 255, 256, 4096, 8192, 65536, 1 << 20];
    Ok(match r.below(if depth >= 2 { 4 } else { 5 }) {
        0 => StorageStrategy::Standard { initial_capacity: *r.pick(&sizes), growth_factor: *r.pick(&[0.0, 0.5, 1.0, 1.5, 2.0, 1e9]) },
        1 => StorageStrategy::Succinct {
            bit_vector_type: match r.below(4) { 0 => BitVectorType::Standard, 1 => BitVectorType::RankSelectOptimized, 2 => BitVectorType::CacheAligned, _ => BitVectorType::Compressed },
            rank_select_type: varied_rs(r), interleaved_layout: r.chance(1, 2),
        },
        2 => StorageStrategy::CacheOptimized { cache_line_size: *r.pick(&sizes), numa_aware: r.chance(1, 2), prefetch_enabled: r.chance(1, 2) },
        3 => StorageStrategy::PoolAllocated { pool: small_pool()?, size_class: *r.pick(&sizes), chunk_size: *r.pick(&sizes) },
        _ => StorageStrategy::Hybrid { primary: Box::new(varied_storage(r, depth + 1)?), secondary: Box::new(varied_storage(r, depth + 1)?), switch_threshold: *r.pick(&sizes) },
    })
}
fn varied_rs(r: &mut Rng) -> RankSelectType {
    match r.below(6) { 0 => RankSelectType::Interleaved256, 1 => RankSelectType::MixedIL256, 2 => RankSelectType::MixedXL256, 3 => RankSelectType::MixedXLBitPacked, 4 => RankSelectType::Simple, _ => RankSelectType::Adaptive }
}
fn varied_compression(r: &mut Rng, depth: u32) -> CompressionStrategy {
    let sizes = [0usize, 1, 2, 8, 16, 32, 64, 255, 256, 4096, 65536];
    match r.below(if depth >= 1 { 4 } else { 5 }) {
        0 => CompressionStrategy::None,
        1 => CompressionStrategy::PathCompression { min_path_length: *r.pick(&sizes), max_path_length: *r.pick(&sizes), adaptive_threshold: r.chance(1, 2) },
        2 => CompressionStrategy::FragmentCompression { fragment_size: *r.pick(&sizes), frequency_threshold: *r.pick(&[0.0, 0.1, 1.0]), dictionary_size: *r.pick(&sizes) },
        3 => CompressionStrategy::Hierarchical { levels: *r.pick(&sizes), compression_ratio: *r.pick(&[0.0, 0.7, 1.0]), adaptive_levels: r.chance(1, 2) },
        _ => { let n = r.below(3); CompressionStrategy::Adaptive { strategies: (0..n).map(|_| varied_compression(r, depth + 1)).collect(), decision_threshold: *r.pick(&sizes) } }
    }
}
/// a configuration of the given trie strategy with every other field drawn from boundary values (and every enum variant)
fn varied_config(strategy: &str, cfg: u64) -> Result<ZiporaTrieConfig, String> {
    let mut r = Rng::new(cfg ^ 0x5eed_c05);
    let sizes = [0usize, 1, 2, 3, 4, 31, 32, 33, 64, 255, 256, 4096, 65536];
    let trie_strategy = match strategy {
        "Patricia" => TrieStrategy::Patricia { max_path_length: *r.pick(&sizes), compression_threshold: *r.pick(&sizes), adaptive_compression: r.chance(1, 2) },
        "DoubleArray" => TrieStrategy::DoubleArray { initial_capacity: *r.pick(&[0usize, 1, 2, 255, 256, 257, 4096, 65536, 1 << 20]), growth_factor: *r.pick(&[0.0, 0.5, 1.0, 1.5, 2.0, 1e9]), free_list_management: r.chance(1, 2), auto_shrink: r.chance(1, 2) },
        "CompressedSparse" => TrieStrategy::CompressedSparse { sparse_threshold: *r.pick(&[0.0, 0.3, 1.0, 2.0]), compression_level: *r.pick(&[0u8, 1, 6, 9, 255]), adaptive_sparse: r.chance(1, 2) },
        "Louds" => TrieStrategy::Louds { nesting_levels: *r.pick(&sizes), fragment_compression: r.chance(1, 2), adaptive_backends: r.chance(1, 2), cache_aligned: r.chance(1, 2) },
        _ => TrieStrategy::CriticalBit { cache_critical_bytes: r.chance(1, 2), optimize_for_strings: r.chance(1, 2), bit_level_optimization: r.chance(1, 2) },
    };
    let c = ZiporaTrieConfig {
        trie_strategy, storage_strategy: varied_storage(&mut r, 0)?, compression_strategy: varied_compression(&mut r, 0), rank_select_type: varied_rs(&mut r),
        enable_simd: r.chance(1, 2), enable_concurrency: r.chance(1, 2), cache_optimization: r.chance(1, 2),
    };
    if r.chance(1, 3) {
        let s = serde_json::to_string(&c).map_err(es)?;
        return serde_json::from_str::<ZiporaTrieConfig>(&s).map_err(es);
    }
    Ok(c)
}

fn make(cell: &str, cfg: u64) -> Result<Box<dyn Tr>, String> {
    let r = guarded(|| -> Result<Box<dyn Tr>, String> {
        let kind = CELLS.iter().find(|d| d.name == cell).map(|d| d.kind).unwrap_or(Kind::Patricia);
        let z = |t: ZiporaTrie| -> Box<dyn Tr> { Box::new(Z(t, kind)) };
        let mut r = Rng::new(cfg ^ 0xce11);
        Ok(match cell {
            "ZiporaTrie/default" | "PatriciaTrie(alias)" => z(zipora::fsa::PatriciaTrie::new()),
            "CritBitTrie(alias)" => z(zipora::fsa::CritBitTrie::new()),
            "ZiporaTrie/default/via-Trie-trait" => Box::new(ZT(ZiporaTrie::default())),
            "ZiporaTrie/cache_optimized" => z(ZiporaTrie::with_config(ZiporaTrieConfig::cache_optimized())),
            "ZiporaTrie/sparse_optimized" => z(ZiporaTrie::with_config(ZiporaTrieConfig::sparse_optimized())),
            "ZiporaTrie/space_optimized" => z(ZiporaTrie::with_config(ZiporaTrieConfig::space_optimized())),
            "ZiporaTrie/string_specialized" => z(ZiporaTrie::with_config(ZiporaTrieConfig::string_specialized())),
            "ZiporaTrie/concurrent_high_performance" => z(ZiporaTrie::with_config(ZiporaTrieConfig::concurrent_high_performance(small_pool()?))),
            n if n.starts_with("ZiporaTrie/varied(") => z(ZiporaTrie::with_config(varied_config(&n["ZiporaTrie/varied(".len()..n.len() - 1], cfg)?)),
            n if n.starts_with("ZiporaTrie/custom(") => {
                // every TrieStrategy crossed with a StorageStrategy other than the one its preset uses
                let mut c = ZiporaTrieConfig::default();
                let std_storage = StorageStrategy::Standard { initial_capacity: 3, growth_factor: 1.1 };
                match n {
                    "ZiporaTrie/custom(Patricia,Succinct)" => {
                        c.trie_strategy = TrieStrategy::Patricia { max_path_length: 2, compression_threshold: 1, adaptive_compression: false };
                        c.storage_strategy = ZiporaTrieConfig::space_optimized().storage_strategy;
                        c.cache_optimization = false;
                    }
                    "ZiporaTrie/custom(CompressedSparse,Hybrid)" => {
                        c.trie_strategy = ZiporaTrieConfig::sparse_optimized().trie_strategy;
                        c.storage_strategy = StorageStrategy::Hybrid { primary: Box::new(std_storage.clone()), secondary: Box::new(ZiporaTrieConfig::cache_optimized().storage_strategy), switch_threshold: 2 };
                    }
                    "ZiporaTrie/custom(Louds,Standard)" => {
                        c.trie_strategy = TrieStrategy::Louds { nesting_levels: 1, fragment_compression: false, adaptive_backends: false, cache_aligned: true };
                        c.storage_strategy = std_storage;
                    }
                    "ZiporaTrie/custom(DoubleArray,CacheOptimized)" => {
                        c.trie_strategy = TrieStrategy::DoubleArray { initial_capacity: 0, growth_factor: 1.0, free_list_management: false, auto_shrink: true };
                        c.storage_strategy = ZiporaTrieConfig::cache_optimized().storage_strategy;
                    }
                    _ => {
                        c.trie_strategy = ZiporaTrieConfig::string_specialized().trie_strategy;
                        c.storage_strategy = std_storage;
                    }
                }
                z(ZiporaTrie::with_config(c))
            }
            "DoubleArrayTrie(wrapper)" => Box::new(WDa(DoubleArrayTrie::new(), DoubleArrayTrieConfig::default())),
            "DoubleArrayTrie(wrapper,capacity=1)" => {
                let mut c = DoubleArrayTrieConfig::default();
                c.initial_capacity = 1;
                Box::new(WDa(DoubleArrayTrie::with_config(c.clone()), c))
            }
            "DoubleArrayTrie(varied)" => {
                let c = DoubleArrayTrieConfig {
                    initial_capacity: *r.pick(&[0usize, 1, 2, 255, 256, 257, 4096, 65536, 1 << 20]), growth_factor: *r.pick(&[0.0, 0.5, 1.0, 1.5, 2.0, 1e9]),
                    use_memory_pool: r.chance(1, 2), enable_simd: r.chance(1, 2), pool_size_class: *r.pick(&[0usize, 1, 4096, 8192, 65536]), auto_shrink: r.chance(1, 2),
                    cache_aligned: r.chance(1, 2), heuristic_collision_avoidance: r.chance(1, 2),
                };
                let t = match r.below(4) {
                    0 => DoubleArrayTrie::with_config(c.clone()),
                    1 => DoubleArrayTrieBuilder::with_config(c.clone()).build_from_sorted(vec![]).map_err(es)?,
                    2 => DoubleArrayTrieBuilder::new().build_from_unsorted(vec![]).map_err(es)?,
                    _ => DoubleArrayTrieBuilder::new_compact().build_from_sorted(vec![]).map_err(es)?,
                };
                Box::new(WDa(t, c))
            }
            "NestedLoudsTrie(wrapper)" => Box::new(WNl(NestedLoudsTrie::new().map_err(|e| format!("{:?}", e))?, NestingConfig::default())),
            "NestedLoudsTrie(varied)" => {
                let sizes = [0usize, 1, 2, 3, 64, 255, 256, 4096, 65536, 1 << 20];
                let c = NestingConfig::builder().max_levels(*r.pick(&sizes)).fragment_compression_ratio(*r.pick(&[0.0, 0.5, 1.0])).min_fragment_size(*r.pick(&sizes))
                    .max_fragment_size(*r.pick(&sizes)).cache_optimization(r.chance(1, 2)).cache_block_size(*r.pick(&sizes)).density_switch_threshold(*r.pick(&[0.0, 0.5, 1.0]))
                    .adaptive_backend_selection(r.chance(1, 2)).memory_pool_size(*r.pick(&sizes)).build().map_err(es)?;
                let t = match r.below(3) {
                    0 => NestedLoudsTrie::with_config(c.clone()).map_err(es)?,
                    1 => NestedLoudsTrieBuilder::with_config(c.clone()).build_from_iter(Vec::<Key>::new()).map_err(es)?,
                    _ => NestedLoudsTrie::<RankSelectInterleaved256>::builder().build_from_iter(Vec::<Key>::new()).map_err(es)?,
                };
                Box::new(WNl(t, c))
            }
            "CompressedSparseTrie(wrapper)" => Box::new(WCs(CompressedSparseTrie::new(ConcurrencyLevel::SingleThreadStrict).map_err(|e| format!("{:?}", e))?, VersionManager::new(ConcurrencyLevel::SingleThreadStrict))),
            "CompressedSparseTrie(varied)" => {
                let level = *r.pick(&[ConcurrencyLevel::NoWriteReadOnly, ConcurrencyLevel::SingleThreadStrict, ConcurrencyLevel::SingleThreadShared, ConcurrencyLevel::OneWriteMultiRead, ConcurrencyLevel::MultiWriteMultiRead]);
                let t = if r.chance(1, 2) { CompressedSparseTrie::new(level) } else { CompressedSparseTrie::with_memory_pool(level, small_pool()?) }.map_err(es)?;
                Box::new(WCs(t, VersionManager::new(level)))
            }
            "NestedTrieDawg(Trie::insert)" => Box::new(WDawg(NestedTrieDawg::new().map_err(|e| format!("{:?}", e))?, None)),
            "NestedTrieDawg(build_from_keys)" => Box::new(WDawg(NestedTrieDawg::new().map_err(|e| format!("{:?}", e))?, Some(vec![]))),
            "NestedTrieDawg(varied)" => {
                let c = match r.below(4) {
                    0 => DawgConfig::memory_efficient(),
                    1 => DawgConfig::performance_optimized(),
                    _ => {
                        // the dense table is max_states * 256 words: a small automaton; the state cache evicts from its first states on
                        let dense = r.chance(1, 2);
                        let cache = FsaCacheConfig { max_states: *r.pick(&[1usize, 2, 3, 10, 1000]), strategy: *r.pick(&[CacheStrategy::BreadthFirst, CacheStrategy::DepthFirst, CacheStrategy::CacheFriendly]), compressed_paths: r.chance(1, 2), use_hugepages: false, max_memory_bytes: *r.pick(&[0usize, 4096, 1 << 20]) };
                        DawgConfig { use_rank_select: r.chance(1, 2), enable_cache: r.chance(2, 3), cache_config: cache, max_states: if dense { 3000 } else { *r.pick(&[3000usize, 65536, 1 << 20]) }, compressed_storage: !dense }
                    }
                };
                Box::new(WDawg(NestedTrieDawg::with_config(c).map_err(es)?, if r.chance(1, 4) { Some(vec![]) } else { None }))
            }
            DAWG_CAPPED => Box::new(WDawg(NestedTrieDawg::with_config(DawgConfig { max_states: DAWG_CAP, enable_cache: false, ..DawgConfig::default() }).map_err(es)?, None)),
            "SimpleDawg" => Box::new(WSDawg(SimpleDawg::new())),
            "ParallelLoudsTrie" | "ParallelLoudsTrie(varied)" => {
                let rt = tokio::runtime::Builder::new_current_thread().build().map_err(|e| format!("{:?}", e))?;
                let t = if cell == "ParallelLoudsTrie" { ParallelLoudsTrie::new() } else {
                    match r.below(3) {
                        0 => ParallelLoudsTrie::from_trie(ZiporaTrie::with_config(ZiporaTrieConfig::cache_optimized())),
                        1 => rt.block_on(ParallelTrieBuilder::default().chunk_size(*r.pick(&[1usize, 2, 10000])).max_workers(*r.pick(&[1usize, 2, 64])).build_louds_trie(Vec::<Key>::new())).map_err(es)?,
                        _ => ParallelLoudsTrie::default(),
                    }
                };
                Box::new(WPar(t, rt))
            }
            _ => return Err(format!("unknown cell {}", cell)),
        })
    });
    match r { Ok(x) => x, Err(p) => Err(format!("constructor panicked: {}", p)) }
}

struct Ctx { sum: Summary, shards: CoqShards, budget: [usize; 6], used: [usize; 6] }

fn coq_key(k: &[u8]) -> String { coq_bytes(k) }
fn coq_keys(ks: &[Key]) -> String { format!("[{}]", ks.iter().map(|k| coq_key(k)).collect::<Vec<_>>().join("; ")) }
fn b2n(b: bool) -> String { format!("[[{}]%N]", if b { 1 } else { 0 }) }

fn sorted(mut v: Vec<Key>) -> Vec<Key> { v.sort(); v }

/// A big key set described by (kind, n, seed) instead of being spelled out; it is loaded through the bulk door before the ops run.
#[derive(Clone, Debug)]
struct BigSpec { kind: String, n: usize, seed: u64 }

const DENSE_ALPHA: usize = 41;
fn dense_alpha() -> Vec<u8> { [0x00u8, 0x01, 0x7f, 0x80, 0xfe, 0xff].iter().copied().chain(b'a'..=b'z').chain(b'0'..=b'8').collect() }
fn big_keys(b: &BigSpec) -> Vec<Key> {
    match b.kind.as_str() {
        // "dense3": the n first strings of length 1..3 over 41 symbols (0x00, 0xFF, ... included) in a fixed pseudo-random order:
        // keys that are prefixes of each other arrive in both orders, every node gets up to 41 children
        "dense3" => {
            let al = dense_alpha();
            let a = DENSE_ALPHA;
            let m = a + a * a + a * a * a; // 70643 = 41 * 1723, coprime with 65537
            (0..b.n.min(m)).map(|i| {
                let idx = (i * 65537 + (b.seed as usize % m)) % m;
                if idx < a { vec![al[idx]] } else if idx < a + a * a { let j = idx - a; vec![al[j / a], al[j % a]] } else { let j = idx - a - a * a; vec![al[j / (a * a)], al[j / a % a], al[j % a]] }
            }).collect()
        }
        // "long": n keys of 200..255 arbitrary bytes, half of them continuing a random-length prefix of an earlier key
        // (branching deep inside; sometimes a key that is a proper prefix of an earlier one)
        _ => {
            let mut r = Rng::new(b.seed ^ 0xb16);
            let mut out: Vec<Key> = vec![];
            for i in 0..b.n {
                let len = r.range(200, 255) as usize;
                let mut k: Key = if i > 0 && r.chance(1, 2) { let base = &out[r.below(i as u64) as usize]; base[..r.below(base.len() as u64 + 1) as usize].to_vec() } else { vec![] };
                k.truncate(len);
                while k.len() < len { k.push(r.next() as u8); }
                if !out.contains(&k) { out.push(k); }
            }
            out
        }
    }
}

/// One case: the cell's configuration number, an optional big prelude and the operation history.
struct Case { cfg: u64, big: Option<BigSpec>, ops: Vec<Op>, ops_json: Option<Vec<Value>> }
impl Case {
    fn plain(ops: Vec<Op>) -> Case { Case { cfg: 0, big: None, ops, ops_json: None } }
    fn json(&self, cell: &str) -> Value {
        let ops: Vec<Value> = match &self.ops_json { Some(j) => j.clone(), None => self.ops.iter().map(|(o, k)| json!([o, k])).collect() };
        let mut v = json!({"cell": cell, "ops": ops});
        if self.cfg != 0 { v["cfg"] = json!(self.cfg); }
        if let Some(b) = &self.big { v["big"] = json!({"kind": b.kind, "n": b.n, "seed": b.seed}); }
        v
    }
}

/// The language of the automaton view: every path from root() over transitions() that ends in an is_final() state.
/// Ok(None) = the walk was cut off by its budget (nothing is concluded); Err = the view contradicts itself.
fn fsa_language(a: &dyn FiniteStateAutomaton, max_depth: usize, budget: usize) -> Result<Option<Vec<Key>>, String> {
    let mut out: Vec<Key> = vec![];
    let mut visited = 0usize;
    // (state, path) stack; a DAWG shares states, so paths are walked, not states
    let mut stack: Vec<(u32, Key)> = vec![(a.root(), vec![])];
    while let Some((s, path)) = stack.pop() {
        visited += 1;
        if visited > budget { return Ok(None); }
        if a.is_final(s) { out.push(path.clone()); }
        let ts: Vec<(u8, u32)> = a.transitions(s).collect();
        let mut seen = [false; 256];
        for &(c, t) in &ts {
            if seen[c as usize] { return Err(format!("transitions({}) lists symbol {} twice (path {:?})", s, c, trunc1(&path))); }
            seen[c as usize] = true;
            if a.transition(s, c) != Some(t) { return Err(format!("transitions({}) lists ({}, {}) but transition({}, {}) = {:?} (path {:?})", s, c, t, s, c, a.transition(s, c), trunc1(&path))); }
        }
        if visited <= 600 {
            for c in 0..=255u8 { if !seen[c as usize] { if let Some(t) = a.transition(s, c) { return Err(format!("transition({}, {}) = {} is missing from transitions({}) (path {:?})", s, c, t, s, trunc1(&path))); } } }
        }
        if path.len() > max_depth { return Err(format!("the automaton has a path of {} symbols, longer than every key ever inserted (path {:?})", path.len(), trunc1(&path))); }
        for &(c, t) in ts.iter().rev() { let mut p = path.clone(); p.push(c); stack.push((t, p)); }
    }
    Ok(Some(out))
}
fn trunc1(k: &[u8]) -> Key { k.iter().take(16).cloned().collect() }

/// Run one history on one cell. Returns nothing; failures go to the summary.
fn history(cx: &mut Ctx, cell: &CellDef, case: &Case, force_coq: bool, allow_coq: bool) {
    let name = cell.name;
    let kind = cell.kind;
    let ops = &case.ops;
    let cj = case.json(name);
    let keytext = format!("{} {} {:?} {:?}", name, case.cfg, case.big, ops);
    let nmut = ops.iter().filter(|(o, _)| *o <= REM || *o == INS_ID).count() + if case.big.is_some() { 2 } else { 0 };
    cx.sum.eval(name, &keytext, nmut >= 2);
    cx.sum.cell_status(name, cell.status);
    let mut t = match make(name, case.cfg) {
        Ok(t) => t,
        Err(e) => { report(&mut cx.sum, name, None, cj, &format!("cannot construct: {}", e)); return; }
    };
    // every key mentioned by the history (and each of its prefixes' extension by one byte is covered by the generators)
    let mut pool: Vec<Key> = ops.iter().filter(|(o, _)| *o != REBUILD).map(|(_, k)| k.clone()).collect();
    pool.sort(); pool.dedup();
    let mut set: BTreeSet<Key> = BTreeSet::new();
    let mut obs: Vec<String> = vec![];
    let mut unavailable: Vec<usize> = vec![];  // ops the type does not offer: code 9 (no-op) on the model side
    let mut coq_ok = case.big.is_none(); // false once the history leaves what the Coq model describes
    let mut n_inserts_ok: usize = 0;      // critical-bit stub predicate: len counts every accepted insert call
    let mut n_insert_calls_dawg: usize = 0;
    let mut failed = false;
    // every non-empty prefix of every key an insert was called with: the uncompressed trie of all of them (+ the root) bounds the
    // number of states the automaton can hold, whatever refused inserts left behind
    let mut attempted: std::collections::HashSet<Key> = std::collections::HashSet::new();
    macro_rules! fail { ($class:expr, $($arg:tt)*) => {{ let cl: Option<&str> = $class; report(&mut cx.sum, name, cl, cj.clone(), &format!($($arg)*)); if cl.is_none() { failed = true; cx.sum.dist(&format!("unlisted_failures/{}", name)); } }}; }

    if let Some(b) = &case.big {
        let keys = big_keys(b);
        cx.sum.dist(&format!("big_preludes/{}/{}", b.kind, b.n));
        match guarded(|| t.insert_many(&keys)) {
            Err(p) => { fail!(None, "bulk load of {} keys ({:?}) panicked: {}", keys.len(), b, p); }
            Ok(Err(e)) => { fail!(None, "bulk load of {} keys ({:?}) returned an error: {}", keys.len(), b, e); }
            Ok(Ok(())) => {
                n_inserts_ok += keys.len();
                for k in keys { set.insert(k); }
                match guarded(|| t.len()) {
                    Err(p) => { fail!(None, "len panicked after the bulk load: {}", p); }
                    Ok(n) => check_len(cx, name, kind, &cj, 0, n, set.len(), n_inserts_ok, 0, &mut failed),
                }
            }
        }
    }

    for (step, (op, k)) in ops.iter().enumerate() {
        if failed { break; }
        match *op {
            INS | INS_ID => {
                // INS_ID: the second insert door where the type has one, else the first
                for c in 1..=k.len().min(4 * DAWG_CAP) { attempted.insert(k[..c].to_vec()); }
                let r = guarded(|| if *op == INS_ID { match t.insert_alt(k) { Some(r) => r, None => t.insert(k).map(|_| None) } } else { t.insert(k).map(|_| None) });
                match r {
                    Err(p) => { fail!(None, "step {}: insert({:?}) panicked: {}", step, k, p); obs.push("[[2]%N]".into()); coq_ok = false; break; }
                    Ok(Err(e)) => {
                        obs.push("[[1]%N]".into());
                        // a refused insert leaves the set as it was: the history goes on and the object is compared as after any other step
                        if kind == Kind::Louds && k.len() > 255 { cx.sum.dist("refused_ops/louds_key_over_255"); fail!(Some("louds_key_over_255_refused"), "step {}: insert of a {}-byte key refused: {}", step, k.len(), e); }
                        else if name == DAWG_CAPPED && e.contains("Maximum states") && attempted.len() + 1 > DAWG_CAP { cx.sum.dist("refused_ops/dawg_max_states"); }
                        else { fail!(None, "step {}: insert({:?}) returned an error: {}", step, k, e); }
                    }
                    Ok(Ok(id)) => {
                        obs.push("[[0]%N]".into());
                        n_inserts_ok += 1;
                        n_insert_calls_dawg += 1;
                        set.insert(k.clone());
                        if let (Some(id), true) = (id, kind != Kind::CritBit && kind != Kind::Dawg && cell.status != "S-only") {
                            // the id the insert reports is the id a lookup of the key finds
                            match guarded(|| t.node_id(k)) {
                                Err(p) => { fail!(None, "step {}: lookup_node_id({:?}) panicked: {}", step, k, p); }
                                Ok(Some((got, _))) if got != Some(id) => { fail!(None, "step {}: insert_and_get_node_id({:?}) = {} but lookup_node_id = {:?}", step, trunc1(k), id, got); }
                                _ => {}
                            }
                        }
                    }
                }
            }
            REM => {
                let r = guarded(|| t.remove(k));
                match r {
                    Err(p) => { fail!(None, "step {}: remove({:?}) panicked: {}", step, k, p); coq_ok = false; break; }
                    Ok(None) => { obs.push("[]".into()); unavailable.push(step); } // type has no remove: nothing to decide
                    Ok(Some(Err(e))) => { fail!(None, "step {}: remove({:?}) returned an error: {}", step, k, e); obs.push("[[2]%N]".into()); }
                    Ok(Some(Ok(b))) => {
                        obs.push(b2n(b));
                        let was = set.contains(k);
                        if b != was {
                            let still = guarded(|| t.contains(k)).unwrap_or(false);
                            if was && !b && still && kind != Kind::Patricia && kind != Kind::CritBit {
                                // recorded finding: remove is not implemented for this strategy; the key stays
                                let class = match kind { Kind::Sparse => "remove_unsupported_sparse", Kind::Louds => "remove_unsupported_louds", _ => "remove_unsupported_double_array" };
                                fail!(Some(class), "step {}: remove({:?}) of a present key returned false and the key stays", step, k);
                            } else if was && !b && kind == Kind::CritBit {
                                fail!(Some("critbit_stub"), "step {}: remove({:?}) of an inserted key returned false", step, k);
                                set.remove(k);
                            } else {
                                fail!(None, "step {}: remove({:?}) returned {} but the key was {}", step, k, b, if was { "present" } else { "absent" });
                            }
                        } else if was { set.remove(k); }
                    }
                }
            }
            HAS => {
                match guarded(|| t.contains(k)) {
                    Err(p) => { fail!(None, "step {}: contains({:?}) panicked: {}", step, k, p); obs.push("[]".into()); coq_ok = false; }
                    Ok(b) => { obs.push(b2n(b)); check_contains(cx, name, kind, &cj, step, k, b, set.contains(k), &mut failed); }
                }
            }
            HAS2 => {
                obs.push("[]".into()); unavailable.push(step);
                match guarded(|| t.contains_alt(k)) {
                    Err(p) => { fail!(None, "step {}: a secondary lookup of {:?} panicked: {}", step, trunc1(k), p); }
                    Ok(v) => {
                        let want = set.contains(k);
                        if !v.is_empty() { cx.sum.dist("secondary_lookup_ops"); }
                        for (door, b, via_fsa) in v {
                            if b != want {
                                let class = if kind == Kind::Louds && via_fsa && !b { Some("louds_fsa_view_stub") } else if kind == Kind::CritBit && !b { Some("critbit_stub") } else { None };
                                fail!(class, "step {}: {}({:?}) = {} but membership is {}", step, door, trunc1(k), b, want);
                            }
                        }
                    }
                }
            }
            LEN => {
                match guarded(|| (t.len(), t.len_alt())) {
                    Err(p) => { fail!(None, "step {}: len panicked: {}", step, p); obs.push("[]".into()); coq_ok = false; }
                    Ok((n, alt)) => {
                        obs.push(format!("[[{}]%N]", n));
                        check_len(cx, name, kind, &cj, step, n, set.len(), n_inserts_ok, n_insert_calls_dawg, &mut failed);
                        for (door, m) in alt {
                            if m != set.len() {
                                let class = if kind == Kind::CritBit && m == n_inserts_ok { Some("critbit_stub") } else { None };
                                fail!(class, "step {}: {} = {} but the set has {} keys", step, door, m, set.len());
                            }
                        }
                    }
                }
            }
            KEYS | PRE | KEYS2 | PRE2 => {
                let whole = *op == KEYS || *op == KEYS2;
                let second = *op == KEYS2 || *op == PRE2;
                let r = guarded(|| match (whole, second) { (true, false) => t.keys(), (false, false) => t.prefix(k), (true, true) => t.keys_alt(None), (false, true) => t.keys_alt(Some(k)) });
                match r {
                    Err(p) => { fail!(None, "step {}: keys/prefix panicked: {}", step, p); obs.push("[]".into()); coq_ok = false; }
                    Ok(None) => { obs.push("[]".into()); unavailable.push(step); }
                    Ok(Some(got)) => {
                        let pre: &[u8] = if whole { &[] } else { k };
                        let want: Vec<Key> = set.iter().filter(|x| x.starts_with(pre)).cloned().collect();
                        // the enumeration order is not part of the property: compare as sets, but each key once
                        let gs = sorted(got.clone());
                        // for the model comparison the Patricia/LOUDS order is deterministic; hash-map based ones are sorted
                        if second { obs.push("[]".into()); unavailable.push(step); cx.sum.dist("secondary_enumeration_ops"); }
                        else { obs.push(coq_keys(if kind == Kind::Sparse { &gs } else { &got })); }
                        if gs != want {
                            let class = if kind == Kind::CritBit && got.is_empty() { Some("critbit_stub") } else { None };
                            let what = format!("{}{}", if whole { "keys()".to_string() } else { format!("keys_with_prefix({:?})", trunc1(k)) }, if second { " through the second door (PrefixIterable / parallel_prefix_search)" } else { "" });
                            fail!(class, "step {}: {} = {:?} ({} keys) but the set restricted to the prefix is {:?} ({} keys)", step, what, trunc(&gs), gs.len(), trunc(&want), want.len());
                        }
                    }
                }
            }
            ACC => {
                let r = guarded(|| (t.accepts(k), t.lookup_some(k)));
                match r {
                    Err(p) => { fail!(None, "step {}: accepts/lookup({:?}) panicked: {}", step, k, p); obs.push("[]".into()); coq_ok = false; }
                    Ok((a, l)) => {
                        obs.push(match a { Some(b) => b2n(b), None => { unavailable.push(step); "[]".into() } });
                        let want = set.contains(k);
                        for (what, v) in [("accepts", a), ("lookup(..).is_some()", l)] {
                            if let Some(b) = v {
                                if b != want {
                                    let class = if kind == Kind::Louds && !b { Some("louds_fsa_view_stub") }
                                                else if kind == Kind::CritBit && !b { Some("critbit_stub") } else { None };
                                    fail!(class, "step {}: {}({:?}) = {} but membership is {}", step, what, k, b, want);
                                }
                            }
                        }
                    }
                }
            }
            LP => {
                match guarded(|| t.lp(k)) {
                    Err(p) => { fail!(None, "step {}: longest_prefix({:?}) panicked: {}", step, k, p); obs.push("[]".into()); coq_ok = false; }
                    Ok(None) => { obs.push("[]".into()); unavailable.push(step); }
                    Ok(Some(got)) => {
                        obs.push(match got { Some(n) => format!("[[{}]%N]", n), None => "[]".into() });
                        let want = (0..=k.len()).rev().find(|&n| set.contains(&k[..n]));
                        if got != want {
                            let class = if kind == Kind::Louds && got.is_none() { Some("louds_fsa_view_stub") }
                                        else if kind == Kind::CritBit && got.is_none() { Some("critbit_stub") } else { None };
                            fail!(class, "step {}: longest_prefix({:?}) = {:?} but the longest member prefix has length {:?}", step, k, got, want);
                        }
                    }
                }
            }
            CLONE => {
                match guarded(|| t.reclone()) {
                    Err(p) => { fail!(None, "step {}: clone panicked: {}", step, p); coq_ok = false; break; }
                    // the node-vector, double-array and hash-map models have clone; the other models treat it as a no-op
                    Ok(done) => { obs.push("[]".into()); if !(done && (kind == Kind::Patricia || kind == Kind::Sparse || kind == Kind::DoubleArray)) { unavailable.push(step); } }
                }
            }
            SHRINK => {
                match guarded(|| t.shrink()) {
                    Err(p) => { fail!(None, "step {}: shrink_to_fit panicked: {}", step, p); coq_ok = false; break; }
                    Ok(done) => { obs.push("[]".into()); unavailable.push(step); if done { cx.sum.dist("shrink_to_fit_ops"); } }
                }
            }
            FSAWALK => {
                obs.push("[]".into()); unavailable.push(step);
                let max_depth = set.iter().map(|x| x.len()).max().unwrap_or(0).max(pool.iter().map(|x| x.len()).max().unwrap_or(0)) + 1;
                match guarded(|| t.fsa().map(|a| fsa_language(a, max_depth, 20000))) {
                    Err(p) => { fail!(None, "step {}: the walk over root()/transitions()/is_final() panicked: {}", step, p); }
                    Ok(None) | Ok(Some(Ok(None))) => {}
                    Ok(Some(Err(e))) => { fail!(None, "step {}: automaton view: {}", step, e); }
                    Ok(Some(Ok(Some(got)))) => {
                        cx.sum.dist("fsa_walk_ops");
                        let gs = sorted(got);
                        let want: Vec<Key> = set.iter().cloned().collect();
                        if gs != want {
                            let class = if kind == Kind::Louds && gs.is_empty() { Some("louds_fsa_view_stub") } else if kind == Kind::CritBit && gs.is_empty() { Some("critbit_stub") } else { None };
                            fail!(class, "step {}: the language of the automaton view (root/transitions/is_final) is {:?} ({} keys) but the set is {:?} ({} keys)", step, trunc(&gs), gs.len(), trunc(&want), want.len());
                        }
                    }
                }
            }
            NODEID => {
                obs.push("[]".into()); unavailable.push(step);
                match guarded(|| t.node_id(k)) {
                    Err(p) => { fail!(None, "step {}: lookup_node_id/restore_string({:?}) panicked: {}", step, trunc1(k), p); }
                    Ok(None) => {}
                    Ok(Some((id, restored))) => {
                        cx.sum.dist("node_id_ops");
                        let want = set.contains(k);
                        if id.is_some() != want {
                            let class = if kind == Kind::CritBit && id.is_none() { Some("critbit_stub") } else { None };
                            fail!(class, "step {}: lookup_node_id({:?}) = {:?} but membership is {}", step, trunc1(k), id, want);
                        } else if let Some(i) = id {
                            // an id stands for its key: the two storages that implement restore_string must give the key back, the others may decline
                            let must = kind == Kind::Patricia || kind == Kind::Louds;
                            if (must && restored.as_deref() != Some(&k[..])) || (!must && restored.is_some() && restored.as_deref() != Some(&k[..])) {
                                fail!(None, "step {}: restore_string(lookup_node_id({:?}) = {}) = {:?}", step, trunc1(k), i, restored.map(|x| trunc1(&x)));
                            }
                        }
                    }
                }
            }
            DAWALK => {
                obs.push("[]".into()); unavailable.push(step);
                if kind == Kind::DoubleArray {
                    match guarded(|| t.da_walk(k)) {
                        Err(p) => { fail!(None, "step {}: a double-array accessor panicked on the walk of {:?}: {}", step, trunc1(k), p); }
                        Ok(None) => {}
                        Ok(Some(b)) => {
                            cx.sum.dist("da_accessor_walk_ops");
                            if b != set.contains(k) { fail!(None, "step {}: the walk of {:?} over get_base/get_parent/get_check/is_free/is_terminal ends {} but membership is {}", step, trunc1(k), if b { "in a terminal state" } else { "nowhere" }, set.contains(k)); }
                        }
                    }
                }
            }
            REBUILD => {
                obs.push("[]".into()); unavailable.push(step);
                let keys: Vec<Key> = set.iter().cloned().collect();
                let how = k.first().copied().unwrap_or(0) as u64;
                match guarded(|| t.rebuild(&keys, how)) {
                    Err(p) => { fail!(None, "step {}: bulk build (door {}) of {} keys panicked: {}", step, how, keys.len(), p); coq_ok = false; break; }
                    Ok(None) => {}
                    Ok(Some(Err(e))) => { fail!(None, "step {}: bulk build (door {}) of {} keys failed: {}", step, how, keys.len(), e); coq_ok = false; break; }
                    Ok(Some(Ok(()))) => { cx.sum.dist("bulk_rebuild_ops"); n_insert_calls_dawg = set.len(); }
                }
            }
            CLEAR => {
                obs.push("[]".into()); unavailable.push(step);
                match guarded(|| t.clear()) {
                    Err(p) => { fail!(None, "step {}: clear panicked: {}", step, p); coq_ok = false; break; }
                    Ok(false) => {}
                    Ok(true) => { set.clear(); n_inserts_ok = 0; n_insert_calls_dawg = 0; cx.sum.dist("clear_ops"); if cell.status != "S-only" { coq_ok = false; } }
                }
            }
            _ => { obs.push("[]".into()); }
        }
        // after every mutation: len, emptiness and membership of every key of the history
        if matches!(*op, INS | REM | CLONE | SHRINK | INS_ID | REBUILD | CLEAR) && !failed {
            match guarded(|| (t.len(), t.is_empty_all(), pool.iter().map(|q| t.contains(q)).collect::<Vec<bool>>())) {
                Err(p) => { fail!(None, "step {}: len/contains panicked after the mutation: {}", step, p); coq_ok = false; }
                Ok((n, es, bs)) => {
                    check_len(cx, name, kind, &cj, step, n, set.len(), n_inserts_ok, n_insert_calls_dawg, &mut failed);
                    for (door, e) in es {
                        if e != set.is_empty() && !failed {
                            let class = if kind == Kind::CritBit && e == (n_inserts_ok == 0) { Some("critbit_stub") } else { None };
                            fail!(class, "step {}: {}() = {} but the set has {} keys", step, door, e, set.len());
                        }
                    }
                    for (q, b) in pool.iter().zip(bs) {
                        if failed { break; }
                        check_contains(cx, name, kind, &cj, step, q, b, set.contains(q), &mut failed);
                    }
                }
            }
        }
    }
    // model slots (= kind numbers of ModelAll.run_cell2): 0 node vector, 1 node vector without remove (sparse cells),
    // 2 LOUDS records, 3 critical-bit stub, 4 double array, 5 hash-map trie (sparse cells, second model)
    let slots: &[usize] = match kind { Kind::Patricia => &[0], Kind::Sparse => &[1, 5], Kind::Louds => &[2], Kind::CritBit => &[3], Kind::DoubleArray => &[4], _ => &[] };
    let modelled = !slots.is_empty() && cell.status != "S-only";
    // evaluating the node-vector model's 256-way DFS over several hundred nodes inside Coq is slow: keys beyond 100 bytes are
    // oracle-only there; the double-array model (finite maps) and the hash-map model replay every generated length (<= 301)
    let maxlen = ops.iter().map(|(_, k)| k.len()).max().unwrap_or(0);
    if modelled && coq_ok && obs.len() == ops.len() {
        for &slot in slots {
            let short_enough = force_coq || maxlen <= if slot >= 4 { 301 } else { 100 };
            if !short_enough { continue; }
            if !(force_coq || (allow_coq && cx.used[slot] < cx.budget[slot])) { continue; }
            cx.used[slot] += 1;
            // the secondary insert door is an insert for the model; what a type does not offer and every other secondary entry point is a no-op there
            let ops_coq: Vec<String> = ops.iter().enumerate().map(|(i, (o, k))| format!("({}, {})", if unavailable.contains(&i) { 9 } else if *o == INS_ID { INS } else { *o }, coq_key(k))).collect();
            let term = format!("({}, [{}], [{}])", slot, ops_coq.join("; "), obs.join("; "));
            cx.shards.push(term, cj.clone());
        }
    }
}

/// `Summary::fail` keeps at most `max_failures` records, and the records of the listed finding classes (three per class and cell)
/// fill that room early in a run: a failure outside every class must never be dropped for lack of room (the verdict of `check`
/// reads the records only), so room is made for it - for the first 60 of them.
fn report(sum: &mut Summary, cell: &str, class: Option<&str>, case: Value, detail: &str) {
    if class.is_none() && sum.failures.iter().filter(|f| f["class"].is_null()).count() < 60 {
        sum.max_failures = sum.max_failures.max(sum.failures.len() + 1);
    }
    sum.fail(cell, class, case, detail);
}

fn trunc(v: &[Key]) -> Vec<Key> { v.iter().take(6).map(|k| k.iter().take(12).cloned().collect()).collect() }

fn check_contains(cx: &mut Ctx, name: &str, kind: Kind, cj: &Value, step: usize, k: &[u8], got: bool, want: bool, failed: &mut bool) {
    if got != want {
        let class = if kind == Kind::CritBit && !got { Some("critbit_stub") } else { None };
        report(&mut cx.sum, name, class, cj.clone(), &format!("step {}: contains({:?}) = {} but the key was {}", step, &k[..k.len().min(16)], got, if want { "inserted and not removed" } else { "never inserted or removed" }));
        if class.is_none() { *failed = true; cx.sum.dist(&format!("unlisted_failures/{}", name)); }
    }
}
fn check_len(cx: &mut Ctx, name: &str, kind: Kind, cj: &Value, step: usize, got: usize, want: usize, n_ins: usize, _n_calls: usize, failed: &mut bool) {
    if got != want {
        let class = if kind == Kind::CritBit && got == n_ins { Some("critbit_stub") } else { None };
        report(&mut cx.sum, name, class, cj.clone(), &format!("step {}: len = {} but the set has {} keys", step, got, want));
        if class.is_none() { *failed = true; cx.sum.dist(&format!("unlisted_failures/{}", name)); }
    }
}

// ---------------------------------------------------------------- generators
fn gen_pool(r: &mut Rng, long: bool) -> Vec<Key> {
    let mut pool: Vec<Key> = vec![vec![]];
    let alpha: &[u8] = match r.below(4) { 0 => &[0x00, 0xFF], 1 => &[b'a', b'b'], 2 => &[0x00, 0x01, b'a', 0xFE, 0xFF], _ => &[b'a', b'b', b'c', 0x00, 0xFF, 0x80] };
    // a stem and all of its prefixes, siblings differing in the last byte, extensions
    let stem_len = if long { *r.pick(&[5usize, 33, 40, 65, 70]) } else { r.range(1, 7) as usize };
    let stem: Key = (0..stem_len).map(|_| *r.pick(alpha)).collect();
    let mut cuts: Vec<usize> = (0..=stem_len.min(8)).collect();
    if stem_len > 8 { for c in [15usize, 16, 17, 31, 32, 33, 63, 64, 65, stem_len - 1, stem_len] { if c <= stem_len { cuts.push(c); } } }
    for c in cuts { if r.chance(2, 3) { pool.push(stem[..c].to_vec()); } }
    for _ in 0..r.range(2, 6) {
        let base = r.pick(&pool).clone();
        let mut k = base.clone();
        match r.below(5) {
            0 => { if let Some(l) = k.last_mut() { *l = l.wrapping_add(1); } else { k.push(0); } }
            1 => { k.push(*r.pick(alpha)); }
            2 => { k.push(0x00); }
            3 => { k.push(0xFF); if r.chance(1, 2) { k.push(0xFF); } }
            _ => { let n = r.range(1, 4) as usize; for _ in 0..n { k.push(r.next() as u8); } }
        }
        pool.push(k);
    }
    // a fan: one node with many children at boundary and random symbols (wide nodes, sibling order in the DFS,
    // neighbouring slots in the double array), sometimes a second level under one of them
    if r.chance(1, 2) {
        let base = r.pick(&pool).clone();
        let n = r.range(3, 9);
        let mut last: Key = base.clone();
        for _ in 0..n {
            let b = if r.chance(2, 3) { *r.pick(&[0x00u8, 0x01, 0x7F, 0x80, 0xFD, 0xFE, 0xFF, b'a']) } else { r.next() as u8 };
            let mut k = base.clone(); k.push(b);
            last = k.clone();
            pool.push(k);
        }
        if r.chance(1, 2) { for b in [0x00u8, 0xFE, 0xFF] { let mut k = last.clone(); k.push(b); pool.push(k); } }
    }
    for b in [0x00u8, 0xFF, b'a'] { if r.chance(1, 3) { pool.push(vec![b]); } }
    if long && r.chance(1, 2) {
        let n = *r.pick(&[254usize, 255, 256, 257, 300]);
        let b = *r.pick(alpha);
        let mut k: Key = vec![b; n];
        if r.chance(1, 2) { k[n - 1] = b.wrapping_add(1); }
        pool.push(k.clone());
        if r.chance(1, 2) { k.truncate(n - 1); pool.push(k); }
    }
    // refused operations inside short histories: one key in eight pools is beyond the 255-byte limit of the LOUDS cells
    if !long && r.chance(1, 8) { let n = *r.pick(&[256usize, 257, 300]); let b = *r.pick(alpha); pool.push(vec![b; n]); }
    pool.sort(); pool.dedup();
    pool
}

fn gen_history(r: &mut Rng, long: bool) -> Vec<Op> {
    let pool = gen_pool(r, long);
    let n = r.range(4, if long { 30 } else { 60 }) as usize;
    let mut ops: Vec<Op> = vec![];
    let mut present: Vec<Key> = vec![];
    for _ in 0..n {
        let k = r.pick(&pool).clone();
        match r.below(25) {
            0..=8 => { if !present.contains(&k) { present.push(k.clone()); } ops.push((if r.chance(1, 4) { INS_ID } else { INS }, k)); }
            9..=12 => {
                // mostly remove something present (deletion followed by re-insertion is where the bugs live)
                let k = if !present.is_empty() && r.chance(4, 5) { r.pick(&present).clone() } else { k };
                present.retain(|x| x != &k);
                ops.push((REM, k));
            }
            13..=14 => ops.push((if r.chance(1, 3) { HAS2 } else { HAS }, k)),
            15 => ops.push((match r.below(3) { 0 => CLONE, 1 => SHRINK, _ => LEN }, vec![])),
            16 => { let second = r.chance(1, 3); ops.push((match (r.chance(1, 2), second) { (true, false) => KEYS, (false, false) => PRE, (true, true) => KEYS2, _ => PRE2 }, if k.len() > 3 { k[..r.below(4) as usize].to_vec() } else { k })) }
            17 => ops.push((ACC, k)),
            18..=19 => { let mut q = k; if r.chance(1, 2) { q.push(*r.pick(&[0u8, 0xFF, b'a'])); if r.chance(1, 2) { q.push(r.next() as u8); } } ops.push((LP, q)); }
            // the secondary entry points, in the middle of the history: what they leave behind is read by whatever comes next
            20 => ops.push((REBUILD, vec![r.below(24) as u8])),
            21 => ops.push((if r.chance(1, 6) { CLEAR } else { FSAWALK }, vec![])),
            22 => { let k = if !present.is_empty() && r.chance(2, 3) { r.pick(&present).clone() } else { k }; ops.push((NODEID, k)); }
            23 => { let k = if !present.is_empty() && r.chance(2, 3) { r.pick(&present).clone() } else { k }; ops.push((DAWALK, k)); }
            _ => ops.push((SHRINK, vec![])),
        }
        if ops.last().map(|o| o.0) == Some(CLEAR) { present.clear(); }
    }
    // final dump
    ops.push((LEN, vec![]));
    ops.push((KEYS, vec![]));
    if r.chance(1, 2) { ops.push((KEYS2, vec![])); }
    ops.push((FSAWALK, vec![]));
    for k in &pool {
        if k.len() <= 80 || r.chance(1, 3) {
            ops.push((HAS, k.clone()));
            if r.chance(1, 2) { ops.push((ACC, k.clone())); }
            if r.chance(1, 2) { let mut q = k.clone(); q.push(*r.pick(&[0u8, 0xFF, b'b'])); ops.push((LP, q)); }
            if r.chance(1, 4) && k.len() <= 80 { ops.push((PRE, k.clone())); }
            if r.chance(1, 6) { ops.push((HAS2, k.clone())); }
            if r.chance(1, 6) { ops.push((NODEID, k.clone())); }
            if r.chance(1, 6) { ops.push((DAWALK, k.clone())); }
            if r.chance(1, 12) && k.len() <= 80 { ops.push((PRE2, k.clone())); }
        }
    }
    ops
}

/// every observer of the small universe, through both doors
fn dump_small(ops: &mut Vec<Op>, uni: &[Key]) {
    ops.push((LEN, vec![]));
    ops.push((KEYS, vec![]));
    ops.push((KEYS2, vec![]));
    ops.push((PRE, b"a".to_vec()));
    ops.push((PRE2, b"a".to_vec()));
    ops.push((FSAWALK, vec![]));
    for k in uni { ops.push((ACC, k.clone())); ops.push((HAS2, k.clone())); ops.push((NODEID, k.clone())); ops.push((DAWALK, k.clone())); }
    ops.push((LP, vec![b'a', b'b', b'c']));
    ops.push((LP, vec![b'a', 0, 0]));
}

/// Deterministic family: mutation, housekeeping / bulk step, mutation through the second door, over the small universe -
/// every (first mutation, step, second mutation) triple, each followed by a dump through every observer.
fn staged() -> Vec<Vec<Op>> {
    let uni: Vec<Key> = vec![vec![], b"a".to_vec(), b"ab".to_vec(), b"b".to_vec(), vec![b'a', 0]];
    let muts: Vec<Op> = uni.iter().map(|k| (INS, k.clone())).chain(uni.iter().map(|k| (REM, k.clone()))).collect();
    let steps: Vec<Op> = vec![(CLONE, vec![]), (SHRINK, vec![]), (REBUILD, vec![0]), (REBUILD, vec![1]), (REBUILD, vec![2]), (REBUILD, vec![7]), (CLEAR, vec![]), (FSAWALK, vec![])];
    let mut out = vec![];
    for (i, m1) in muts.iter().enumerate() {
        for (j, st) in steps.iter().enumerate() {
            for (l, m2) in muts.iter().enumerate() {
                // a third of the triples in full would be 800 histories on every cell: every triple is taken once in three rotations of the seed-free index
                if (i + j + l) % 3 != 0 { continue; }
                let mut ops: Vec<Op> = vec![(INS, b"ab".to_vec()), (INS_ID, b"a".to_vec()), m1.clone(), st.clone()];
                ops.push(if m2.0 == INS { (INS_ID, m2.1.clone()) } else { m2.clone() });
                dump_small(&mut ops, &uni);
                out.push(ops);
            }
        }
    }
    out
}

/// Deterministic family "refused operations inside histories": inserts that a cell may refuse (a key beyond the 255-byte limit of
/// the LOUDS record format, a key that needs more states than a capped automaton has room for) through both insert doors, in the
/// middle of a history that goes on - the set is compared after the refused step as after any other (the post-mutation check reads
/// len, is_empty and every key of the history), then mutations that are accepted, another refusal, and a dump through every observer.
/// On the cells that accept such keys the same histories are ordinary long-key histories.
fn refused() -> Vec<Vec<Op>> {
    let uni: Vec<Key> = vec![vec![], b"a".to_vec(), b"ab".to_vec(), b"b".to_vec(), vec![b'a', 0]];
    let mut out = vec![];
    for (v, &n) in [256usize, 257, 300, 256, 301, 256].iter().enumerate() {
        let long: Key = match v % 3 { 0 => vec![b'a'; n], 1 => { let mut k = vec![b'a'; n]; k[n - 1] = b'b'; k } _ => (0..n).map(|i| (i % 251) as u8).collect() };
        let at_limit: Key = long[..255].to_vec();   // the longest key the record format takes: a member whose extension is refused
        let (d1, d2) = if v % 2 == 0 { (INS, INS_ID) } else { (INS_ID, INS) };
        let mut ops: Vec<Op> = vec![(INS, b"ab".to_vec()), (INS_ID, b"a".to_vec())];
        if v >= 3 { ops.push((INS, at_limit.clone())); }
        ops.push((d1, long.clone()));
        ops.push((LEN, vec![])); ops.push((KEYS, vec![])); ops.push((HAS, long.clone())); ops.push((HAS2, long.clone())); ops.push((ACC, long.clone())); ops.push((LP, long.clone()));
        ops.push((PRE, long[..3].to_vec())); ops.push((NODEID, long.clone())); ops.push((FSAWALK, vec![]));
        // accepted mutations after the refusal, through both doors, then the refusal again through the other door
        ops.push((d2, b"b".to_vec())); ops.push((REM, b"a".to_vec())); ops.push((d1, at_limit.clone()));
        ops.push((d2, long.clone()));
        ops.push((d2, vec![b'a', 0]));
        if v == 4 { ops.push((CLONE, vec![])); ops.push((SHRINK, vec![])); ops.push((d1, long.clone())); }
        if v == 5 { ops.push((REBUILD, vec![1])); ops.push((d1, long.clone())); ops.push((INS, b"a".to_vec())); }
        dump_small(&mut ops, &uni);
        ops.push((HAS, long.clone())); ops.push((HAS, at_limit.clone())); ops.push((ACC, at_limit.clone())); ops.push((LP, long.clone())); ops.push((PRE2, long[..2].to_vec()));
        out.push(ops);
    }
    // the capped automaton: short keys until the room is used up, the refused insert, removal is not offered, the observers, a key
    // that still fits (a prefix of a stored key needs no state), the refusal again
    for v in 0..4usize {
        let (d1, d2) = if v % 2 == 0 { (INS, INS_ID) } else { (INS_ID, INS) };
        let mut ops: Vec<Op> = vec![(d1, b"abcde".to_vec()), (d2, b"abxyz".to_vec()), (d1, b"b".to_vec())];
        let over: Key = if v < 2 { b"bcdefg".to_vec() } else { b"abcdq012".to_vec() };
        ops.push((d2, over.clone()));
        ops.push((LEN, vec![])); ops.push((HAS, over.clone())); ops.push((ACC, over.clone())); ops.push((FSAWALK, vec![])); ops.push((LP, over.clone()));
        ops.push((d1, b"abc".to_vec()));
        ops.push((d1, over.clone()));
        ops.push((d2, b"ab".to_vec()));
        if v == 3 { ops.push((REBUILD, vec![0])); ops.push((d2, over.clone())); }
        dump_small(&mut ops, &uni);
        for k in [&b"abcde"[..], b"abxyz", b"abc", b"abcd", b"bc", &over[..]] { ops.push((HAS, k.to_vec())); ops.push((ACC, k.to_vec())); }
        out.push(ops);
    }
    out
}

/// What is asked of a trie that holds a big key set: observers on a sample of its keys and of near misses, then mutations,
/// housekeeping and a bulk rebuild, then the observers again.  Keys are written as references into the key set.
fn big_ops(b: &BigSpec, keys: &[Key], r: &mut Rng, heavy: bool) -> (Vec<Op>, Vec<Value>) {
    let mut ops: Vec<Op> = vec![];
    let mut js: Vec<Value> = vec![];
    let nsample = if heavy { 40 } else { 120 };
    let mut push = |ops: &mut Vec<Op>, js: &mut Vec<Value>, code: u64, i: usize, cut: Option<usize>, ext: &[u8]| {
        let mut k = keys[i].clone();
        if let Some(c) = cut { k.truncate(c); }
        k.extend_from_slice(ext);
        ops.push((code, k));
        let mut o = json!({"k": i});
        if let Some(c) = cut { o["cut"] = json!(c); }
        if !ext.is_empty() { o["push"] = json!(ext); }
        js.push(json!([code, o]));
    };
    let lit = |ops: &mut Vec<Op>, js: &mut Vec<Value>, code: u64, k: Key| { js.push(json!([code, k])); ops.push((code, k)); };
    let _ = b;
    for round in 0..2 {
        lit(&mut ops, &mut js, LEN, vec![]);
        lit(&mut ops, &mut js, KEYS, vec![]);
        if round == 0 { lit(&mut ops, &mut js, KEYS2, vec![]); }
        for s in 0..nsample {
            let i = r.below(keys.len() as u64) as usize;
            let len = keys[i].len();
            push(&mut ops, &mut js, if s % 5 == 4 { HAS2 } else { HAS }, i, None, &[]);
            match s % 8 {
                0 => push(&mut ops, &mut js, HAS, i, Some(len - 1), &[]),              // a proper prefix (a member or not)
                1 => push(&mut ops, &mut js, HAS, i, None, &[*r.pick(&[0u8, 0xFF, b'a'])]), // an extension
                2 => push(&mut ops, &mut js, ACC, i, None, &[]),
                3 => push(&mut ops, &mut js, LP, i, None, &[*r.pick(&[0u8, 0xFF, b'q']), 7]),
                4 => push(&mut ops, &mut js, PRE, i, Some(if len > 3 { len - r.below(3) as usize } else { r.below(len as u64 + 1) as usize }), &[]),
                5 => push(&mut ops, &mut js, NODEID, i, None, &[]),
                6 => push(&mut ops, &mut js, DAWALK, i, None, &[]),
                _ => push(&mut ops, &mut js, ACC, i, Some(len - 1), &[r.next() as u8]),
            }
        }
        if round == 0 {
            // mutations in the big trie: remove, re-insert through both doors, new keys next to old ones, then housekeeping and a bulk rebuild
            lit(&mut ops, &mut js, SHRINK, vec![]);
            if !heavy { lit(&mut ops, &mut js, FSAWALK, vec![]); }
            for s in 0..(if heavy { 12 } else { 30 }) {
                let i = r.below(keys.len() as u64) as usize;
                push(&mut ops, &mut js, REM, i, None, &[]);
                if s % 3 == 0 { push(&mut ops, &mut js, if s % 2 == 0 { INS } else { INS_ID }, i, None, &[]); }
                if s % 4 == 1 { push(&mut ops, &mut js, INS_ID, i, None, &[0xFF, 0x00]); }
            }
            lit(&mut ops, &mut js, SHRINK, vec![]);
            // Clone and the bulk builders go through ZiporaTrie::insert (statistics over all nodes per call): small key sets only
            if !heavy { lit(&mut ops, &mut js, CLONE, vec![]); lit(&mut ops, &mut js, REBUILD, vec![r.below(24) as u8]); }
        }
    }
    (ops, js)
}

/// all histories of `len` mutations over a tiny key universe, each followed by a full dump
fn enumerated(len: usize) -> Vec<Vec<Op>> {
    let uni: Vec<Key> = vec![vec![], b"a".to_vec(), b"ab".to_vec(), b"b".to_vec(), vec![b'a', 0]];
    let nchoices = uni.len() * 2;
    let mut out = vec![];
    let total = nchoices.pow(len as u32);
    for mut code in 0..total {
        let mut ops: Vec<Op> = vec![];
        for _ in 0..len {
            let c = code % nchoices; code /= nchoices;
            ops.push((if c < uni.len() { INS } else { REM }, uni[c % uni.len()].clone()));
        }
        ops.push((LEN, vec![]));
        ops.push((KEYS, vec![]));
        ops.push((PRE, b"a".to_vec()));
        for k in &uni { ops.push((ACC, k.clone())); }
        ops.push((LP, vec![b'a', b'b', b'c']));
        ops.push((LP, vec![b'a', 0, 0]));
        out.push(ops);
    }
    out
}

/// the modelled cells of one kind take turns in being replayed in Coq (round-robin over histories)
fn coq_turn(cell: &CellDef, i: usize) -> bool {
    let same: Vec<&CellDef> = CELLS.iter().filter(|d| d.kind == cell.kind && d.status != "S-only").collect();
    !same.is_empty() && same[i % same.len()].name == cell.name
}

fn parse_case(c: &Value) -> Case {
    let big = c.get("big").filter(|b| b.is_object()).map(|b| BigSpec { kind: b["kind"].as_str().unwrap_or("dense3").to_string(), n: b["n"].as_u64().unwrap_or(0) as usize, seed: b["seed"].as_u64().unwrap_or(0) });
    let keys: Vec<Key> = big.as_ref().map(big_keys).unwrap_or_default();
    let bytes = |v: &Value| -> Key { v.as_array().map(|b| b.iter().map(|x| x.as_u64().unwrap_or(0) as u8).collect()).unwrap_or_default() };
    let arr: Vec<Value> = c["ops"].as_array().cloned().unwrap_or_default();
    let ops: Vec<Op> = arr.iter().map(|o| {
        let code = o[0].as_u64().unwrap_or(2);
        // a key is spelled out, or is a reference into the big key set: {"k": index, "cut": length, "push": [bytes]}
        let k: Key = if o[1].is_object() {
            let mut k = keys.get(o[1]["k"].as_u64().unwrap_or(0) as usize).cloned().unwrap_or_default();
            if let Some(cut) = o[1]["cut"].as_u64() { k.truncate(cut as usize); }
            k.extend(bytes(&o[1]["push"]));
            k
        } else { bytes(&o[1]) };
        (code, k)
    }).collect();
    Case { cfg: c["cfg"].as_u64().unwrap_or(0), big, ops, ops_json: Some(arr) }
}

fn run_case(cx: &mut Ctx, c: &Value, force: bool, out: &str) {
    let name = c["cell"].as_str().unwrap_or("");
    let case = parse_case(c);
    if name == "*" {
        for cell in CELLS { if case.big.is_some() { isolated(cx, cell, &case, out); } else { history(cx, cell, &case, force, true); } }
    } else if let Some(cell) = CELLS.iter().find(|d| d.name == name) {
        if case.big.is_some() { isolated(cx, cell, &case, out); } else { history(cx, cell, &case, force, true); }
    }
}

/// A case with a big key set runs in a child process (this binary, `--replay` of the case, ZV_C05_CHILD set): a structure that
/// has become cyclic or has lost its bounds overflows the stack or aborts in the recursive enumeration, and a dead harness has no
/// failing input to show.  The child's summary is merged; a child that dies or hangs is a failure of the case.
fn isolated(cx: &mut Ctx, cell: &CellDef, case: &Case, out: &str) {
    if std::env::var("ZV_C05_CHILD").is_ok() { history(cx, cell, case, false, false); return; }
    let name = cell.name;
    let cj = case.json(name);
    let dir = format!("{}/big_child", out);
    let _ = std::fs::remove_dir_all(&dir);
    let _ = std::fs::create_dir_all(&dir);
    let file = format!("{}/case.json", dir);
    let _ = std::fs::write(&file, serde_json::to_string(&json!({"case": cj})).unwrap_or_default());
    let exe = match std::env::current_exe() { Ok(e) => e, Err(_) => { history(cx, cell, case, false, false); return; } };
    let child = std::process::Command::new(exe).args(["C05", "--seed", "0", "--tier", "quick", "--out", &dir, "--replay", &file])
        .env("ZV_C05_CHILD", "1").stdin(std::process::Stdio::null()).stdout(std::process::Stdio::null()).stderr(std::process::Stdio::null()).spawn();
    let mut child = match child { Ok(c) => c, Err(_) => { history(cx, cell, case, false, false); return; } };
    let t0 = std::time::Instant::now();
    let status = loop {
        match child.try_wait() {
            Ok(Some(st)) => break Some(st),
            Ok(None) => { if t0.elapsed().as_secs() > 600 { let _ = child.kill(); let _ = child.wait(); break None; } std::thread::sleep(std::time::Duration::from_millis(5)); }
            Err(_) => break None,
        }
    };
    let summary: Option<Value> = std::fs::read_to_string(format!("{}/summary.json", dir)).ok().and_then(|s| serde_json::from_str(&s).ok());
    match (status.map(|s| s.success()), summary) {
        (Some(true), Some(v)) => {
            cx.sum.eval(name, &format!("{} {} {:?} {:?}", name, case.cfg, case.big, case.ops), true);
            cx.sum.cell_status(name, cell.status);
            if let Some(d) = v["distribution"].as_object() { for (k, n) in d { if k != "coq_cases" { *cx.sum.distribution.entry(k.clone()).or_insert(0) += n.as_u64().unwrap_or(0); } } }
            if let Some(d) = v["known_hits"].as_object() { for (k, n) in d { *cx.sum.known_hits.entry(k.clone()).or_insert(0) += n.as_u64().unwrap_or(0); } }
            for f in v["failures"].as_array().cloned().unwrap_or_default() {
                if f["class"].is_null() { report(&mut cx.sum, name, None, f["case"].clone(), f["detail"].as_str().unwrap_or("")); }
                else if cx.sum.failures.len() < cx.sum.max_failures && cx.sum.failures.iter().filter(|g| g["class"] == f["class"] && g["cell"] == f["cell"]).count() < 3 { cx.sum.failures.push(f); }
            }
        }
        (st, _) => {
            cx.sum.eval(name, &format!("{} {} {:?} {:?}", name, case.cfg, case.big, case.ops), true);
            cx.sum.cell_status(name, cell.status);
            let how = match (st, status) { (None, _) => "did not finish within 600 s and was killed".to_string(), (_, Some(s)) => format!("died ({})", s), _ => "died".to_string() };
            report(&mut cx.sum, name, None, cj, &format!("the process that ran this case {} (stack overflow / abort / endless loop inside the trie code)", how));
            cx.sum.dist(&format!("unlisted_failures/{}", name));
        }
    }
}

/// the cells a big key set is loaded into (debug build: the sparse storage takes the maximum over all node ids on every insert,
/// the LOUDS storage scans all records, the DAWG minimisation is quadratic, the parallel front end clones the trie per replica)
fn big_cells(kind: &str, n: usize) -> Vec<&'static str> {
    match (kind, n > 1000) {
        // (the critical-bit stub stores nothing; one parallel front end is enough)
        ("dense3", false) => CELLS.iter().filter(|c| c.kind != Kind::CritBit && c.name != "ParallelLoudsTrie" && c.name != DAWG_CAPPED).map(|c| c.name).collect(),
        // the wrapper types only have the insert door that recomputes the statistics: no 70000-key sets for them
        ("dense3", true) => vec!["ZiporaTrie/default", "ZiporaTrie/varied(Patricia)", "ZiporaTrie/concurrent_high_performance", "ZiporaTrie/varied(DoubleArray)", "SimpleDawg", "NestedTrieDawg(Trie::insert)"],
        _ => vec!["ZiporaTrie/cache_optimized", "ZiporaTrie/sparse_optimized", "CompressedSparseTrie(varied)", "ZiporaTrie/space_optimized", "NestedLoudsTrie(varied)", "ZiporaTrie/custom(DoubleArray,CacheOptimized)", "DoubleArrayTrie(wrapper)", "SimpleDawg", "NestedTrieDawg(Trie::insert)"],
    }
}

pub fn run(args: &Args) {
    // the double-array code prints a trace line per step on stderr in debug builds; the driver buffers our output
    unsafe {
        let devnull = libc::open(b"/dev/null\0".as_ptr() as *const libc::c_char, libc::O_WRONLY);
        if devnull >= 0 { libc::dup2(devnull, 2); }
    }
    let q = !args.thorough;
    let t0 = std::time::Instant::now();
    let trace = std::env::var("ZV_C05_TRACE").is_ok();
    // debugging aid: ZV_C05_ONLY=enumerated|staged|big|generated runs one phase (never set by ./check)
    let only = std::env::var("ZV_C05_ONLY").ok();
    let phase = |p: &str| only.as_deref().map(|o| o.split(',').any(|x| x == p)).unwrap_or(true);
    let tr = |what: &str| { if trace { println!("[c05 {:8.2}s] {}", t0.elapsed().as_secs_f64(), what); } };
    let mut cx = Ctx {
        sum: Summary::new("C05", "histories of insert/remove/contains/len/keys/keys_with_prefix/accepts+lookup/longest_prefix and of the secondary entry points (insert_and_get_node_id / Trie::insert / insert_with_token / bulk_insert, Trie::contains / lookup / *_with_token / parallel_contains / parallel_process, PrefixIterable / parallel_prefix_search, root+transitions+is_final walk, lookup_node_id+restore_string, double-array accessors, clone, shrink_to_fit / refresh_replicas, bulk rebuild through every builder, clear) over a key pool built to share structure (the empty key, a stem and all its prefixes, siblings differing in the last byte, 0x00/0xFF extensions, random tails, 33..70-byte stems beyond the 32/64-byte path limits, 254..300-byte keys around the LOUDS length limit); after every mutation len, is_empty and contains of every key of the history are compared with a BTreeSet, every history ends with a full dump; all histories of 1..3 mutations over {eps,a,ab,b,a\\0} enumerated on every cell, the staged family (mutation, housekeeping or bulk step, mutation through the second door) on every cell, big key sets (dense3: up to 70000 keys of 1..3 bytes; long: 450 keys of 200..255 bytes, more than 2^16 nodes / slots / record bytes) loaded through the bulk door; configurations of the varied cells drawn from boundary values of every field; non-trivial = at least two mutations"),
        shards: CoqShards::new(HEADER, 150),
        budget: if q { [600, 150, 250, 40, 300, 160] } else { [4000, 1500, 1500, 200, 2500, 1500] },
        used: [0; 6],
    };
    if trace { cx.sum.max_failures = 2000; }
    let mut rng = Rng::new(args.seed);
    if let Some(f) = &args.replay {
        let v: Value = serde_json::from_str(&std::fs::read_to_string(f).expect("replay file")).expect("json");
        let c = if v.get("case").is_some() { v["case"].clone() } else { v };
        run_case(&mut cx, &c, true, &args.out);
        let sh = cx.shards.write(&args.out);
        cx.sum.write(&args.out, sh);
        return;
    }
    if let Ok(rd) = std::fs::read_dir("corpus/C05") {
        let mut files: Vec<_> = rd.filter_map(|e| e.ok()).map(|e| e.path()).filter(|p| p.extension().map(|e| e == "json").unwrap_or(false)).collect();
        files.sort();
        for p in files {
            if let Ok(v) = serde_json::from_str::<Value>(&std::fs::read_to_string(&p).unwrap_or_default()) {
                let c = if v.get("case").is_some() { v["case"].clone() } else { v };
                run_case(&mut cx, &c, true, &args.out);
                cx.sum.dist("corpus_cases");
            }
        }
    }
    tr("corpus done");
    // enumerated small universe
    for len in 1..=(if q { 2 } else { 3 }) {
        if !phase("enumerated") { break; }
        for ops in enumerated(len) {
            let case = Case::plain(ops);
            for cell in CELLS {
                if cell.name.starts_with("ParallelLoudsTrie") && len > 1 { continue; }
                // the cells of one kind run the same code: replay each enumerated history in Coq once per kind
                history(&mut cx, cell, &case, false, coq_turn(cell, 0));
            }
            cx.sum.dist("enumerated_histories");
        }
    }
    tr("enumerated done");
    // staged family: mutation, housekeeping / bulk step, mutation through the second door (deterministic; the configuration number moves with the index)
    for (i, ops) in staged().into_iter().enumerate() {
        if !phase("staged") { break; }
        if q && i % 2 == 1 { continue; }
        let mut case = Case::plain(ops);
        case.cfg = 1 + i as u64;
        for cell in CELLS {
            if cell.name.starts_with("ParallelLoudsTrie") && i % 8 != 0 { continue; }
            // the Coq budgets belong to the generated histories: one staged history in eight is replayed
            history(&mut cx, cell, &case, false, i % 8 == 0 && coq_turn(cell, i / 8));
        }
        cx.sum.dist("staged_histories");
    }
    tr("staged done");
    // refused operations inside histories (deterministic): every cell, oracle and - where the history stays inside a model - Coq replay
    for (i, ops) in refused().into_iter().enumerate() {
        if !phase("refused") { break; }
        let mut case = Case::plain(ops);
        case.cfg = 101 + i as u64;
        for cell in CELLS {
            if cell.name.starts_with("ParallelLoudsTrie") && i % 4 != 0 { continue; }
            history(&mut cx, cell, &case, false, coq_turn(cell, i));
        }
        cx.sum.dist("refused_family_histories");
    }
    tr("refused done");
    // big key sets, described by (kind, n, seed)
    let bigs: Vec<(&str, usize)> = if q { vec![("dense3", 300), ("dense3", 70000), ("long", 450)] } else { vec![("dense3", 255), ("dense3", 256), ("dense3", 300), ("dense3", 65535), ("dense3", 65536), ("dense3", 70643), ("long", 450), ("long", 800)] };
    for (bi, (kind, n)) in bigs.into_iter().enumerate() {
        if !phase("big") { break; }
        let b = BigSpec { kind: kind.to_string(), n, seed: args.seed.wrapping_mul(31).wrapping_add(bi as u64) };
        let keys = big_keys(&b);
        let (ops, js) = big_ops(&b, &keys, &mut rng, n > 1000 || kind == "long");
        for (ci, name) in big_cells(kind, n).into_iter().enumerate() {
            // quick tier: two of the cells take the 70000-key set
            if q && n > 1000 && kind == "dense3" && ![0usize, 3].contains(&ci) { continue; }
            if let Some(cell) = CELLS.iter().find(|d| d.name == name) {
                let mut case = Case { cfg: args.seed.wrapping_add(bi as u64), big: Some(b.clone()), ops: ops.clone(), ops_json: Some(js.clone()) };
                if name.starts_with("ParallelLoudsTrie") {
                    // every insert rebuilds all replicas: the bulk load and the observers, two inserts through each door
                    let keep: Vec<usize> = { let mut seen = [0usize; 2]; (0..case.ops.len()).filter(|&i| { let o = case.ops[i].0; if o == INS || o == INS_ID { let j = (o == INS_ID) as usize; seen[j] += 1; seen[j] <= 2 } else { o != REM && o != REBUILD } }).collect() };
                    case.ops = keep.iter().map(|&i| case.ops[i].clone()).collect();
                    case.ops_json = Some(keep.iter().map(|&i| js[i].clone()).collect());
                }
                isolated(&mut cx, cell, &case, &args.out);
                tr(&format!("big {} {} on {}", kind, n, name));
            }
        }
        cx.sum.dist_max("max_big_key_set", keys.len() as u64);
        // nodes of the uncompressed trie of the key set = its distinct non-empty prefixes (+ the root)
        let mut pre: std::collections::HashSet<&[u8]> = std::collections::HashSet::new();
        for k in &keys { for c in 1..=k.len() { if !pre.insert(&k[..c]) && c < k.len() { continue; } } }
        cx.sum.dist_max(&format!("trie_nodes_of_big_key_set/{}", kind), pre.len() as u64 + 1);
    }
    // generated
    let rounds = if q { 400 } else { 5000 };
    for i in 0..rounds {
        if !phase("generated") { break; }
        let long = i % 4 == 3;
        let ops = gen_history(&mut rng, long);
        if i < 3 { cx.sum.sample(json!({"history": ops.iter().take(10).map(|(o, k)| json!([o, k.iter().take(10).collect::<Vec<_>>()])).collect::<Vec<_>>()})); }
        cx.sum.dist_max("max_key_len", ops.iter().map(|(_, k)| k.len()).max().unwrap_or(0) as u64);
        cx.sum.dist_max("max_history_len", ops.len() as u64);
        if long { cx.sum.dist("histories_with_long_keys"); } else { cx.sum.dist("histories_short_keys"); }
        let case = Case { cfg: rng.next() | 1, big: None, ops, ops_json: None };
        for cell in CELLS {
            if cell.name.starts_with("ParallelLoudsTrie") && (i % 8 != 0 || long) { continue; } // replicas are rebuilt on every insert: slow
            if cell.kind == Kind::Dawg && long { continue; }
            // same history on every cell; fresh history for the Patricia cells more often
            history(&mut cx, cell, &case, false, coq_turn(cell, i as usize));
        }
    }
    tr("generated done");
    cx.sum.dist_max("coq_cases", cx.shards.len() as u64);
    let sh = cx.shards.write(&args.out);
    cx.sum.write(&args.out, sh);
}
