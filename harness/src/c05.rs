//! C05: a trie is exactly the set of keys inserted and not removed.
//!
//! Oracle: every history of insert/remove/lookup ops is run against the real code and against a
//! `BTreeSet<Vec<u8>>`; after every mutation `len` and `contains` of every key of the history are
//! compared, explicit query ops compare keys()/keys_with_prefix()/accepts()/lookup()/longest_prefix().
//! Cells: every ZiporaTrieConfig preset, the legacy wrapper types, the alias types, the DAWG types
//! that implement `Trie`, and the ParallelLoudsTrie front end.
//! Model comparison (Coq): Patricia presets (node-vector model, all ops), sparse preset (same model,
//! remove = no-op, and the hash-map model of ModelCs.v), LOUDS preset (flat length-prefixed list model),
//! critical-bit preset (stub model), double-array cells (base/check model of ModelDa.v incl. relocation).
use crate::util::*;
use serde_json::{json, Value};
use std::collections::BTreeSet;
use zipora::fsa::{
    CompressedSparseTrie, ConcurrencyLevel, DoubleArrayTrie, DoubleArrayTrieConfig, FiniteStateAutomaton,
    NestedLoudsTrie, NestedTrieDawg, SimpleDawg, StorageStrategy, Trie, TrieStrategy, ZiporaTrie, ZiporaTrieConfig,
};
use zipora::memory::{SecureMemoryPool, SecurePoolConfig};
use zipora::succinct::RankSelectInterleaved256;

const HEADER: &str = r#"From ZV.Common Require Import Base Run.
From ZV.C05 Require Import Model ModelAll.
Open Scope N_scope.
Definition case_t : Type := N * list (N * list N) * list (list (list N)).
Fixpoint eqb_lln (a b : list (list N)) : bool :=
  match a, b with
  | [], [] => true
  | x :: a', y :: b' => eqb_ln x y && eqb_lln a' b'
  | _, _ => false
  end.
Fixpoint eqb_llln (a b : list (list (list N))) : bool :=
  match a, b with
  | [], [] => true
  | x :: a', y :: b' => eqb_lln x y && eqb_llln a' b'
  | _, _ => false
  end.
Definition ok (c : case_t) : bool := let '(kind, ops, expect) := c in eqb_llln (run_cell2 kind ops) expect.
"#;

// op codes shared with coq/C05/Model.v
const INS: u64 = 0;
const REM: u64 = 1;
const HAS: u64 = 2;
const LEN: u64 = 3;
const KEYS: u64 = 4;
const PRE: u64 = 5;
const ACC: u64 = 6;
const LP: u64 = 7;
const CLONE: u64 = 8; // trie = trie.clone(); the model treats it as a no-op (code 9)
const SHRINK: u64 = 10; // shrink_to_fit(): housekeeping that must not change the set; the models have no such step (code 9)

#[derive(Clone, Copy, PartialEq, Debug)]
enum Kind { Patricia, Sparse, Louds, CritBit, DoubleArray, Dawg }

type Key = Vec<u8>;
type Op = (u64, Key);

/// Uniform face of everything the property names.  `None` = the type has no such operation.
trait Tr {
    fn insert(&mut self, k: &[u8]) -> Result<(), String>;
    fn remove(&mut self, _k: &[u8]) -> Option<Result<bool, String>> { None }
    fn contains(&self, k: &[u8]) -> bool;
    fn len(&self) -> usize;
    fn keys(&self) -> Option<Vec<Key>> { None }
    fn prefix(&self, _p: &[u8]) -> Option<Vec<Key>> { None }
    fn accepts(&self, _k: &[u8]) -> Option<bool> { None }
    fn lookup_some(&self, _k: &[u8]) -> Option<bool> { None }
    fn lp(&self, _q: &[u8]) -> Option<Option<usize>> { None }
    /// replace self by its Clone (ZiporaTrie::clone re-inserts keys() into a fresh trie)
    fn reclone(&mut self) -> bool { false }
    /// shrink_to_fit; false = the type has none
    fn shrink(&mut self) -> bool { false }
}

struct Z(ZiporaTrie);
impl Tr for Z {
    fn insert(&mut self, k: &[u8]) -> Result<(), String> { self.0.insert(k).map_err(|e| format!("{:?}", e)) }
    fn remove(&mut self, k: &[u8]) -> Option<Result<bool, String>> { Some(self.0.remove(k).map_err(|e| format!("{:?}", e))) }
    fn contains(&self, k: &[u8]) -> bool { self.0.contains(k) }
    fn len(&self) -> usize { self.0.len() }
    fn keys(&self) -> Option<Vec<Key>> { Some(self.0.keys()) }
    fn prefix(&self, p: &[u8]) -> Option<Vec<Key>> { Some(self.0.keys_with_prefix(p)) }
    fn accepts(&self, k: &[u8]) -> Option<bool> { Some(self.0.accepts(k)) }
    fn lookup_some(&self, k: &[u8]) -> Option<bool> { Some(Trie::lookup(&self.0, k).is_some()) }
    fn lp(&self, q: &[u8]) -> Option<Option<usize>> { Some(self.0.longest_prefix(q)) }
    fn reclone(&mut self) -> bool { self.0 = self.0.clone(); true }
    fn shrink(&mut self) -> bool { self.0.shrink_to_fit(); true }
}
/// ZiporaTrie driven through the `Trie` trait only (insert returns a state id).
struct ZT(ZiporaTrie);
impl Tr for ZT {
    fn insert(&mut self, k: &[u8]) -> Result<(), String> { Trie::insert(&mut self.0, k).map(|_| ()).map_err(|e| format!("{:?}", e)) }
    fn remove(&mut self, k: &[u8]) -> Option<Result<bool, String>> { Some(self.0.remove(k).map_err(|e| format!("{:?}", e))) }
    fn contains(&self, k: &[u8]) -> bool { Trie::contains(&self.0, k) }
    fn len(&self) -> usize { Trie::len(&self.0) }
    fn keys(&self) -> Option<Vec<Key>> { Some(self.0.iter_all().collect()) }
    fn prefix(&self, p: &[u8]) -> Option<Vec<Key>> { Some(self.0.iter_prefix(p).collect()) }
    fn accepts(&self, k: &[u8]) -> Option<bool> { Some(self.0.accepts(k)) }
    fn lookup_some(&self, k: &[u8]) -> Option<bool> { Some(Trie::lookup(&self.0, k).is_some()) }
    fn lp(&self, q: &[u8]) -> Option<Option<usize>> { Some(self.0.longest_prefix(q)) }
    fn shrink(&mut self) -> bool { self.0.shrink_to_fit(); true }
}
macro_rules! wrapper_tr {
    ($name:ident, $t:ty) => {
        struct $name($t);
        impl Tr for $name {
            fn insert(&mut self, k: &[u8]) -> Result<(), String> { self.0.insert(k).map_err(|e| format!("{:?}", e)) }
            fn contains(&self, k: &[u8]) -> bool { self.0.contains(k) }
            fn len(&self) -> usize { self.0.len() }
            fn accepts(&self, k: &[u8]) -> Option<bool> { Some(self.0.accepts(k)) }
            fn lookup_some(&self, k: &[u8]) -> Option<bool> { Some(self.0.lookup(k).is_some()) }
            fn lp(&self, q: &[u8]) -> Option<Option<usize>> { Some(self.0.longest_prefix(q)) }
        }
    };
}
struct WDa(DoubleArrayTrie);
impl Tr for WDa {
    fn insert(&mut self, k: &[u8]) -> Result<(), String> { self.0.insert(k).map_err(|e| format!("{:?}", e)) }
    fn contains(&self, k: &[u8]) -> bool { self.0.contains(k) }
    fn len(&self) -> usize { self.0.len() }
    fn accepts(&self, k: &[u8]) -> Option<bool> { Some(self.0.accepts(k)) }
    fn lookup_some(&self, k: &[u8]) -> Option<bool> { Some(self.0.lookup(k).is_some()) }
    fn lp(&self, q: &[u8]) -> Option<Option<usize>> { Some(self.0.longest_prefix(q)) }
    fn shrink(&mut self) -> bool { self.0.shrink_to_fit(); true }
}
wrapper_tr!(WNl, NestedLoudsTrie<RankSelectInterleaved256>);
wrapper_tr!(WCs, CompressedSparseTrie);
/// second field: Some(keys so far) = the static use, the automaton is rebuilt by build_from_keys (duplicates included) on every insert
struct WDawg(NestedTrieDawg, Option<Vec<Key>>);
impl Tr for WDawg {
    fn insert(&mut self, k: &[u8]) -> Result<(), String> {
        match &mut self.1 {
            None => Trie::insert(&mut self.0, k).map(|_| ()).map_err(|e| format!("{:?}", e)),
            Some(all) => { all.push(k.to_vec()); self.0.build_from_keys(all.iter()).map_err(|e| format!("{:?}", e)) }
        }
    }
    fn contains(&self, k: &[u8]) -> bool { Trie::contains(&self.0, k) }
    fn len(&self) -> usize { Trie::len(&self.0) }
    fn accepts(&self, k: &[u8]) -> Option<bool> { Some(self.0.accepts(k)) }
    fn lookup_some(&self, k: &[u8]) -> Option<bool> { Some(Trie::lookup(&self.0, k).is_some()) }
    fn lp(&self, q: &[u8]) -> Option<Option<usize>> { Some(self.0.longest_prefix(q)) }
}
struct WSDawg(SimpleDawg);
impl Tr for WSDawg {
    fn insert(&mut self, k: &[u8]) -> Result<(), String> { self.0.insert(k).map_err(|e| format!("{:?}", e)) }
    fn contains(&self, k: &[u8]) -> bool { self.0.contains(k) }
    fn len(&self) -> usize { self.0.num_keys() }
}
struct WPar(zipora::concurrency::parallel_trie::ParallelLoudsTrie, tokio::runtime::Runtime);
impl Tr for WPar {
    fn insert(&mut self, k: &[u8]) -> Result<(), String> { self.1.block_on(self.0.insert(k)).map(|_| ()).map_err(|e| format!("{:?}", e)) }
    fn contains(&self, k: &[u8]) -> bool { self.1.block_on(self.0.contains(k)) }
    fn len(&self) -> usize { self.1.block_on(self.0.len()) }
    fn prefix(&self, p: &[u8]) -> Option<Vec<Key>> { self.1.block_on(self.0.parallel_prefix_search(vec![p.to_vec()])).into_iter().next() }
}

struct CellDef { name: &'static str, kind: Kind, status: &'static str }
const CELLS: &[CellDef] = &[
    CellDef { name: "ZiporaTrie/default", kind: Kind::Patricia, status: "M+S" },
    CellDef { name: "ZiporaTrie/cache_optimized", kind: Kind::Patricia, status: "M+S" },
    CellDef { name: "ZiporaTrie/default/via-Trie-trait", kind: Kind::Patricia, status: "M+S" },
    CellDef { name: "PatriciaTrie(alias)", kind: Kind::Patricia, status: "M+S" },
    CellDef { name: "CritBitTrie(alias)", kind: Kind::Patricia, status: "M+S" },
    CellDef { name: "ZiporaTrie/custom(Patricia,Succinct)", kind: Kind::Patricia, status: "M+S" },
    CellDef { name: "ZiporaTrie/custom(CompressedSparse,Hybrid)", kind: Kind::Sparse, status: "M+S" },
    CellDef { name: "ZiporaTrie/custom(Louds,Standard)", kind: Kind::Louds, status: "M+S" },
    CellDef { name: "ZiporaTrie/custom(DoubleArray,CacheOptimized)", kind: Kind::DoubleArray, status: "M+S" },
    CellDef { name: "ZiporaTrie/custom(CriticalBit,Standard)", kind: Kind::CritBit, status: "finding" },
    CellDef { name: "ZiporaTrie/sparse_optimized", kind: Kind::Sparse, status: "M+S" },
    CellDef { name: "CompressedSparseTrie(wrapper)", kind: Kind::Sparse, status: "M+S" },
    CellDef { name: "ZiporaTrie/space_optimized", kind: Kind::Louds, status: "M+S" },
    CellDef { name: "NestedLoudsTrie(wrapper)", kind: Kind::Louds, status: "M+S" },
    CellDef { name: "ZiporaTrie/string_specialized", kind: Kind::CritBit, status: "finding" },
    CellDef { name: "ZiporaTrie/concurrent_high_performance", kind: Kind::DoubleArray, status: "M+S" },
    CellDef { name: "DoubleArrayTrie(wrapper)", kind: Kind::DoubleArray, status: "M+S" },
    CellDef { name: "DoubleArrayTrie(wrapper,capacity=1)", kind: Kind::DoubleArray, status: "M+S" },
    CellDef { name: "NestedTrieDawg(Trie::insert)", kind: Kind::Dawg, status: "S-only" },
    CellDef { name: "NestedTrieDawg(build_from_keys)", kind: Kind::Dawg, status: "S-only" },
    CellDef { name: "SimpleDawg", kind: Kind::Dawg, status: "S-only" },
    CellDef { name: "ParallelLoudsTrie", kind: Kind::Patricia, status: "S-only" },
];

fn make(cell: &str) -> Result<Box<dyn Tr>, String> {
    let r = guarded(|| -> Result<Box<dyn Tr>, String> {
        Ok(match cell {
            "ZiporaTrie/default" | "PatriciaTrie(alias)" => Box::new(Z(zipora::fsa::PatriciaTrie::new())),
            "CritBitTrie(alias)" => Box::new(Z(zipora::fsa::CritBitTrie::new())),
            "ZiporaTrie/default/via-Trie-trait" => Box::new(ZT(ZiporaTrie::new())),
            "ZiporaTrie/cache_optimized" => Box::new(Z(ZiporaTrie::with_config(ZiporaTrieConfig::cache_optimized()))),
            "ZiporaTrie/sparse_optimized" => Box::new(Z(ZiporaTrie::with_config(ZiporaTrieConfig::sparse_optimized()))),
            "ZiporaTrie/space_optimized" => Box::new(Z(ZiporaTrie::with_config(ZiporaTrieConfig::space_optimized()))),
            "ZiporaTrie/string_specialized" => Box::new(Z(ZiporaTrie::with_config(ZiporaTrieConfig::string_specialized()))),
            "ZiporaTrie/concurrent_high_performance" => {
                let pool = SecureMemoryPool::new(SecurePoolConfig::small_secure()).map_err(|e| format!("{:?}", e))?;
                Box::new(Z(ZiporaTrie::with_config(ZiporaTrieConfig::concurrent_high_performance(pool))))
            }
            n if n.starts_with("ZiporaTrie/custom(") => {
                // every TrieStrategy crossed with a StorageStrategy other than the one its preset uses
                let mut c = ZiporaTrieConfig::default();
                let std_storage = StorageStrategy::Standard { initial_capacity: 3, growth_factor: 1.1 };
                match n {
                    "ZiporaTrie/custom(Patricia,Succinct)" => {
                        c.trie_strategy = TrieStrategy::Patricia { max_path_length: 2, compression_threshold: 1, adaptive_compression: false };
                        c.storage_strategy = ZiporaTrieConfig::space_optimized().storage_strategy;
                        c.cache_optimization = false;
                    }
                    "ZiporaTrie/custom(CompressedSparse,Hybrid)" => {
                        c.trie_strategy = ZiporaTrieConfig::sparse_optimized().trie_strategy;
                        c.storage_strategy = StorageStrategy::Hybrid { primary: Box::new(std_storage.clone()), secondary: Box::new(ZiporaTrieConfig::cache_optimized().storage_strategy), switch_threshold: 2 };
                    }
                    "ZiporaTrie/custom(Louds,Standard)" => {
                        c.trie_strategy = TrieStrategy::Louds { nesting_levels: 1, fragment_compression: false, adaptive_backends: false, cache_aligned: true };
                        c.storage_strategy = std_storage;
                    }
                    "ZiporaTrie/custom(DoubleArray,CacheOptimized)" => {
                        c.trie_strategy = TrieStrategy::DoubleArray { initial_capacity: 0, growth_factor: 1.0, free_list_management: false, auto_shrink: true };
                        c.storage_strategy = ZiporaTrieConfig::cache_optimized().storage_strategy;
                    }
                    _ => {
                        c.trie_strategy = ZiporaTrieConfig::string_specialized().trie_strategy;
                        c.storage_strategy = std_storage;
                    }
                }
                Box::new(Z(ZiporaTrie::with_config(c)))
            }
            "DoubleArrayTrie(wrapper)" => Box::new(WDa(DoubleArrayTrie::new())),
            "DoubleArrayTrie(wrapper,capacity=1)" => {
                let mut c = DoubleArrayTrieConfig::default();
                c.initial_capacity = 1;
                Box::new(WDa(DoubleArrayTrie::with_config(c)))
            }
            "NestedLoudsTrie(wrapper)" => Box::new(WNl(NestedLoudsTrie::new().map_err(|e| format!("{:?}", e))?)),
            "CompressedSparseTrie(wrapper)" => Box::new(WCs(CompressedSparseTrie::new(ConcurrencyLevel::SingleThreadStrict).map_err(|e| format!("{:?}", e))?)),
            "NestedTrieDawg(Trie::insert)" => Box::new(WDawg(NestedTrieDawg::new().map_err(|e| format!("{:?}", e))?, None)),
            "NestedTrieDawg(build_from_keys)" => Box::new(WDawg(NestedTrieDawg::new().map_err(|e| format!("{:?}", e))?, Some(vec![]))),
            "SimpleDawg" => Box::new(WSDawg(SimpleDawg::new())),
            "ParallelLoudsTrie" => {
                let rt = tokio::runtime::Builder::new_current_thread().build().map_err(|e| format!("{:?}", e))?;
                Box::new(WPar(zipora::concurrency::parallel_trie::ParallelLoudsTrie::new(), rt))
            }
            _ => return Err(format!("unknown cell {}", cell)),
        })
    });
    match r { Ok(x) => x, Err(p) => Err(format!("constructor panicked: {}", p)) }
}

struct Ctx { sum: Summary, shards: CoqShards, budget: [usize; 6], used: [usize; 6] }

fn coq_key(k: &[u8]) -> String { coq_bytes(k) }
fn coq_keys(ks: &[Key]) -> String { format!("[{}]", ks.iter().map(|k| coq_key(k)).collect::<Vec<_>>().join("; ")) }
fn b2n(b: bool) -> String { format!("[[{}]%N]", if b { 1 } else { 0 }) }

fn sorted(mut v: Vec<Key>) -> Vec<Key> { v.sort(); v }

/// Run one history on one cell. Returns nothing; failures go to the summary.
fn history(cx: &mut Ctx, cell: &CellDef, ops: &[Op], force_coq: bool, allow_coq: bool) {
    let name = cell.name;
    let kind = cell.kind;
    let cj = json!({"cell": name, "ops": ops.iter().map(|(o, k)| json!([o, k])).collect::<Vec<_>>()});
    let keytext = format!("{} {:?}", name, ops);
    let nmut = ops.iter().filter(|(o, _)| *o <= REM).count();
    cx.sum.eval(name, &keytext, nmut >= 2);
    cx.sum.cell_status(name, cell.status);
    let mut t = match make(name) {
        Ok(t) => t,
        Err(e) => { cx.sum.fail(name, None, cj, &format!("cannot construct: {}", e)); return; }
    };
    // every key mentioned by the history (and each of its prefixes' extension by one byte is covered by the generators)
    let mut pool: Vec<Key> = ops.iter().map(|(_, k)| k.clone()).collect();
    pool.sort(); pool.dedup();
    let mut set: BTreeSet<Key> = BTreeSet::new();
    let mut obs: Vec<String> = vec![];
    let mut unavailable: Vec<usize> = vec![];  // ops the type does not offer: code 9 (no-op) on the model side
    let mut coq_ok = true;              // false once the history leaves what the Coq model describes
    let mut n_inserts_ok: usize = 0;      // critical-bit stub predicate: len counts every accepted insert call
    let mut n_insert_calls_dawg: usize = 0;
    let mut failed = false;
    macro_rules! fail { ($class:expr, $($arg:tt)*) => {{ let cl: Option<&str> = $class; cx.sum.fail(name, cl, cj.clone(), &format!($($arg)*)); if cl.is_none() { failed = true; cx.sum.dist(&format!("unlisted_failures/{}", name)); } }}; }

    for (step, (op, k)) in ops.iter().enumerate() {
        if failed { break; }
        match *op {
            INS => {
                let r = guarded(|| t.insert(k));
                match r {
                    Err(p) => { fail!(None, "step {}: insert({:?}) panicked: {}", step, k, p); obs.push("[[2]%N]".into()); coq_ok = false; break; }
                    Ok(Err(e)) => {
                        obs.push("[[1]%N]".into());
                        if kind == Kind::Louds && k.len() > 255 { fail!(Some("louds_key_over_255_refused"), "step {}: insert of a {}-byte key refused: {}", step, k.len(), e); }
                        else { fail!(None, "step {}: insert({:?}) returned an error: {}", step, k, e); }
                    }
                    Ok(Ok(())) => {
                        obs.push("[[0]%N]".into());
                        n_inserts_ok += 1;
                        n_insert_calls_dawg += 1;
                        set.insert(k.clone());
                    }
                }
            }
            REM => {
                let r = guarded(|| t.remove(k));
                match r {
                    Err(p) => { fail!(None, "step {}: remove({:?}) panicked: {}", step, k, p); coq_ok = false; break; }
                    Ok(None) => { obs.push("[]".into()); unavailable.push(step); } // type has no remove: nothing to decide
                    Ok(Some(Err(e))) => { fail!(None, "step {}: remove({:?}) returned an error: {}", step, k, e); obs.push("[[2]%N]".into()); }
                    Ok(Some(Ok(b))) => {
                        obs.push(b2n(b));
                        let was = set.contains(k);
                        if b != was {
                            let still = guarded(|| t.contains(k)).unwrap_or(false);
                            if was && !b && still && kind != Kind::Patricia && kind != Kind::CritBit {
                                // recorded finding: remove is not implemented for this strategy; the key stays
                                let class = match kind { Kind::Sparse => "remove_unsupported_sparse", Kind::Louds => "remove_unsupported_louds", _ => "remove_unsupported_double_array" };
                                fail!(Some(class), "step {}: remove({:?}) of a present key returned false and the key stays", step, k);
                            } else if was && !b && kind == Kind::CritBit {
                                fail!(Some("critbit_stub"), "step {}: remove({:?}) of an inserted key returned false", step, k);
                                set.remove(k);
                            } else {
                                fail!(None, "step {}: remove({:?}) returned {} but the key was {}", step, k, b, if was { "present" } else { "absent" });
                            }
                        } else if was { set.remove(k); }
                    }
                }
            }
            HAS => {
                match guarded(|| t.contains(k)) {
                    Err(p) => { fail!(None, "step {}: contains({:?}) panicked: {}", step, k, p); obs.push("[]".into()); coq_ok = false; }
                    Ok(b) => { obs.push(b2n(b)); check_contains(cx, name, kind, &cj, step, k, b, set.contains(k), &mut failed); }
                }
            }
            LEN => {
                match guarded(|| t.len()) {
                    Err(p) => { fail!(None, "step {}: len panicked: {}", step, p); obs.push("[]".into()); coq_ok = false; }
                    Ok(n) => { obs.push(format!("[[{}]%N]", n)); check_len(cx, name, kind, &cj, step, n, set.len(), n_inserts_ok, n_insert_calls_dawg, &mut failed); }
                }
            }
            KEYS | PRE => {
                let r = guarded(|| if *op == KEYS { t.keys() } else { t.prefix(k) });
                match r {
                    Err(p) => { fail!(None, "step {}: keys/prefix panicked: {}", step, p); obs.push("[]".into()); coq_ok = false; }
                    Ok(None) => { obs.push("[]".into()); unavailable.push(step); }
                    Ok(Some(got)) => {
                        let pre: &[u8] = if *op == KEYS { &[] } else { k };
                        let want: Vec<Key> = set.iter().filter(|x| x.starts_with(pre)).cloned().collect();
                        // the enumeration order is not part of the property: compare as sets, but each key once
                        let gs = sorted(got.clone());
                        // for the model comparison the Patricia/LOUDS order is deterministic; hash-map based ones are sorted
                        obs.push(coq_keys(if kind == Kind::Sparse { &gs } else { &got }));
                        if gs != want {
                            let class = if kind == Kind::CritBit && got.is_empty() { Some("critbit_stub") } else { None };
                            let what = if *op == KEYS { "keys()".to_string() } else { format!("keys_with_prefix({:?})", k) };
                            fail!(class, "step {}: {} = {:?} but the set restricted to the prefix is {:?}", step, what, trunc(&gs), trunc(&want));
                        }
                    }
                }
            }
            ACC => {
                let r = guarded(|| (t.accepts(k), t.lookup_some(k)));
                match r {
                    Err(p) => { fail!(None, "step {}: accepts/lookup({:?}) panicked: {}", step, k, p); obs.push("[]".into()); coq_ok = false; }
                    Ok((a, l)) => {
                        obs.push(match a { Some(b) => b2n(b), None => { unavailable.push(step); "[]".into() } });
                        let want = set.contains(k);
                        for (what, v) in [("accepts", a), ("lookup(..).is_some()", l)] {
                            if let Some(b) = v {
                                if b != want {
                                    let class = if kind == Kind::Louds && !b { Some("louds_fsa_view_stub") }
                                                else if kind == Kind::CritBit && !b { Some("critbit_stub") } else { None };
                                    fail!(class, "step {}: {}({:?}) = {} but membership is {}", step, what, k, b, want);
                                }
                            }
                        }
                    }
                }
            }
            LP => {
                match guarded(|| t.lp(k)) {
                    Err(p) => { fail!(None, "step {}: longest_prefix({:?}) panicked: {}", step, k, p); obs.push("[]".into()); coq_ok = false; }
                    Ok(None) => { obs.push("[]".into()); unavailable.push(step); }
                    Ok(Some(got)) => {
                        obs.push(match got { Some(n) => format!("[[{}]%N]", n), None => "[]".into() });
                        let want = (0..=k.len()).rev().find(|&n| set.contains(&k[..n]));
                        if got != want {
                            let class = if kind == Kind::Louds && got.is_none() { Some("louds_fsa_view_stub") }
                                        else if kind == Kind::CritBit && got.is_none() { Some("critbit_stub") } else { None };
                            fail!(class, "step {}: longest_prefix({:?}) = {:?} but the longest member prefix has length {:?}", step, k, got, want);
                        }
                    }
                }
            }
            CLONE => {
                match guarded(|| t.reclone()) {
                    Err(p) => { fail!(None, "step {}: clone panicked: {}", step, p); coq_ok = false; break; }
                    // the node-vector, double-array and hash-map models have clone; the other models treat it as a no-op
                    Ok(done) => { obs.push("[]".into()); if !(done && (kind == Kind::Patricia || kind == Kind::Sparse || kind == Kind::DoubleArray)) { unavailable.push(step); } }
                }
            }
            SHRINK => {
                match guarded(|| t.shrink()) {
                    Err(p) => { fail!(None, "step {}: shrink_to_fit panicked: {}", step, p); coq_ok = false; break; }
                    Ok(done) => { obs.push("[]".into()); unavailable.push(step); if done { cx.sum.dist("shrink_to_fit_ops"); } }
                }
            }
            _ => { obs.push("[]".into()); }
        }
        // after every mutation: len and membership of every key of the history
        if (*op <= REM || *op == CLONE || *op == SHRINK) && !failed {
            match guarded(|| (t.len(), pool.iter().map(|q| t.contains(q)).collect::<Vec<bool>>())) {
                Err(p) => { fail!(None, "step {}: len/contains panicked after the mutation: {}", step, p); coq_ok = false; }
                Ok((n, bs)) => {
                    check_len(cx, name, kind, &cj, step, n, set.len(), n_inserts_ok, n_insert_calls_dawg, &mut failed);
                    for (q, b) in pool.iter().zip(bs) {
                        check_contains(cx, name, kind, &cj, step, q, b, set.contains(q), &mut failed);
                        if failed { break; }
                    }
                }
            }
        }
    }
    // model slots (= kind numbers of ModelAll.run_cell2): 0 node vector, 1 node vector without remove (sparse cells),
    // 2 LOUDS records, 3 critical-bit stub, 4 double array, 5 hash-map trie (sparse cells, second model)
    let slots: &[usize] = match kind { Kind::Patricia => &[0], Kind::Sparse => &[1, 5], Kind::Louds => &[2], Kind::CritBit => &[3], Kind::DoubleArray => &[4], _ => &[] };
    let modelled = !slots.is_empty() && cell.status != "S-only";
    // evaluating the node-vector model's 256-way DFS over several hundred nodes inside Coq is slow: keys beyond 100 bytes are
    // oracle-only there; the double-array model (finite maps) and the hash-map model replay every generated length (<= 301)
    let maxlen = ops.iter().map(|(_, k)| k.len()).max().unwrap_or(0);
    if modelled && coq_ok && obs.len() == ops.len() {
        for &slot in slots {
            let short_enough = force_coq || maxlen <= if slot >= 4 { 301 } else { 100 };
            if !short_enough { continue; }
            if !(force_coq || (allow_coq && cx.used[slot] < cx.budget[slot])) { continue; }
            cx.used[slot] += 1;
            let ops_coq: Vec<String> = ops.iter().enumerate().map(|(i, (o, k))| format!("({}, {})", if unavailable.contains(&i) { 9 } else { *o }, coq_key(k))).collect();
            let term = format!("({}, [{}], [{}])", slot, ops_coq.join("; "), obs.join("; "));
            cx.shards.push(term, cj.clone());
        }
    }
}

fn trunc(v: &[Key]) -> Vec<Key> { v.iter().take(6).map(|k| k.iter().take(12).cloned().collect()).collect() }

fn check_contains(cx: &mut Ctx, name: &str, kind: Kind, cj: &Value, step: usize, k: &[u8], got: bool, want: bool, failed: &mut bool) {
    if got != want {
        let class = if kind == Kind::CritBit && !got { Some("critbit_stub") } else { None };
        cx.sum.fail(name, class, cj.clone(), &format!("step {}: contains({:?}) = {} but the key was {}", step, &k[..k.len().min(16)], got, if want { "inserted and not removed" } else { "never inserted or removed" }));
        if class.is_none() { *failed = true; cx.sum.dist(&format!("unlisted_failures/{}", name)); }
    }
}
fn check_len(cx: &mut Ctx, name: &str, kind: Kind, cj: &Value, step: usize, got: usize, want: usize, n_ins: usize, _n_calls: usize, failed: &mut bool) {
    if got != want {
        let class = if kind == Kind::CritBit && got == n_ins { Some("critbit_stub") } else { None };
        cx.sum.fail(name, class, cj.clone(), &format!("step {}: len = {} but the set has {} keys", step, got, want));
        if class.is_none() { *failed = true; cx.sum.dist(&format!("unlisted_failures/{}", name)); }
    }
}

// ---------------------------------------------------------------- generators
fn gen_pool(r: &mut Rng, long: bool) -> Vec<Key> {
    let mut pool: Vec<Key> = vec![vec![]];
    let alpha: &[u8] = match r.below(4) { 0 => &[0x00, 0xFF], 1 => &[b'a', b'b'], 2 => &[0x00, 0x01, b'a', 0xFE, 0xFF], _ => &[b'a', b'b', b'c', 0x00, 0xFF, 0x80] };
    // a stem and all of its prefixes, siblings differing in the last byte, extensions
    let stem_len = if long { *r.pick(&[5usize, 33, 40, 65, 70]) } else { r.range(1, 7) as usize };
    let stem: Key = (0..stem_len).map(|_| *r.pick(alpha)).collect();
    let mut cuts: Vec<usize> = (0..=stem_len.min(8)).collect();
    if stem_len > 8 { for c in [15usize, 16, 17, 31, 32, 33, 63, 64, 65, stem_len - 1, stem_len] { if c <= stem_len { cuts.push(c); } } }
    for c in cuts { if r.chance(2, 3) { pool.push(stem[..c].to_vec()); } }
    for _ in 0..r.range(2, 6) {
        let base = r.pick(&pool).clone();
        let mut k = base.clone();
        match r.below(5) {
            0 => { if let Some(l) = k.last_mut() { *l = l.wrapping_add(1); } else { k.push(0); } }
            1 => { k.push(*r.pick(alpha)); }
            2 => { k.push(0x00); }
            3 => { k.push(0xFF); if r.chance(1, 2) { k.push(0xFF); } }
            _ => { let n = r.range(1, 4) as usize; for _ in 0..n { k.push(r.next() as u8); } }
        }
        pool.push(k);
    }
    // a fan: one node with many children at boundary and random symbols (wide nodes, sibling order in the DFS,
    // neighbouring slots in the double array), sometimes a second level under one of them
    if r.chance(1, 2) {
        let base = r.pick(&pool).clone();
        let n = r.range(3, 9);
        let mut last: Key = base.clone();
        for _ in 0..n {
            let b = if r.chance(2, 3) { *r.pick(&[0x00u8, 0x01, 0x7F, 0x80, 0xFD, 0xFE, 0xFF, b'a']) } else { r.next() as u8 };
            let mut k = base.clone(); k.push(b);
            last = k.clone();
            pool.push(k);
        }
        if r.chance(1, 2) { for b in [0x00u8, 0xFE, 0xFF] { let mut k = last.clone(); k.push(b); pool.push(k); } }
    }
    for b in [0x00u8, 0xFF, b'a'] { if r.chance(1, 3) { pool.push(vec![b]); } }
    if long && r.chance(1, 2) {
        let n = *r.pick(&[254usize, 255, 256, 257, 300]);
        let b = *r.pick(alpha);
        let mut k: Key = vec![b; n];
        if r.chance(1, 2) { k[n - 1] = b.wrapping_add(1); }
        pool.push(k.clone());
        if r.chance(1, 2) { k.truncate(n - 1); pool.push(k); }
    }
    pool.sort(); pool.dedup();
    pool
}

fn gen_history(r: &mut Rng, long: bool) -> Vec<Op> {
    let pool = gen_pool(r, long);
    let n = r.range(4, if long { 30 } else { 60 }) as usize;
    let mut ops: Vec<Op> = vec![];
    let mut present: Vec<Key> = vec![];
    for _ in 0..n {
        let k = r.pick(&pool).clone();
        match r.below(20) {
            0..=8 => { if !present.contains(&k) { present.push(k.clone()); } ops.push((INS, k)); }
            9..=12 => {
                // mostly remove something present (deletion followed by re-insertion is where the bugs live)
                let k = if !present.is_empty() && r.chance(4, 5) { r.pick(&present).clone() } else { k };
                present.retain(|x| x != &k);
                ops.push((REM, k));
            }
            13..=14 => ops.push((HAS, k)),
            15 => ops.push((match r.below(3) { 0 => CLONE, 1 => SHRINK, _ => LEN }, vec![])),
            16 => ops.push((if r.chance(1, 2) { KEYS } else { PRE }, if k.len() > 3 { k[..r.below(4) as usize].to_vec() } else { k })),
            17 => ops.push((ACC, k)),
            _ => { let mut q = k; if r.chance(1, 2) { q.push(*r.pick(&[0u8, 0xFF, b'a'])); if r.chance(1, 2) { q.push(r.next() as u8); } } ops.push((LP, q)); }
        }
    }
    // final dump
    ops.push((LEN, vec![]));
    ops.push((KEYS, vec![]));
    for k in &pool {
        if k.len() <= 80 || r.chance(1, 3) {
            ops.push((HAS, k.clone()));
            if r.chance(1, 2) { ops.push((ACC, k.clone())); }
            if r.chance(1, 2) { let mut q = k.clone(); q.push(*r.pick(&[0u8, 0xFF, b'b'])); ops.push((LP, q)); }
            if r.chance(1, 4) && k.len() <= 80 { ops.push((PRE, k.clone())); }
        }
    }
    ops
}

/// all histories of `len` mutations over a tiny key universe, each followed by a full dump
fn enumerated(len: usize) -> Vec<Vec<Op>> {
    let uni: Vec<Key> = vec![vec![], b"a".to_vec(), b"ab".to_vec(), b"b".to_vec(), vec![b'a', 0]];
    let nchoices = uni.len() * 2;
    let mut out = vec![];
    let total = nchoices.pow(len as u32);
    for mut code in 0..total {
        let mut ops: Vec<Op> = vec![];
        for _ in 0..len {
            let c = code % nchoices; code /= nchoices;
            ops.push((if c < uni.len() { INS } else { REM }, uni[c % uni.len()].clone()));
        }
        ops.push((LEN, vec![]));
        ops.push((KEYS, vec![]));
        ops.push((PRE, b"a".to_vec()));
        for k in &uni { ops.push((ACC, k.clone())); }
        ops.push((LP, vec![b'a', b'b', b'c']));
        ops.push((LP, vec![b'a', 0, 0]));
        out.push(ops);
    }
    out
}

/// the modelled cells of one kind take turns in being replayed in Coq (round-robin over histories)
fn coq_turn(cell: &CellDef, i: usize) -> bool {
    let same: Vec<&CellDef> = CELLS.iter().filter(|d| d.kind == cell.kind && d.status != "S-only").collect();
    !same.is_empty() && same[i % same.len()].name == cell.name
}

fn parse_ops(c: &Value) -> Vec<Op> {
    c["ops"].as_array().map(|a| a.iter().map(|o| {
        let code = o[0].as_u64().unwrap_or(2);
        let k: Key = o[1].as_array().map(|b| b.iter().map(|x| x.as_u64().unwrap_or(0) as u8).collect()).unwrap_or_default();
        (code, k)
    }).collect()).unwrap_or_default()
}

fn run_case(cx: &mut Ctx, c: &Value, force: bool) {
    let name = c["cell"].as_str().unwrap_or("");
    let ops = parse_ops(c);
    if name == "*" {
        for cell in CELLS { history(cx, cell, &ops, force, true); }
    } else if let Some(cell) = CELLS.iter().find(|d| d.name == name) {
        history(cx, cell, &ops, force, true);
    }
}

pub fn run(args: &Args) {
    // the double-array code prints a trace line per step on stderr in debug builds; the driver buffers our output
    unsafe {
        let devnull = libc::open(b"/dev/null\0".as_ptr() as *const libc::c_char, libc::O_WRONLY);
        if devnull >= 0 { libc::dup2(devnull, 2); }
    }
    let q = !args.thorough;
    let mut cx = Ctx {
        sum: Summary::new("C05", "histories of insert/remove/contains/len/keys/keys_with_prefix/accepts+lookup/longest_prefix over a key pool built to share structure (the empty key, a stem and all its prefixes, siblings differing in the last byte, 0x00/0xFF extensions, random tails, 33..70-byte stems beyond the 32/64-byte path limits, 254..300-byte keys around the LOUDS length limit); after every mutation len and contains of every key of the history are compared with a BTreeSet, every history ends with a full dump; all histories of 1..3 mutations over {eps,a,ab,b,a\\0} enumerated on every cell; non-trivial = at least two mutations"),
        shards: CoqShards::new(HEADER, 150),
        budget: if q { [600, 150, 250, 40, 300, 160] } else { [4000, 1500, 1500, 200, 2500, 1500] },
        used: [0; 6],
    };
    let mut rng = Rng::new(args.seed);
    if let Some(f) = &args.replay {
        let v: Value = serde_json::from_str(&std::fs::read_to_string(f).expect("replay file")).expect("json");
        let c = if v.get("case").is_some() { v["case"].clone() } else { v };
        run_case(&mut cx, &c, true);
        let sh = cx.shards.write(&args.out);
        cx.sum.write(&args.out, sh);
        return;
    }
    if let Ok(rd) = std::fs::read_dir("corpus/C05") {
        let mut files: Vec<_> = rd.filter_map(|e| e.ok()).map(|e| e.path()).filter(|p| p.extension().map(|e| e == "json").unwrap_or(false)).collect();
        files.sort();
        for p in files {
            if let Ok(v) = serde_json::from_str::<Value>(&std::fs::read_to_string(&p).unwrap_or_default()) {
                let c = if v.get("case").is_some() { v["case"].clone() } else { v };
                run_case(&mut cx, &c, true);
                cx.sum.dist("corpus_cases");
            }
        }
    }
    // enumerated small universe
    for len in 1..=(if q { 2 } else { 3 }) {
        for ops in enumerated(len) {
            for cell in CELLS {
                if cell.name == "ParallelLoudsTrie" && len > 1 { continue; }
                // the cells of one kind run the same code: replay each enumerated history in Coq once per kind
                history(&mut cx, cell, &ops, false, coq_turn(cell, 0));
            }
            cx.sum.dist("enumerated_histories");
        }
    }
    // generated
    let rounds = if q { 400 } else { 5000 };
    for i in 0..rounds {
        let long = i % 4 == 3;
        let ops = gen_history(&mut rng, long);
        if i < 3 { cx.sum.sample(json!({"history": ops.iter().take(10).map(|(o, k)| json!([o, k.iter().take(10).collect::<Vec<_>>()])).collect::<Vec<_>>()})); }
        cx.sum.dist_max("max_key_len", ops.iter().map(|(_, k)| k.len()).max().unwrap_or(0) as u64);
        cx.sum.dist_max("max_history_len", ops.len() as u64);
        if long { cx.sum.dist("histories_with_long_keys"); } else { cx.sum.dist("histories_short_keys"); }
        for cell in CELLS {
            if cell.name == "ParallelLoudsTrie" && (i % 8 != 0 || long) { continue; } // replicas are rebuilt on every insert: slow
            if cell.kind == Kind::Dawg && long { continue; }
            // same history on every cell; fresh history for the Patricia cells more often
            history(&mut cx, cell, &ops, false, coq_turn(cell, i as usize));
        }
    }
    cx.sum.dist_max("coq_cases", cx.shards.len() as u64);
    let sh = cx.shards.write(&args.out);
    cx.sum.write(&args.out, sh);
}
