//! C02, extension cells (second file of the module; `super` is c02.rs).
//!  * oracle families added after seeded-change round 2: large, extremely compressible payloads (described by (kind, n))
//!    through every route that can reach zstd, and `compress_batch` calls whose deadline passes in the middle of the batch;
//!  * (further below) the cells tied to the mechanism models added by the extension: compressor headers, front-end
//!    automata, the PA-Zip compress loop, the SIMD LZ77 token stream.
use super::*;

// ---------------------------------------------------------------------------------------------
// large compressible payloads, described by (kind, n)
// ---------------------------------------------------------------------------------------------
pub const LINE: &[u8] = b"2026-10-02T00:00:00Z INFO request served ok 200\n";

/// kind 0: n x 0xAB; 1: n zero bytes; 2: one short log line repeated; 3: a long run, then text, then a run again;
/// 4: 0x00 0x01 0x02 (the real-time block tags) followed by zeros
pub fn compressible_payload(kind: u64, n: usize) -> Vec<u8> {
    match kind {
        0 => vec![0xAB; n],
        1 => vec![0u8; n],
        2 => (0..n).map(|i| LINE[i % LINE.len()]).collect(),
        3 => { let mut v = vec![b'x'; n / 2]; v.extend((0..n / 4).map(|i| TEXT[i % TEXT.len()])); v.resize(n, 0xEE); v }
        _ => { let mut v = vec![0u8; n]; for (i, b) in [0u8, 1, 2].iter().enumerate() { if i < n { v[i] = *b; } } v }
    }
}

fn check_back(res: std::result::Result<Vec<u8>, String>, x: &[u8]) -> Option<String> {
    match res {
        Ok(y) if y == x => None,
        Ok(y) => {
            let at = y.iter().zip(x.iter()).position(|(a, b)| a != b).unwrap_or(y.len().min(x.len()));
            Some(format!("decompress(compress(x)) differs from x at byte {} (|x|={}, |y|={})", at, x.len(), y.len()))
        }
        Err(e) => Some(format!("decompress(compress(x)) = Err({}) for |x|={}", e, x.len())),
    }
}

/// front 0: factory algorithm ALGS[sel] (trained on a sample of the payload plus all 256 symbols where training is needed);
/// front 1: AdaptiveCompressor after set_algorithm(FRONT_ALGS[sel]); front 2: RealtimeCompressor in MODES[sel], `compress`
/// with the mode's own deadline and `compress_with_deadline` an hour ahead.
pub fn big_case(cx: &mut Ctx, front: u64, sel: usize, kind: u64, n: usize) {
    let x = compressible_payload(kind, n);
    let cj = json!({"cell": "big", "front": front, "sel": sel, "kind": kind, "n": n});
    cx.sum.dist("payload_large_and_highly_compressible");
    match front {
        0 => {
            let (alg, name) = ALGS[sel % ALGS.len()];
            let cell = format!("factory/{}", name);
            cx.sum.eval(&cell, &format!("big {} {} {} {}", front, sel, kind, n), true);
            let mut train: Vec<u8> = x[..x.len().min(2000)].to_vec();
            train.extend((0..=255u8).collect::<Vec<u8>>());
            let tr = if needs_training(alg) { Some(train.as_slice()) } else { None };
            match guarded(|| CompressorFactory::create(alg, tr)) {
                Err(p) => cx.sum.fail(&cell, None, cj, &format!("create panicked: {}", p)),
                Ok(Err(e)) => cx.sum.fail(&cell, None, cj, &format!("factory refused to build the compressor: {}", e)),
                Ok(Ok(c)) => roundtrip_dyn(cx, &cell, c.as_ref(), alg, &x, &train, cj),
            }
        }
        1 => {
            let cell = "adaptive";
            cx.sum.eval(cell, &format!("big {} {} {} {}", front, sel, kind, n), true);
            let r = guarded(|| {
                let mut a = AdaptiveCompressor::new(AdaptiveConfig::default(), PerformanceRequirements::default()).map_err(|e| format!("new failed: {}", e))?;
                a.set_algorithm(FRONT_ALGS[sel % FRONT_ALGS.len()]).map_err(|e| format!("set_algorithm failed: {}", e))?;
                match a.compress(&x) {
                    Err(zipora::error::ZiporaError::NotSupported { .. }) => Ok(None),
                    Err(e) => Err(format!("compress refused: {}", e)),
                    Ok(z) => Ok(check_back(a.decompress(&z).map_err(|e| e.to_string()), &x)),
                }
            });
            match r {
                Err(p) => cx.sum.fail(cell, None, cj, &format!("panicked: {}", p)),
                Ok(Err(m)) | Ok(Ok(Some(m))) => cx.sum.fail(cell, None, cj, &m),
                Ok(Ok(None)) => {}
            }
        }
        _ => {
            let cell = format!("realtime/{}", MODES[sel % 4].1);
            cx.sum.eval(&cell, &format!("big {} {} {} {}", front, sel, kind, n), true);
            let r = guarded(|| {
                let rt = tokio::runtime::Builder::new_current_thread().enable_all().build().unwrap();
                rt.block_on(async {
                    let cfg = RealtimeConfig { mode: MODES[sel % 4].0, fallback_on_timeout: true, max_concurrent: 2, ..Default::default() };
                    let c = match RealtimeCompressor::new(cfg) { Ok(c) => c, Err(e) => return Some(format!("new failed: {}", e)) };
                    for far in [false, true] {
                        let z = if far { c.compress_with_deadline(&x, Instant::now() + Duration::from_secs(3600)).await } else { c.compress(&x).await };
                        match z {
                            Err(zipora::error::ZiporaError::NotSupported { .. }) => continue,
                            Err(e) => return Some(format!("compress refused: {}", e)),
                            Ok(z) => if let Some(m) = check_back(c.decompress(&z).await.map_err(|e| e.to_string()), &x) { return Some(m); }
                        }
                    }
                    None
                })
            });
            match r {
                Err(p) => cx.sum.fail(&cell, None, cj, &format!("panicked: {}", p)),
                Ok(Some(m)) => cx.sum.fail(&cell, None, cj, &m),
                Ok(None) => {}
            }
        }
    }
}

// ---------------------------------------------------------------------------------------------
// compress_batch with a deadline that passes in the middle of the batch
// ---------------------------------------------------------------------------------------------
/// The batch deadline is `now + mode.target_latency()` (1 ms / 10 ms / 100 ms / 1 s), taken once at the start of
/// `compress_batch`.  The batch consists of `n_big` items of `item_len` incompressible bytes (slices of one buffer at
/// offsets 0, 1, 2, ... whose first bytes are 0x00, 0x01, 0x02, 0xFF in turn: the block tags and a non-tag), which burn
/// the deadline, followed by short items that begin with tag look-alikes.  Whatever `compress_batch` returns - it may
/// stop early - block j must decode to item j.
pub fn realtime_batch_case(cx: &mut Ctx, mode: usize, fallback: bool, item_len: usize, n_big: usize, seed: u64) {
    let cell = format!("realtime/{}", MODES[mode % 4].1);
    let cj = json!({"cell": "realtime_batch", "mode": mode, "fallback": fallback, "item_len": item_len, "n_big": n_big, "seed": seed});
    cx.sum.eval(&cell, &format!("rtb {} {} {} {} {}", mode, fallback, item_len, n_big, seed), true);
    let mut r = Rng::new(seed ^ 0xBA7C);
    let mut buf = r.bytes(item_len + n_big + 8);
    for j in 0..n_big { buf[j] = [0u8, 1, 2, 0xFF][j % 4]; }
    let tails: Vec<Vec<u8>> = vec![vec![0], vec![1], vec![2, 7, 7], vec![0, 0, 0, 0], vec![1, 0], vec![], vec![0xFF, 1], b"\x01plain text item".to_vec()];
    let target = MODES[mode % 4].0.target_latency();
    let overran = std::cell::Cell::new((false, 0usize, 0usize));
    let res = guarded(|| {
        let rt = tokio::runtime::Builder::new_current_thread().enable_all().build().unwrap();
        rt.block_on(async {
            let cfg = RealtimeConfig { mode: MODES[mode % 4].0, fallback_on_timeout: fallback, max_concurrent: 2, ..Default::default() };
            let c = match RealtimeCompressor::new(cfg) { Ok(c) => c, Err(e) => return Some(format!("new failed: {}", e)) };
            let mut items: Vec<&[u8]> = (0..n_big).map(|j| &buf[j..j + item_len]).collect();
            for t in &tails { items.push(t.as_slice()); }
            let t0 = Instant::now();
            let out = c.compress_batch(items.clone()).await;
            let el = t0.elapsed();
            match out {
                Err(zipora::error::ZiporaError::NotSupported { .. }) => None,
                // without the fallback, an item that starts after the deadline is reported as an error for the whole batch
                Err(_) if !fallback => { overran.set((true, 0, items.len())); None }
                Err(e) => Some(format!("compress_batch refused: {}", e)),
                Ok(zs) => {
                    overran.set((el >= target, zs.len(), items.len()));
                    if zs.len() > items.len() { return Some(format!("compress_batch returned {} blocks for {} items", zs.len(), items.len())); }
                    for (j, z) in zs.iter().enumerate() {
                        match c.decompress(z).await {
                            Ok(y) if y.as_slice() == items[j] => {}
                            Ok(y) => return Some(format!("batch block {} of {} (deadline {:?}, batch took {:?}) decodes to {} bytes, item has {}", j, zs.len(), target, el, y.len(), items[j].len())),
                            Err(e) => return Some(format!("batch block {} of {} (deadline {:?}, batch took {:?}): decompress = Err({})", j, zs.len(), target, el, e)),
                        }
                    }
                    None
                }
            }
        })
    });
    let (ov, got, of) = overran.get();
    cx.sum.dist(if ov { "realtime_batch_deadline_passed_mid_batch" } else { "realtime_batch_within_deadline" });
    if got < of { cx.sum.dist("realtime_batch_stopped_early"); }
    match res {
        Err(p) => cx.sum.fail(&cell, None, cj, &format!("panicked: {}", p)),
        Ok(Some(m)) => cx.sum.fail(&cell, None, cj, &m),
        Ok(None) => {}
    }
}

/// How many big items make the batch overrun for sure: three times the deadline's worth of work, measured on the factory
/// compressor of the mode's algorithm (the count is part of the case, so a replay does not depend on the clock).
pub fn batch_items_for(mode: usize, item: &[u8]) -> Option<usize> {
    let alg = MODES[mode % 4].0.preferred_algorithm();
    let c = CompressorFactory::create(alg, None).ok()?;
    let t0 = Instant::now();
    let z = c.compress(item).ok()?;
    let mut tagged = Vec::with_capacity(z.len() + 1); tagged.push(1u8); tagged.extend_from_slice(&z);
    let per = t0.elapsed().max(Duration::from_micros(20));
    let target = MODES[mode % 4].0.target_latency();
    Some(((3 * target.as_micros() / per.as_micros().max(1)) as usize + 3).min(4000))
}

pub fn run_extension_oracle(cx: &mut Ctx, th: bool) {
    // every Zstd level of the factory (and the other untrained algorithms) on payloads that are > 64 KiB and shrink by far more than 255:1
    let shapes: [(u64, usize); 6] = [(0, 65537), (0, 300_000), (0, 1 << 20), (1, 1 << 20), (2, 300 * 1024), (3, 200_000)];
    for ai in 0..ALGS.len() {
        let (alg, _) = ALGS[ai];
        // (the dictionary coder needs minutes on long runs, see the large-training family)
        if matches!(alg, Algorithm::Dictionary | Algorithm::Hybrid) { continue; }
        for (k, &(kind, n)) in shapes.iter().enumerate() {
            let zstd = matches!(alg, Algorithm::Zstd(_));
            if !zstd && !th && k % 3 != ai % 3 { continue; }
            big_case(cx, 0, ai, kind, n);
        }
    }
    for sel in 0..FRONT_ALGS.len() {
        for (k, &(kind, n)) in shapes.iter().enumerate() {
            if !th && !matches!(FRONT_ALGS[sel], Algorithm::Zstd(_)) && k % 3 != 0 { continue; }
            big_case(cx, 1, sel, kind, n);
        }
    }
    for mode in 0..4 {
        for &(kind, n) in shapes.iter().chain([(4u64, 100_000usize)].iter()) { big_case(cx, 2, mode, kind, n); }
    }
    // exactly the size ZstdCompressor::decompress allows for (100 MiB; one byte more is refused by design)
    big_case(cx, 0, 3, 1, 100 * 1024 * 1024);
    if th { big_case(cx, 0, 2, 0, 100 * 1024 * 1024); big_case(cx, 1, 2, 1, 100 * 1024 * 1024); }
    // batches that overrun their deadline, every mode, fallback on and off
    for mode in 0..4 {
        for fallback in [true, false] {
            let item_len = match mode { 0 => 4 << 20, 1 => 1 << 20, 2 => 2 << 20, _ => 2 << 20 };
            let probe = cx.rng.next() % 1_000_000;
            let item = Rng::new(probe).bytes(item_len);
            let n_big = match batch_items_for(mode, &item) { Some(n) => n, None => { cx.sum.dist("algorithm_not_in_this_build"); continue } };
            realtime_batch_case(cx, mode, fallback, item_len, n_big, probe);
        }
    }
}

// ---------------------------------------------------------------------------------------------
// compressor frames against coq/C02/ModelComp.v  (ops 10..17 of RunCaseX.v)
// ---------------------------------------------------------------------------------------------
fn u(v: &[u8]) -> Vec<u128> { v.iter().map(|&b| b as u128).collect() }
fn out1(r: &std::result::Result<Vec<u8>, String>) -> Vec<u128> {
    match r { Ok(z) => { let mut e = vec![1u128]; e.extend(u(z)); e } Err(_) => vec![0] }
}
/// a frame and a few damaged copies of it (cut inside the header, inside the payload, one byte short, one size byte changed)
fn damaged(r: &mut Rng, z: &[u8], size_at: usize) -> Vec<Vec<u8>> {
    let mut v = vec![];
    if z.is_empty() { return v; }
    v.push(z[..z.len() - 1].to_vec());
    v.push(z[..r.below(z.len() as u64) as usize].to_vec());
    if z.len() > size_at { let mut w = z.to_vec(); w[size_at] = w[size_at].wrapping_add(1); v.push(w); }
    v
}

/// kind 0: RansCompressor, 1: DictCompressor, 2: HuffmanCompressor.  The payload must be small (it is spelled out in the
/// Coq case); the training corpus may be large (only the counts / the tree bytes go to Coq).
pub fn comp_tie(cx: &mut Ctx, kind: u64, x: &[u8], train: &[u8], force: bool) {
    let name = ["Rans", "Dictionary", "Huffman"][kind as usize % 3];
    let cell = format!("factory/{}", name);
    let cj = json!({"cell": "comp_tie", "kind": kind, "data": x, "train_len": train.len(), "train": if train.len() <= 600 { json!(train) } else { json!(null) },
                    "train_desc": if train.len() > 600 { json!(train_desc(train)) } else { json!(null) }});
    cx.sum.eval(&cell, &format!("tie {} {:?} {}", kind, x, fnv_bytes(train)), x.len() >= 2);
    let mut r = Rng::new(fnv_bytes(x) ^ fnv_bytes(train));
    let res = guarded(|| -> Option<()> {
        match kind % 3 {
            0 => {
                let c = RansCompressor::new(train).ok()?;
                let z = c.compress(x).map_err(|e| e.to_string());
                // the counts of the instance, as they appear in any frame it writes
                let probe = c.compress(&train[..1]).ok()?;
                let counts: Vec<u128> = (0..256).map(|i| u32::from_le_bytes([probe[4 * i], probe[4 * i + 1], probe[4 * i + 2], probe[4 * i + 3]]) as u128).collect();
                if train.len() <= 400 { cx.coq(12, &u(train), &[], &counts, cj.clone(), force); }
                cx.coq(10, &counts, &u(x), &out1(&z), cj.clone(), force);
                if let Ok(z) = &z {
                    let back = c.decompress(z).map_err(|e| e.to_string());
                    cx.coq(11, &u(z), &[], &out1(&back), cj.clone(), force);
                    if r.chance(1, 3) { for w in damaged(&mut r, z, 1024) { if let Ok(b) = guarded(|| c.decompress(&w).map_err(|e| e.to_string())) { cx.coq(11, &u(&w), &[], &out1(&b), cj.clone(), false); } } }
                }
            }
            1 => {
                let c = DictCompressor::new(train).ok()?;
                let z = c.compress(x).map_err(|e| e.to_string());
                cx.coq(13, &u(x), &[], &out1(&z), cj.clone(), force);
                if let Ok(z) = &z {
                    let back = c.decompress(z).map_err(|e| e.to_string());
                    cx.coq(14, &u(z), &[], &out1(&back), cj.clone(), force);
                    for w in damaged(&mut r, z, 1) { if let Ok(b) = guarded(|| c.decompress(&w).map_err(|e| e.to_string())) { cx.coq(14, &u(&w), &[], &out1(&b), cj.clone(), false); } }
                }
            }
            _ => {
                let c = HuffmanCompressor::new(train).ok()?;
                let td = c.tree_data().to_vec();
                cx.coq(17, &u(&td), &[], &u(&td), cj.clone(), force);
                let z = c.compress(x).map_err(|e| e.to_string());
                cx.coq(15, &u(&td), &u(x), &out1(&z), cj.clone(), force);
                if let Ok(z) = &z {
                    let back = c.decompress(z).map_err(|e| e.to_string());
                    cx.coq(16, &u(z), &[], &out1(&back), cj.clone(), force);
                    // cuts only: a changed byte inside the table may produce overlapping codes, whose tree depends on the HashMap's order
                    let mut ws = vec![z[..z.len() - 1].to_vec(), z[..r.below(z.len() as u64) as usize].to_vec()];
                    if z.len() > 4 + td.len() { let mut w = z.clone(); w[4 + td.len()] = w[4 + td.len()].wrapping_add(1); ws.push(w); }
                    for w in ws { if let Ok(b) = guarded(|| c.decompress(&w).map_err(|e| e.to_string())) { cx.coq(16, &u(&w), &[], &out1(&b), cj.clone(), false); } }
                }
            }
        }
        Some(())
    });
    match res {
        // the tie code itself relies on the modelled layout (e.g. 1024 bytes of counts): if it trips, that is a broken
        // correspondence (a case the model cannot agree with), not an oracle failure - the oracle cells decide the property
        Err(p) => { cx.sum.dist("comp_tie_broken"); cx.sum.notes.push(format!("comp_tie kind {} could not observe the frame: {}", kind, p)); cx.coq(10 + [0u32, 3, 5][kind as usize % 3], &[], &[], &[424242], cj, true); }
        Ok(None) => cx.sum.dist("comp_tie_setup_refused"),
        Ok(Some(())) => {}
    }
}
fn fnv_bytes(b: &[u8]) -> u64 { let mut h: u64 = 0xcbf29ce484222325; for &x in b { h ^= x as u64; h = h.wrapping_mul(0x100000001b3); } h }
/// a large training corpus in replayable form: (dominant byte, count, seed) - see big_training
fn train_desc(t: &[u8]) -> Value { json!({"len": t.len(), "first": t.first(), "hash": fnv_bytes(t).to_string()}) }

/// large training corpora described by (dominant byte, count): per-symbol counts around 2^16 / 2^17
pub fn big_training(dom: u8, c: usize) -> Vec<u8> {
    let mut t: Vec<u8> = Vec::with_capacity(c + 1200);
    for i in 0..c { t.push(dom); if i % 997 == 0 { t.push(TEXT[(i / 997) % TEXT.len()]); } }
    t.extend((0..=255u8).collect::<Vec<u8>>());
    t.extend_from_slice(TEXT);
    t
}
pub fn comp_tie_big(cx: &mut Ctx, kind: u64, x: &[u8], dom: u8, c: usize) {
    let t = big_training(dom, c);
    comp_tie(cx, kind, x, &t, false)
}

pub fn run_comp_ties(cx: &mut Ctx, th: bool) {
    for k in 0..(if th { 600 } else { 90 }) {
        let mut r = cx.rng.clone();
        let fam = r.below(10);
        let n = match r.below(5) { 0 => r.range(1, 4) as usize, 1 | 2 => r.range(5, 60) as usize, 3 => r.range(60, 200) as usize, _ => *r.pick(&[255usize, 256, 257, 300]) };
        let x = payload(&mut r, fam, n);
        let tk = r.below(7);
        let t = training(&mut r, tk, &x);
        cx.rng = r;
        if t.is_empty() { continue; }
        comp_tie(cx, k % 3, &x, &t, false);
    }
    // counts around 2^16 and 2^17 in the stored table / in the tree construction
    for (i, &c) in [65535usize, 65536, 65537, 70_000, 131_073].iter().enumerate() {
        let mut r = cx.rng.clone();
        let dom = *r.pick(&[b'a', b' ', 0u8, 0xFF]);
        let x: Vec<u8> = (0..30).map(|j| if j % 3 == 0 { dom } else { TEXT[r.below(TEXT.len() as u64) as usize] }).collect();
        cx.rng = r;
        comp_tie_big(cx, 0, &x, dom, c);
        if th || i % 2 == 0 { comp_tie_big(cx, 2, &x, dom, c); }
    }
}

// ---------------------------------------------------------------------------------------------
// front ends against coq/C02/ModelFront.v  (ops 20..24 of RunCaseX.v)
// ---------------------------------------------------------------------------------------------
fn alg_index(a: Algorithm) -> u128 {
    match a {
        Algorithm::None => 0, Algorithm::Lz4 => 1, Algorithm::Zstd(3) => 2, Algorithm::Zstd(9) => 3,
        Algorithm::Zstd(l) => (100 + l) as u128, Algorithm::Huffman => 50, Algorithm::Rans => 51, Algorithm::Dictionary => 52,
        Algorithm::SimdLz77 => 53, Algorithm::Hybrid => 54,
    }
}
fn opt_field(v: &Option<Vec<u8>>) -> Vec<u128> {
    match v { Some(z) => { let mut e = vec![1u128, z.len() as u128]; e.extend(u(z)); e } None => vec![0, 0] }
}
fn len_field(v: &[u8]) -> Vec<u128> { let mut e = vec![v.len() as u128]; e.extend(u(v)); e }

/// steps: (set_mode: 0 keep, else mode index + 1; entry: 0 compress, 1 deadline already passed, 2 an hour ahead, 3 compress_batch; payload)
pub fn rt_tie(cx: &mut Ctx, mode: usize, fallback: bool, steps: &[(u64, u64, Vec<u8>)]) {
    let cell = format!("realtime/{}", MODES[mode % 4].1);
    let cj = json!({"cell": "rt_tie", "mode": mode, "fallback": fallback, "steps": steps.iter().map(|(a, b, d)| json!([a, b, d])).collect::<Vec<_>>()});
    cx.sum.eval(&cell, &format!("rttie {} {} {:?}", mode, fallback, steps), steps.len() >= 2);
    // (op, a, b, expect) collected inside the runtime, registered afterwards
    let cases: std::cell::RefCell<Vec<(u32, Vec<u128>, Vec<u128>, Vec<u128>)>> = std::cell::RefCell::new(vec![]);
    let res = guarded(|| {
        let rt = tokio::runtime::Builder::new_current_thread().enable_all().build().unwrap();
        rt.block_on(async {
            let cfg = RealtimeConfig { mode: MODES[mode % 4].0, fallback_on_timeout: fallback, max_concurrent: 2, ..Default::default() };
            let c = match RealtimeCompressor::new(cfg) { Ok(c) => c, Err(_) => return };
            let mut cur = mode % 4;
            for (sw, entry, d) in steps.iter() {
                if *sw > 0 { let m = (*sw as usize - 1) % 4; if c.set_mode(MODES[m].0).is_ok() { cur = m; } }
                let alg = MODES[cur].0.preferred_algorithm();
                let k = alg_index(alg);
                let codec = match CompressorFactory::create(alg, None) { Ok(x) => x, Err(_) => return };
                let head = |extra: &[u128]| { let mut a = vec![(mode % 4) as u128, fallback as u128, cur as u128]; a.extend_from_slice(extra); a };
                if *entry == 3 {
                    let rev: Vec<u8> = d.iter().rev().cloned().collect();
                    let items: Vec<&[u8]> = vec![d.as_slice(), rev.as_slice(), &d[..d.len() / 2], &[]];
                    let got = c.compress_batch(items.clone()).await;
                    let mut a = head(&[k, items.len() as u128]);
                    for it in &items { a.extend(len_field(it)); a.extend(opt_field(&codec.compress(it).ok())); }
                    let b = match &got { Ok(zs) => { let mut b = vec![1u128, zs.len() as u128]; for z in zs { b.extend(len_field(z)); } b } Err(_) => vec![0] };
                    cases.borrow_mut().push((22, a, b, vec![1]));
                    continue;
                }
                let got = match entry {
                    0 => c.compress(d).await,
                    1 => c.compress_with_deadline(d, Instant::now()).await,
                    _ => c.compress_with_deadline(d, Instant::now() + Duration::from_secs(3600)).await,
                };
                let cout = codec.compress(d).ok();
                let mut a = head(&[k, *entry as u128]); a.extend(len_field(d)); a.extend(opt_field(&cout));
                let b = match &got { Ok(z) => { let mut b = vec![1u128]; b.extend(u(z)); b } Err(_) => vec![0] };
                cases.borrow_mut().push((20, a, b, vec![1]));
                if let Ok(z) = &got {
                    // the producer the tag stands for, where the clock reading is forced (entries 1 and 2)
                    if *entry >= 1 && !z.is_empty() {
                        let exp = if z[0] == 0 { vec![0u128, 0] } else { vec![z[0] as u128, 1, k] };
                        let (l0, on) = if *entry == 1 { (1u128, 0u128) } else { (0, 0) };
                        let _ = on;
                        cases.borrow_mut().push((23, vec![(mode % 4) as u128, cur as u128, d.len() as u128, l0, 0, 0], vec![], exp));
                    }
                    // decompress dispatch on the block and on blocks with other tags
                    let mut blocks = vec![z.clone()];
                    if !z.is_empty() { let mut w = z.clone(); w[0] = 2; blocks.push(w); let mut w = z.clone(); w[0] = 1 - z[0].min(1); blocks.push(w); }
                    blocks.push(vec![]); blocks.push(vec![0]); blocks.push(vec![1]); blocks.push(vec![0xFF, 1, 2]);
                    for blk in blocks {
                        let body: &[u8] = if blk.is_empty() { &[] } else { &blk[1..] };
                        let dout = codec.decompress(body).ok();
                        let real = c.decompress(&blk).await.map_err(|e| e.to_string());
                        let mut a = head(&[]); a.extend(opt_field(&dout));
                        cases.borrow_mut().push((21, a, u(&blk), out1(&real)));
                    }
                }
            }
        })
    });
    if res.is_err() { cx.sum.dist("rt_tie_broken"); cx.coq(20, &[], &[], &[424242], cj.clone(), true); }
    for (op, a, b, e) in cases.into_inner() { cx.coq(op, &a, &b, &e, cj.clone(), false); }
}

/// ops: (kind 1 set_algorithm / 2 train / 3 compress, algorithm selector, payload)
pub fn ad_tie(cx: &mut Ctx, min_ops: usize, interval: usize, aggressive: bool, window: usize, ops: &[(u64, u64, Vec<u8>)]) {
    let cell = "adaptive";
    let cj = json!({"cell": "ad_tie", "min_ops": min_ops, "interval": interval, "aggressive": aggressive, "window": window,
                    "ops": ops.iter().map(|(a, b, d)| json!([a, b, d])).collect::<Vec<_>>()});
    cx.sum.eval(cell, &format!("adtie {} {} {} {} {:?}", min_ops, interval, aggressive, window, ops), ops.len() >= 2);
    const SET_ALGS: [Algorithm; 9] = [Algorithm::None, Algorithm::Lz4, Algorithm::Zstd(1), Algorithm::Zstd(3), Algorithm::Zstd(9), Algorithm::SimdLz77,
        Algorithm::Huffman, Algorithm::Rans, Algorithm::Hybrid];
    let res = guarded(|| -> Option<(Vec<u128>, Vec<u128>)> {
        let cfg = AdaptiveConfig { min_operations: min_ops, evaluation_interval: interval, aggressive_learning: aggressive, learning_window: window, ..Default::default() };
        let mut a = AdaptiveCompressor::new(cfg, PerformanceRequirements::default()).ok()?;
        let mut enc: Vec<u128> = vec![min_ops as u128, interval as u128, aggressive as u128, window as u128];
        let mut obs: Vec<u128> = vec![];
        for (k, sel, d) in ops {
            match k {
                1 => { let alg = SET_ALGS[*sel as usize % SET_ALGS.len()]; let ok = a.set_algorithm(alg).is_ok(); enc.extend([1, alg_index(alg), ok as u128]); }
                2 => { let _ = a.train(&[(d.as_slice(), "t")]); enc.push(2); }
                _ => {
                    match guarded(|| a.compress(d)) {
                        Err(_) => { enc.extend([3, 1]); obs.push(99); return Some((enc, obs)); }
                        Ok(r) => {
                            enc.extend([3, r.is_ok() as u128]);
                            obs.push(alg_index(a.current_algorithm()));
                            obs.push(a.stats().operations as u128);
                            if let Ok(z) = r {
                                // produced by the codec of the algorithm the compressor names, and decoded by the compressor
                                let want = CompressorFactory::create(a.current_algorithm(), None).ok().and_then(|c| c.compress(d).ok());
                                obs.push((want.as_ref() == Some(&z)) as u128);
                                obs.push((a.decompress(&z).ok().as_ref() == Some(d)) as u128);
                            }
                            continue;
                        }
                    }
                }
            }
            obs.push(alg_index(a.current_algorithm()));
            obs.push(a.stats().operations as u128);
        }
        Some((enc, obs))
    });
    match res {
        Ok(Some((enc, obs))) => cx.coq(24, &enc, &[], &obs, cj, false),
        Ok(None) => cx.sum.dist("ad_tie_setup_refused"),
        Err(_) => { cx.sum.dist("ad_tie_broken"); cx.coq(24, &[], &[], &[424242], cj, true); }
    }
}

pub fn run_front_ties(cx: &mut Ctx, th: bool) {
    for k in 0..(if th { 300 } else { 40 }) {
        let mut r = cx.rng.clone();
        let n = r.range(1, 4) as usize;
        let steps: Vec<(u64, u64, Vec<u8>)> = (0..n).map(|_| {
            let fam = r.below(10);
            let l = *r.pick(&[0usize, 1, 10, 63, 64, 65, 200]);
            (if r.chance(1, 3) { r.range(1, 4) } else { 0 }, r.below(4), payload(&mut r, fam, l))
        }).collect();
        let fb = !r.chance(1, 3);
        cx.rng = r;
        rt_tie(cx, k % 4, fb, &steps);
    }
    for k in 0..(if th { 300 } else { 50 }) {
        let mut r = cx.rng.clone();
        let n = if k % 5 == 0 { r.range(20, 60) } else { r.range(1, 10) } as usize;
        let ops: Vec<(u64, u64, Vec<u8>)> = (0..n).map(|_| {
            let kind = *r.pick(&[1u64, 2, 3, 3, 3, 3]);
            let l = r.range(0, 40) as usize;
            (kind, r.below(9), r.bytes(if kind == 2 { l.max(1) } else { l }))
        }).collect();
        let min_ops = *r.pick(&[0usize, 1, 5, 50]);
        let interval = *r.pick(&[0usize, 1, 3, 3, 1000]);
        let aggressive = r.chance(1, 2);
        let window = *r.pick(&[0usize, 1, 16]);
        cx.rng = r;
        ad_tie(cx, min_ops, interval, aggressive, window, &ops);
    }
}

// ---------------------------------------------------------------------------------------------
// PA-Zip: the per-position loop of compress over a scripted match finder that only returns true matches
// ---------------------------------------------------------------------------------------------
fn strat4(st: &CompressionStrategy) -> [u128; 4] {
    match st {
        CompressionStrategy::Literal { length } => [0, *length as u128, 0, 0],
        CompressionStrategy::Local { distance, length, match_type } => [1, *distance as u128, *length as u128, *match_type as u8 as u128],
        CompressionStrategy::Global { dict_offset, length, .. } => [2, *dict_offset as u128, *length as u128, 0],
    }
}

/// The payload is described by `ops` as in legacy_records_case ([0, n] n fresh literal bytes; [1, n] n bytes repeating what lies
/// `period` back; [2, off, n] dict[off..off+n]).  The loop of compress_sequential_legacy is re-run through the two hooks with a
/// match finder that, inside a planned match, answers with the rest of that match (a true match), and nothing elsewhere:
/// candidates and selection are the real code's (verif_candidates), the record writer is the real code's (verif_apply_strategy).
/// decompress of the records must give the payload.  `dict_big` uses a dictionary of more than 64 KiB (offsets beyond u16).
pub fn pazip_sim_case(cx: &mut Ctx, period: usize, seed: u64, dict_big: bool, ops: &[Vec<u64>], force: bool) {
    let cell = "pazip/compress_loop";
    let cj = json!({"cell": cell, "period": period, "seed": seed, "dict_big": dict_big, "ops": ops});
    cx.sum.eval(cell, &format!("psim {} {} {} {:?}", period, seed, dict_big, ops), ops.len() >= 2);
    let mut r = Rng::new(seed ^ 0x51A);
    let dict_text: Vec<u8> = { let mut t = TEXT.to_vec(); t.extend(r.bytes(if dict_big { 66_000 } else { 200 })); t };
    let mut x: Vec<u8> = r.bytes(period.max(1));
    // planned matches: (start, len, kind 1 local / 2 global, dict offset)
    let mut plan: Vec<(usize, usize, u8, usize)> = vec![];
    for op in ops {
        match op.get(0).copied().unwrap_or(0) {
            0 => { let n = op.get(1).copied().unwrap_or(1).min(1000) as usize; let fresh = r.bytes(n); x.extend_from_slice(&fresh); }
            1 => {
                let n = op.get(1).copied().unwrap_or(2).clamp(1, 140_000) as usize;
                let d = period.max(1);
                plan.push((x.len(), n, 1, 0));
                for _ in 0..n { let b = x[x.len() - d]; x.push(b); }
            }
            _ => {
                let off = (op.get(1).copied().unwrap_or(0) as usize).min(dict_text.len() - 1);
                let n = (op.get(2).copied().unwrap_or(6) as usize).clamp(1, dict_text.len() - off);
                plan.push((x.len(), n, 2, off));
                x.extend_from_slice(&dict_text[off..off + n]);
            }
        }
    }
    let steps: std::cell::RefCell<Vec<(Option<(usize, usize)>, Option<(usize, usize)>, Vec<CompressionStrategy>, CompressionStrategy)>> = std::cell::RefCell::new(vec![]);
    let stream_out: std::cell::RefCell<Vec<u8>> = std::cell::RefCell::new(vec![]);
    let chosen: std::cell::RefCell<Vec<CompressionStrategy>> = std::cell::RefCell::new(vec![]);
    let res = guarded(|| -> std::result::Result<Option<String>, String> {
        let dict = SuffixArrayDictionary::new(&dict_text, SuffixArrayDictionaryConfig::default()).map_err(|e| format!("setup: {}", e))?;
        let pool = SecureMemoryPool::new(SecurePoolConfig::new(4096, 1024, 8)).map_err(|e| format!("setup: {}", e))?;
        let mut c = PaZipCompressor::new(dict, PaZipCompressorConfig::default(), pool).map_err(|e| format!("setup: {}", e))?;
        let mut stream = Vec::new();
        let mut pos = 0usize;
        let mut guard = 0usize;
        while pos < x.len() {
            guard += 1;
            if guard > x.len() + 8 { return Ok(Some("the loop does not advance".to_string())); }
            let inside = plan.iter().find(|(s, n, _, _)| *s <= pos && pos < s + n);
            let (local, global) = match inside {
                Some((s, n, 1, _)) => (Some((period.max(1), s + n - pos)), None),
                Some((s, n, _, off)) => (None, Some((off + (pos - s), s + n - pos))),
                None => (None, None),
            };
            let (cands, sel) = c.verif_candidates(local, global).map_err(|e| format!("candidates refused: {}", e))?;
            if !cands.iter().any(|k| strat4(k) == strat4(&sel)) { return Ok(Some(format!("selected {:?} is not a candidate", sel))); }
            if (local.is_some() || global.is_some() || pos == 0) && steps.borrow().len() < 12 { steps.borrow_mut().push((local, global, cands.clone(), sel)); }
            if x.len() <= 600 { chosen.borrow_mut().push(sel); }
            let adv = c.verif_apply_strategy(&x, pos, sel, &mut stream).map_err(|e| format!("writer refused {:?}: {}", sel, e))?;
            if adv == 0 { return Ok(Some(format!("strategy {:?} advances by 0", sel))); }
            pos += adv;
        }
        *stream_out.borrow_mut() = stream.clone();
        let mut y = Vec::new();
        match c.decompress(&stream, &mut y) {
            Ok(()) if y == x => Ok(None),
            Ok(()) => { let at = y.iter().zip(x.iter()).position(|(a, b)| a != b).unwrap_or(y.len().min(x.len())); Ok(Some(format!("decompress of the loop's records differs at byte {} (|x|={}, |y|={})", at, x.len(), y.len()))) }
            Err(e) => Ok(Some(format!("decompress of the loop's records = Err({})", e))),
        }
    });
    // model ties: candidate lists (op 30) and, for small payloads, the replay of the chosen strategies (op 31)
    let st = steps.borrow();
    for (local, global, cands, _) in st.iter().filter(|_| PAZIP_MODEL_READY) {
        let a = vec![local.is_some() as u128, local.map(|l| l.0).unwrap_or(0) as u128, local.map(|l| l.1).unwrap_or(0) as u128,
                     global.is_some() as u128, global.map(|g| g.0).unwrap_or(0) as u128, global.map(|g| g.1).unwrap_or(0) as u128, PAZIP_LOCAL_GUARD];
        let exp: Vec<u128> = cands.iter().flat_map(|k| strat4(k)).collect();
        cx.coq(30, &a, &[], &exp, cj.clone(), force && (local.map(|l| l.1 >= 65535).unwrap_or(false) || global.map(|g| g.0 + 40 >= 65535).unwrap_or(false)));
        if let Some((d, l)) = local { cx.sum.dist(&format!("pazip_loop_local_type={:?}", choose_best_compression_type(*d, *l).map(|t| t as u8))); }
    }
    if PAZIP_MODEL_READY && x.len() <= 600 && matches!(res, Ok(Ok(None))) {
        let a: Vec<u128> = chosen.borrow().iter().flat_map(|sel| strat4(sel)).collect();
        let mut exp = vec![1u128]; exp.extend(u(&stream_out.borrow()));
        cx.coq(31, &a, &u(&x), &exp, cj.clone(), false);
    }
    drop(st);
    match res {
        Err(p) => cx.sum.fail(cell, None, cj, &format!("panicked: {}", p)),
        Ok(Err(e)) if e.starts_with("setup") => cx.sum.dist("pazip_sim_setup_refused"),
        Ok(Err(e)) => cx.sum.fail(cell, None, cj, &e),
        Ok(Ok(Some(msg))) => cx.sum.fail(cell, None, cj, &msg),
        Ok(Ok(None)) => {}
    }
}
/// 1 when calculate_local_match_cost drops local candidates whose fields do not fit their record (the code after the fix)
pub const PAZIP_LOCAL_GUARD: u128 = 1;
const PAZIP_MODEL_READY: bool = true;

pub fn run_pazip_sim(cx: &mut Ctx, th: bool) {
    let periods = [1usize, 2, 3, 9, 10, 200, 257, 258, 259, 4000, 65535, 65536, 65793, 65794, 70000];
    let lens = [1u64, 2, 3, 5, 6, 32, 33, 34, 35, 64, 65, 255, 256, 257, 300];
    for (pi, &p) in periods.iter().enumerate() {
        if !th && p > 60000 && pi % 2 == 1 { continue; }
        for rep in 0..(if th { 6 } else { 2 }) {
            let mut r = cx.rng.clone();
            let n = r.range(1, 6) as usize;
            let ops: Vec<Vec<u64>> = (0..n).map(|_| match r.below(6) {
                0 => vec![0, r.range(1, 40)],
                1 => vec![2, r.below(300), r.range(1, 280)],
                _ => vec![1, if r.chance(2, 3) { *r.pick(&lens) } else { r.range(1, 400) }],
            }).collect();
            let seed = r.next() % 1000;
            cx.rng = r;
            if rep == 0 { pazip_sim_case(cx, p, seed, false, &[vec![1, lens[pi % lens.len()]]], false); }
            pazip_sim_case(cx, p, seed, false, &ops, false);
        }
    }
    // match lengths around the 16-bit length field of a Far2Long record, distances at both sides of the Far2Long / Far3Long border
    for &p in &[1usize, 7, 65535, 65536] {
        for &n in &[65534u64, 65535, 65536, 65537, 70_000, 131_072] {
            if !th && (p == 7 || n == 70_000) { continue; }
            pazip_sim_case(cx, p, n % 997, false, &[vec![0, 3], vec![1, n], vec![0, 2]], true);
        }
    }
    // dictionary offsets around the 16-bit fields of a Global record
    for &off in &[65534u64, 65535, 65536, 65537] {
        pazip_sim_case(cx, 5, off % 991, true, &[vec![0, 2], vec![2, off, 40], vec![1, 7], vec![2, off - 30, 60]], true);
    }
}

// ---------------------------------------------------------------------------------------------
// SimdLz77Compressor (inherent methods) against coq/C02/ModelSimd.v  (ops 40..45 of RunCaseS.v)
// ---------------------------------------------------------------------------------------------
/// what the inherent decompress makes of a byte string: Ok bytes / Err / panic
fn simd_obs(v: usize, bytes: &[u8]) -> Option<Vec<u128>> {
    // v: which of the ways to reach the inherent decompress is used (0 = SimdLz77Compressor::new(); see b::simd_variant)
    let r = guarded(|| {
        let mut c = super::b::simd_variant(v)?;
        Some(c.decompress(bytes).map_err(|e| e.to_string()))
    });
    match r {
        Err(_) => Some(vec![2]),
        Ok(None) => None,
        Ok(Some(Ok(y))) => { if y.len() > 60_000 { return None; } let mut e = vec![1u128]; e.extend(u(&y)); Some(e) }
        Ok(Some(Err(_))) => Some(vec![0]),
    }
}
/// a token stream written with the public bit codec (the one SimdLz77's private encode_matches uses)
fn token_stream(ms: &[M3]) -> Option<Vec<u8>> {
    let mut w = BitWriter::new();
    for m in ms { let mm = to_match(m)?; encode_match(&mm, &mut w).ok()?; }
    Some(w.finish())
}
pub fn simd_tie_bytes(cx: &mut Ctx, bytes: &[u8], force: bool) { simd_tie_bytes_v(cx, 0, bytes, force) }
pub fn simd_tie_bytes_v(cx: &mut Ctx, v: usize, bytes: &[u8], force: bool) {
    let cell = "simd_lz77/inherent";
    let cj = json!({"cell": "simd_tie", "variant": v, "data": bytes});
    cx.sum.eval(cell, &format!("stie {} {:?}", v, bytes), bytes.len() >= 2);
    match simd_obs(v, bytes) {
        Some(exp) => { cx.sum.dist(&format!("simd_decompress_outcome={}", exp[0])); cx.coq(40, &u(bytes), &[], &exp, cj, force) }
        None => cx.sum.dist("simd_tie_skipped"),
    }
}
pub fn run_simd_ties(cx: &mut Ctx, th: bool) {
    // (a) what the real compressor writes for payload families (incl. ones made of the decoder's placeholder byte 'h',
    //     a block repeated twice: literals + one long match, whose 27-bit Far2Long token leaves 5 padding bits)
    for k in 0..(if th { 200 } else { 24 }) {
        let mut r = cx.rng.clone();
        let x: Vec<u8> = match k % 6 {
            0 => vec![b'h'; r.range(1, 120) as usize],
            1 => { let n = r.range(34, 60) as usize; let blk: Vec<u8> = (0..n as u8).collect(); let mut v = blk.clone(); v.extend_from_slice(&blk); v }
            2 => { let n = r.range(4, 30) as usize; let blk = r.bytes(n); let mut v = vec![]; for _ in 0..r.range(2, 5) { v.extend_from_slice(&blk); } v }
            _ => { let fam = r.below(10); let n = r.range(1, 150) as usize; payload(&mut r, fam, n) }
        };
        cx.rng = r;
        let z = guarded(|| { let mut c = SimdLz77Compressor::new().ok()?; SimdLz77Compressor::compress(&mut c, &x).ok() });
        if let Ok(Some(z)) = z { simd_tie_bytes(cx, &z, false); }
    }
    // (b) token streams the real finder does not produce: every kind, back-references beyond the output (placeholder letters),
    //     Global tokens, RLE with a non-zero byte, streams with 0..7 padding bits
    for kk in 0..(if th { 400 } else { 40 }) {
        let mut r = cx.rng.clone();
        let n = r.range(1, 8) as usize;
        let mut ms: Vec<M3> = vec![];
        let mut out_len = 0u64;
        for _ in 0..n {
            let m: M3 = match r.below(9) {
                0 | 1 => (0, 0, r.range(1, 32)),
                2 => (2, r.below(256), r.range(2, 33)),
                3 => (3, r.range(2, 9), r.range(2, 5)),
                4 => (4, r.range(2, 257).min(if r.chance(2, 3) { out_len.max(2) } else { 257 }), r.range(2, 33)),
                5 => (5, r.range(258, 400), r.range(2, 33)),
                6 => (6, if r.chance(2, 3) { r.range(1, out_len.max(1)) } else { r.below(300) }, r.range(34, 120)),
                7 => (7, if r.chance(2, 3) { r.range(1, out_len.max(1)) } else { r.below(70_000) }, r.range(34, 90)),
                _ => (1, r.below(1000), r.range(6, 40)),
            };
            out_len += m.2;
            ms.push(m);
        }
        cx.rng = r;
        // through every way to reach the inherent decompress in turn (presets, X1..X8 wrappers, the global instance)
        if let Some(z) = token_stream(&ms) { simd_tie_bytes_v(cx, kk % super::b::N_SIMDV, &z, false); }
    }
    // (c) arbitrary bytes
    for _ in 0..(if th { 300 } else { 30 }) {
        let mut r = cx.rng.clone();
        let n = r.below(12) as usize;
        let mut b = r.bytes(n);
        if r.chance(1, 2) { for x in b.iter_mut() { if r.chance(1, 2) { *x &= 0x07; } } }
        cx.rng = r;
        simd_tie_bytes(cx, &b, false);
    }
}
