//! C17, oracle breadth: the secondary entry points, presets, options, thresholds and element types the first generators never
//! reached, exercised inside operation histories and judged by the same dumb shadows (time-stamped reference LRU, the real
//! files, a Vec<u8> / HashMap shadow).  Nothing here is sent to Coq: the operations are outside the models.
//! Families: `lruw` (LruMap: four constructors, rare key / value types, is_empty / capacity / statistics), `cmapw`
//! (ConcurrentLruMap: four constructors, presets as shipped, shard_sizes / shard_count / keys / rebalance / for_each_shard /
//! shard_stats), `lrubig` (capacities around 2^8, 2^16, 2^20 and the shipped preset capacities, described by kind/n/seed),
//! `pcw` (page cache: mark_dirty / flush_file / file_size / register_file / a path opened twice / reopen after close /
//! multi-request read_batch / read_with_prefetch with any look-ahead / reused and pooled buffers / held buffers / config
//! options / sparse 4 GiB files / a file larger than a shipped preset), `cbuf` (CacheBuffer + BufferPool), `blobw`
//! (CachedBlobStore: short constructors, nested wrapper, two stores on one cache, inner_mut, big blobs), `fsaw` (FsaCache
//! presets, zero paths, is_full), `fm` (FileManager used directly).
use super::*;
use std::collections::BTreeMap;
use std::hash::Hash;
use std::marker::PhantomData;
use zipora::cache::{BufferPool, CacheBuffer, FileManager};
use zipora::fsa::cache::{CachedState, ZeroPathData};

// ---------------------------------------------------------------------------------------------
// key / value types: a code u64 <-> a value of the type, injective on the canonical domain
// ---------------------------------------------------------------------------------------------
pub(super) trait KV: Clone + Default + Send + Sync + 'static {
    const DOM: u64;
    fn mk(x: u64) -> Self;
    fn inv(&self) -> u64;
    fn canon(x: u64) -> u64 { if Self::DOM == u64::MAX { x } else { x % Self::DOM } }
}
const GARBAGE: u64 = u64::MAX - 1;
impl KV for u64 { const DOM: u64 = u64::MAX; fn mk(x: u64) -> Self { x } fn inv(&self) -> u64 { *self } }
impl KV for String {
    const DOM: u64 = u64::MAX;
    fn mk(x: u64) -> Self { if x == 0 { String::new() } else { format!("{}{}", "k".repeat((x % 5) as usize), x) } }
    fn inv(&self) -> u64 { if self.is_empty() { 0 } else { self.trim_start_matches('k').parse().unwrap_or(GARBAGE) } }
}
impl KV for u8 { const DOM: u64 = 256; fn mk(x: u64) -> Self { x as u8 } fn inv(&self) -> u64 { *self as u64 } }
impl KV for i64 {
    const DOM: u64 = 1 << 40;
    fn mk(x: u64) -> Self { if x % 2 == 0 { -((x / 2) as i64) } else { i64::MIN + (x / 2) as i64 } }
    fn inv(&self) -> u64 { if *self <= 0 && *self > i64::MIN / 2 { (-*self) as u64 * 2 } else if *self < 0 { (*self - i64::MIN) as u64 * 2 + 1 } else { GARBAGE } }
}
impl KV for i32 {
    const DOM: u64 = 1 << 20;
    fn mk(x: u64) -> Self { if x % 2 == 0 { -((x / 2) as i32) } else { i32::MIN + (x / 2) as i32 } }
    fn inv(&self) -> u64 { if *self <= 0 && *self > i32::MIN / 2 { (-*self) as u64 * 2 } else if *self < 0 { (*self - i32::MIN) as u64 * 2 + 1 } else { GARBAGE } }
}
impl KV for () { const DOM: u64 = 1; fn mk(_: u64) -> Self {} fn inv(&self) -> u64 { 0 } }
impl KV for bool { const DOM: u64 = 2; fn mk(x: u64) -> Self { x == 1 } fn inv(&self) -> u64 { *self as u64 } }
impl KV for (u32, u32) {
    const DOM: u64 = 1 << 40;
    fn mk(x: u64) -> Self { ((x >> 8) as u32, (x & 255) as u32 | 0xFFFF_FF00) }
    fn inv(&self) -> u64 { if self.1 | 255 == u32::MAX || *self == (0, 0) { ((self.0 as u64) << 8) | (self.1 & 255) as u64 } else { GARBAGE } }
}
impl KV for Vec<u8> {
    const DOM: u64 = 251;
    fn mk(x: u64) -> Self { vec![x as u8; 1 + (x % 4) as usize] }
    fn inv(&self) -> u64 { match self.first() { Some(&b) if self.len() == 1 + (b % 4) as usize && self.iter().all(|&y| y == b) => b as u64, _ => GARBAGE } }
}

/// eviction callback for any key / value type, recording the codes
pub(super) struct RecG<K, V> { log: Rec, _p: PhantomData<fn(K, V)> }
impl<K, V> Clone for RecG<K, V> { fn clone(&self) -> Self { RecG { log: self.log.clone(), _p: PhantomData } } }
impl<K: KV, V: KV> EvictionCallback<K, V> for RecG<K, V> {
    fn on_evict(&self, k: &K, v: &V) { self.log.0.lock().unwrap().push((k.inv(), v.inv())); }
}

type ZR<T> = std::result::Result<T, String>;
/// a map of any type behind closures on codes
pub(super) struct MapFns {
    get: Box<dyn Fn(u64) -> Option<u64>>, put: Box<dyn Fn(u64, u64) -> ZR<Option<u64>>>, remove: Box<dyn Fn(u64) -> Option<u64>>,
    contains: Box<dyn Fn(u64) -> bool>, clear: Box<dyn Fn() -> ZR<()>>, len: Box<dyn Fn() -> usize>,
    is_empty: Box<dyn Fn() -> bool>, capacity: Box<dyn Fn() -> usize>, stat_entries: Box<dyn Fn() -> usize>,
    sharded: Option<ShardFns>,
}
pub(super) struct ShardFns {
    shard_sizes: Box<dyn Fn() -> Vec<usize>>, shard_count: Box<dyn Fn() -> usize>, keys: Box<dyn Fn() -> Vec<u64>>, rebalance: Box<dyn Fn() -> ZR<()>>,
    each_len: Box<dyn Fn() -> ZR<Vec<usize>>>, each_clear: Box<dyn Fn() -> ZR<()>>, shard_stats_some: Box<dyn Fn(usize) -> bool>,
}

fn lru_fns<K: KV + Hash + Eq, V: KV, E: EvictionCallback<K, V> + 'static>(m: LruMap<K, V, E>) -> MapFns {
    let m = Arc::new(m);
    let (a, b, c, d, e, f, g, h, i) = (m.clone(), m.clone(), m.clone(), m.clone(), m.clone(), m.clone(), m.clone(), m.clone(), m.clone());
    MapFns {
        get: Box::new(move |k| a.get(&K::mk(k)).map(|v| v.inv())),
        put: Box::new(move |k, v| b.put(K::mk(k), V::mk(v)).map(|o| o.map(|x| x.inv())).map_err(|e| format!("{:?}", e))),
        remove: Box::new(move |k| c.remove(&K::mk(k)).map(|v| v.inv())),
        contains: Box::new(move |k| d.contains_key(&K::mk(k))),
        clear: Box::new(move || e.clear().map_err(|e| format!("{:?}", e))),
        len: Box::new(move || f.len()), is_empty: Box::new(move || g.is_empty()), capacity: Box::new(move || h.capacity()),
        stat_entries: Box::new(move || i.stats().entry_count.load(std::sync::atomic::Ordering::Relaxed)),
        sharded: None,
    }
}

fn cmap_fns<K: KV + Hash + Eq, V: KV, E: EvictionCallback<K, V> + Send + Sync + Clone + 'static>(m: ConcurrentLruMap<K, V, E>) -> MapFns {
    let m = Arc::new(m);
    let (a, b, c, d, e, f, g, h, i) = (m.clone(), m.clone(), m.clone(), m.clone(), m.clone(), m.clone(), m.clone(), m.clone(), m.clone());
    let (s1, s2, s3, s4, s5, s6, s7) = (m.clone(), m.clone(), m.clone(), m.clone(), m.clone(), m.clone(), m.clone());
    MapFns {
        get: Box::new(move |k| a.get(&K::mk(k)).map(|v| v.inv())),
        put: Box::new(move |k, v| b.put(K::mk(k), V::mk(v)).map(|o| o.map(|x| x.inv())).map_err(|e| format!("{:?}", e))),
        remove: Box::new(move |k| c.remove(&K::mk(k)).map(|v| v.inv())),
        contains: Box::new(move |k| d.contains_key(&K::mk(k))),
        clear: Box::new(move || e.clear().map_err(|e| format!("{:?}", e))),
        len: Box::new(move || f.len()), is_empty: Box::new(move || g.is_empty()), capacity: Box::new(move || h.capacity()),
        stat_entries: Box::new(move || i.stats().total_entries()),
        sharded: Some(ShardFns {
            shard_sizes: Box::new(move || s1.shard_sizes()), shard_count: Box::new(move || s2.shard_count()),
            keys: Box::new(move || s3.keys().iter().map(|k| k.inv()).collect()),
            rebalance: Box::new(move || s4.rebalance().map_err(|e| format!("{:?}", e))),
            each_len: Box::new(move || {
                let seen: Arc<Mutex<Vec<usize>>> = Arc::new(Mutex::new(vec![]));
                let s = seen.clone();
                s5.for_each_shard(move |sh: &LruMap<K, V, E>| { s.lock().unwrap().push(sh.len()); Ok(()) }).map_err(|e| format!("{:?}", e))?;
                let v = seen.lock().unwrap().clone();
                Ok(v)
            }),
            each_clear: Box::new(move || s6.for_each_shard(|sh: &LruMap<K, V, E>| sh.clear()).map_err(|e| format!("{:?}", e))),
            shard_stats_some: Box::new(move |j| s7.shard_stats(j).is_some()),
        }),
    }
}

/// Operations beyond get/put/remove/contains/clear/len: 6 is_empty, 7 capacity, 8 statistics entry count, 9 shard_sizes,
/// 10 keys, 11 rebalance, 12 for_each_shard(len), 13 for_each_shard(clear), 14 shard_count / shard_stats.
/// None of them may change what is retrievable (13 is a clear); each observation is compared with the references.
fn extra_op(c: u8, f: &MapFns, refs: &mut [RefLru], cap_total: usize, fails: &mut Vec<String>) {
    let held: usize = refs.iter().map(|r| r.ents.len()).sum();
    match c {
        6 => { let g = (f.is_empty)(); if g != (held == 0) { fails.push(format!("is_empty() = {}, {} entries are retrievable", g, held)); } }
        7 => { let g = (f.capacity)(); if g != cap_total { fails.push(format!("capacity() = {}, configured {}", g, cap_total)); } }
        8 => { let g = (f.stat_entries)(); if g > cap_total { fails.push(format!("statistics report {} entries, capacity {}", g, cap_total)); } }
        _ => {
            let Some(s) = &f.sharded else { return; };
            match c {
                9 => { let g = (s.shard_sizes)(); let w: Vec<usize> = refs.iter().map(|r| r.ents.len()).collect();
                       if g != w { fails.push(format!("shard_sizes() = {:?}, the shards hold {:?}", g, w)); } }
                10 => { for k in (s.keys)() { if !(f.contains)(k) { fails.push(format!("keys() lists {}, which is not retrievable", k)); } } }
                11 => { if let Err(e) = (s.rebalance)() { fails.push(format!("rebalance failed: {}", e)); } }
                12 => match (s.each_len)() { Ok(mut g) => { let mut w: Vec<usize> = refs.iter().map(|r| r.ents.len()).collect(); g.sort(); w.sort();
                                                          if g != w { fails.push(format!("for_each_shard saw shards of {:?} entries, they hold {:?}", g, w)); } }
                                             Err(e) => fails.push(format!("for_each_shard failed: {}", e)) },
                13 => { for r in refs.iter_mut() { r.ents.clear(); }
                        if let Err(e) = (s.each_clear)() { fails.push(format!("for_each_shard(clear) failed: {}", e)); } }
                _ => { let n = (s.shard_count)(); if n != refs.len() { fails.push(format!("shard_count() = {}, configured {}", n, refs.len())); }
                       if !(s.shard_stats_some)(0) || (s.shard_stats_some)(refs.len()) { fails.push("shard_stats(i) is Some exactly for i < shard_count violated".into()); } }
            }
        }
    }
}

fn u(c: &Value, k: &str) -> u64 { c[k].as_u64().unwrap_or(0) }

/// Run a history on a map behind `MapFns` against per-shard reference LRUs.
fn run_map_history(f: &MapFns, ops: &[Op], refs: &mut [RefLru], shard_of: &dyn Fn(u64) -> usize, log: Option<&Rec>, keyspace: &[u64], fails: &mut Vec<String>) {
    let cap_total: usize = refs.iter().map(|r| r.cap).sum();
    let mut seen = 0usize;
    let r = guarded(|| {
        for &op in ops {
            if op.0 <= 5 {
                step_check(op, refs, shard_of, log, &mut seen, &*f.get, &*f.put, &*f.remove, &*f.contains, &*f.clear, &*f.len, fails);
            } else {
                extra_op(op.0, f, refs, cap_total, fails);
                // an observer / housekeeping call must not reach the eviction callback (13 is a clear: tolerated)
                if let Some(lg) = log { let n = lg.0.lock().unwrap().len(); if n != seen && op.0 != 13 { fails.push(format!("op {:?} invoked the eviction callback", op)); } seen = n; }
            }
            if f.sharded.is_some() {
                let s = f.sharded.as_ref().unwrap();
                let g = (s.shard_sizes)();
                for (j, r) in refs.iter().enumerate() { if g.get(j).copied().unwrap_or(usize::MAX) > r.cap { fails.push(format!("shard {} holds {} entries, per-shard capacity {}", j, g.get(j).copied().unwrap_or(0), r.cap)); } }
            }
            if fails.len() > 8 { break; }
        }
        for &k in keyspace {
            let w = refs[shard_of(k)].contains(k);
            if (f.contains)(k) != w { fails.push(format!("at the end contains_key({}) = {}", k, !w)); }
        }
    });
    if let Err(p) = r { fails.push(format!("panicked: {}", p)); }
}

const KTS: [&str; 8] = ["u64", "string", "u8", "i64", "unit", "bool", "pair", "u64"];
const VTS: [&str; 8] = ["u64", "string", "u8", "i32", "u64", "bytes", "unit", "unit"];

fn lruw_typed<K: KV + Hash + Eq, V: KV>(cx: &mut Ctx, c: &Value) {
    let (ctor, preset, shipped) = (u(c, "ctor"), u(c, "preset"), c["shipped"].as_bool().unwrap_or(false));
    let cell = format!("LruMap/wide/{}", ["new", "with_config", "with_eviction_callback", "with_config_and_callback"][(ctor % 4) as usize]);
    let ops: Vec<Op> = parse_ops(&c["ops"]).into_iter().map(|(o, k, v)| (o, K::canon(k), V::canon(v))).collect();
    let cfg = if shipped { lru_config(preset, lru_config(preset, 1).capacity) } else { lru_config(preset, u(c, "cap") as usize) };
    let cfg = if shipped { match preset % 4 { 1 => LruMapConfig::performance_optimized(), 2 => LruMapConfig::memory_optimized(), 3 => LruMapConfig::security_optimized(), _ => LruMapConfig::default() } } else { cfg };
    let cap = if ctor % 2 == 0 { u(c, "cap") as usize } else { cfg.capacity };
    cx.sum.eval(&cell, &format!("lruw {}", c), ops.iter().filter(|o| o.0 == 1).count() > cap);
    cx.sum.cell_status(&cell, "S-only");
    let log = Rec(Arc::new(Mutex::new(vec![])));
    let cb = || RecG::<K, V> { log: log.clone(), _p: PhantomData };
    let built = guarded(|| -> ZR<MapFns> {
        let e = |x: zipora::error::ZiporaError| format!("{:?}", x);
        Ok(match ctor % 4 {
            0 => lru_fns(LruMap::<K, V>::new(cap).map_err(e)?),
            1 => lru_fns(LruMap::<K, V>::with_config(cfg.clone()).map_err(e)?),
            2 => lru_fns(LruMap::<K, V, RecG<K, V>>::with_eviction_callback(cap, cb()).map_err(e)?),
            _ => lru_fns(LruMap::<K, V, RecG<K, V>>::with_config_and_callback(cfg.clone(), cb()).map_err(e)?),
        })
    });
    let f = match built {
        Ok(Ok(f)) => f,
        Ok(Err(e)) => { if cap >= 1 { cx.sum.fail(&cell, None, c.clone(), &format!("constructor refused capacity {}: {}", cap, e)); } return; }
        Err(p) => { cx.sum.fail(&cell, None, c.clone(), &format!("constructor panicked: {}", p)); return; }
    };
    let mut refs = vec![RefLru::new(cap)];
    let mut fails: Vec<String> = vec![];
    let keyspace: Vec<u64> = { let mut ks: Vec<u64> = (0..u(c, "nkeys") + 1).map(K::canon).collect(); ks.dedup(); ks };
    run_map_history(&f, &ops, &mut refs, &|_| 0, if ctor % 4 >= 2 { Some(&log) } else { None }, &keyspace, &mut fails);
    let before = log.0.lock().unwrap().len();
    drop(f);
    {   let lg = log.0.lock().unwrap();
        let mut pool: Vec<(u64, u64)> = refs[0].ents.iter().map(|e| (e.0, e.1)).collect();
        if !lg[before..].iter().all(|e| match pool.iter().position(|p| p == e) { Some(i) => { pool.remove(i); true } None => false }) {
            fails.push(format!("dropping the map invoked the eviction callback with {:?}, which it did not hold", &lg[before..]));
        }
    }
    if let Some(x) = fails.first() { cx.sum.fail(&cell, None, c.clone(), x); }
}

pub(super) fn lruw_case(cx: &mut Ctx, c: &Value) {
    match u(c, "types") % 8 {
        0 => lruw_typed::<u64, u64>(cx, c), 1 => lruw_typed::<String, String>(cx, c), 2 => lruw_typed::<u8, u8>(cx, c), 3 => lruw_typed::<i64, i32>(cx, c),
        4 => lruw_typed::<(), u64>(cx, c), 5 => lruw_typed::<bool, Vec<u8>>(cx, c), 6 => lruw_typed::<(u32, u32), ()>(cx, c), _ => lruw_typed::<u64, ()>(cx, c),
    }
}

/// ConcurrentLruMap, key-hash routing (the shard of a key is observed on a probe map of the same configuration).
fn cmapw_typed<K: KV + Hash + Eq, V: KV>(cx: &mut Ctx, c: &Value) {
    let (ctor, preset, shipped) = (u(c, "ctor"), u(c, "preset"), c["shipped"].as_bool().unwrap_or(false));
    let cell = format!("ConcurrentLruMap/wide/{}", ["new", "with_config", "with_eviction_callback", "with_config_and_callback"][(ctor % 4) as usize]);
    let cfg = if shipped { match preset % 3 { 1 => ConcurrentLruMapConfig::performance_optimized(), 2 => ConcurrentLruMapConfig::memory_optimized(), _ => ConcurrentLruMapConfig::default() } }
              else { cmap_config(preset, u(c, "total") as usize, u(c, "nshards") as usize, 0) };
    let (nshards, percap, total) = if ctor % 2 == 0 { let n = u(c, "nshards") as usize; (n, u(c, "total") as usize / n.max(1), u(c, "total") as usize) } else { (cfg.shard_count, cfg.base_config.capacity, cfg.base_config.capacity * cfg.shard_count) };
    let ops: Vec<Op> = if c["gen"].is_object() { gen_big_ops(u(&c["gen"], "kind"), u(&c["gen"], "n"), u(&c["gen"], "seed"), (percap * nshards) as u64) } else { parse_ops(&c["ops"]) };
    let ops: Vec<Op> = ops.into_iter().map(|(o, k, v)| (o, K::canon(k), V::canon(v))).collect();
    cx.sum.eval(&cell, &format!("cmapw {}", c), ops.iter().filter(|o| o.0 == 1).count() > percap);
    cx.sum.cell_status(&cell, "S-only");
    if nshards == 0 || !nshards.is_power_of_two() || percap == 0 { cx.sum.dist("cmapw_invalid_configuration_skipped"); return; }
    let log = Rec(Arc::new(Mutex::new(vec![])));
    let cb = || RecG::<K, V> { log: log.clone(), _p: PhantomData };
    let e = |x: zipora::error::ZiporaError| format!("{:?}", x);
    let built = guarded(|| -> ZR<MapFns> {
        Ok(match ctor % 4 {
            0 => cmap_fns(ConcurrentLruMap::<K, V>::new(total, nshards).map_err(e)?),
            1 => cmap_fns(ConcurrentLruMap::<K, V>::with_config(cfg.clone()).map_err(e)?),
            2 => cmap_fns(ConcurrentLruMap::<K, V, RecG<K, V>>::with_eviction_callback(total, nshards, cb()).map_err(e)?),
            _ => cmap_fns(ConcurrentLruMap::<K, V, RecG<K, V>>::with_config_and_callback(cfg.clone(), cb()).map_err(e)?),
        })
    });
    let f = match built {
        Ok(Ok(f)) => f,
        Ok(Err(x)) => { cx.sum.fail(&cell, None, c.clone(), &format!("constructor refused a valid configuration: {}", x)); return; }
        Err(p) => { cx.sum.fail(&cell, None, c.clone(), &format!("constructor panicked: {}", p)); return; }
    };
    // routing: one probe map of the same shape, every key put, located through shard_sizes() and removed again
    let mut keyspace: Vec<u64> = (0..u(c, "nkeys") + 1).map(K::canon).collect();
    for o in &ops { if o.0 <= 3 { keyspace.push(o.1); } }
    keyspace.sort(); keyspace.dedup();
    let mut route: HashMap<u64, usize> = HashMap::new();
    let probe = guarded(|| -> Option<()> {
        let p = if ctor % 2 == 0 { ConcurrentLruMap::<K, V>::new(total, nshards).ok()? } else { ConcurrentLruMap::<K, V>::with_config(cfg.clone()).ok()? };
        for &k in &keyspace {
            p.put(K::mk(k), V::mk(0)).ok()?;
            let j = p.shard_sizes().iter().position(|&n| n == 1)?;
            route.insert(k, j);
            p.remove(&K::mk(k));
            if p.len() != 0 { return None; }
        }
        Some(())
    });
    if !matches!(probe, Ok(Some(()))) { cx.sum.fail(&cell, None, c.clone(), "cannot observe the shard of a key on a probe map (put / shard_sizes / remove)"); return; }
    let mut refs: Vec<RefLru> = (0..nshards).map(|_| RefLru::new(percap)).collect();
    let mut fails: Vec<String> = vec![];
    let shown: Vec<u64> = if keyspace.len() > 400 { keyspace.iter().step_by(keyspace.len() / 300).copied().collect() } else { keyspace.clone() };
    run_map_history(&f, &ops, &mut refs, &|k| route[&k], if ctor % 4 >= 2 { Some(&log) } else { None }, &shown, &mut fails);
    if c["gen"].is_object() { let full = refs.iter().filter(|r| r.ents.len() >= r.cap).count(); cx.sum.dist(if full * 2 >= refs.len() { "cmapw_big_history_most_shards_full" } else { "cmapw_big_history_few_shards_full" }); }
    if let Some(x) = fails.first() { cx.sum.fail(&cell, None, c.clone(), x); }
}

pub(super) fn cmapw_case(cx: &mut Ctx, c: &Value) {
    match u(c, "types") % 3 { 0 => cmapw_typed::<u64, u64>(cx, c), 1 => cmapw_typed::<String, String>(cx, c), _ => cmapw_typed::<i64, ()>(cx, c) }
}

/// Big histories by (kind, n, seed): 0 = keys 0,1,2,.. put once each with gets of earlier keys, updates and removes in between
/// (every key beyond the capacity evicts); 1 = capacity + 1 keys used round robin (every put of a missing key evicts) with gets.
pub(super) fn gen_big_ops(kind: u64, n: u64, seed: u64, cap: u64) -> Vec<Op> {
    let mut r = Rng::new(seed ^ 0xC17B);
    let mut ops: Vec<Op> = Vec::with_capacity(n as usize + n as usize / 2);
    for i in 0..n {
        match kind {
            0 => {
                ops.push((1, i, i.wrapping_mul(3) + seed));
                if i % 3 == 0 { ops.push((0, r.below(i + 1), 0)); }
                if i % 11 == 5 { ops.push((2, r.below(i + 1), 0)); }
                if i % 97 == 13 { ops.push((1, r.below(i + 1), i + 7)); }
                if i % 1009 == 0 { ops.push((5, 0, 0)); ops.push((9, 0, 0)); }
            }
            _ => {
                let k = i % (cap + 1);
                if r.chance(1, 4) { ops.push((0, r.below(cap + 1), 0)); }
                ops.push((1, k, i + seed));
                if i % 501 == 0 { ops.push((5, 0, 0)); }
            }
        }
    }
    ops
}

/// the reference LRU with an index (same meaning as RefLru, for histories of 10^5..10^6 operations)
struct RefFast { cap: usize, map: HashMap<u64, (u64, u64)>, order: BTreeMap<u64, u64>, tick: u64 }
impl RefFast {
    fn new(cap: usize) -> Self { RefFast { cap, map: HashMap::new(), order: BTreeMap::new(), tick: 0 } }
    fn touch(&mut self, k: u64) { self.tick += 1; let t = self.tick; if let Some(e) = self.map.get_mut(&k) { self.order.remove(&e.1); e.1 = t; self.order.insert(t, k); } }
    fn get(&mut self, k: u64) -> Option<u64> { self.touch(k); self.map.get(&k).map(|e| e.0) }
    fn put(&mut self, k: u64, v: u64) -> (Option<u64>, Option<(u64, u64)>) {
        if let Some(e) = self.map.get_mut(&k) { let old = e.0; e.0 = v; self.touch(k); return (Some(old), None); }
        let mut ev = None;
        if self.map.len() >= self.cap {
            if let Some((&t, &vk)) = self.order.iter().next() { self.order.remove(&t); let e = self.map.remove(&vk).unwrap(); ev = Some((vk, e.0)); }
        }
        self.tick += 1;
        self.map.insert(k, (v, self.tick)); self.order.insert(self.tick, k);
        (None, ev)
    }
    fn remove(&mut self, k: u64) -> Option<u64> { self.tick += 1; self.map.remove(&k).map(|e| { self.order.remove(&e.1); e.0 }) }
}

/// One LruMap of a capacity around an interesting size, or a preset as shipped, through a long generated history.
pub(super) fn lrubig_case(cx: &mut Ctx, c: &Value) {
    let (preset, shipped, kind, n, seed) = (u(c, "preset"), c["shipped"].as_bool().unwrap_or(false), u(c, "kind"), u(c, "n"), u(c, "seed"));
    let cell = "LruMap/wide/big";
    let cfg = if shipped { match preset % 4 { 1 => LruMapConfig::performance_optimized(), 2 => LruMapConfig::memory_optimized(), 3 => LruMapConfig::security_optimized(), _ => LruMapConfig::default() } } else { lru_config(preset, u(c, "cap") as usize) };
    let cap = cfg.capacity;
    cx.sum.eval(cell, &format!("lrubig {}", c), n as usize > cap);
    cx.sum.cell_status(cell, "S-only");
    let log = Rec(Arc::new(Mutex::new(vec![])));
    let m = match guarded(|| LruMap::<u64, u64, Rec>::with_config_and_callback(cfg.clone(), log.clone())) {
        Ok(Ok(m)) => m,
        Ok(Err(e)) => { cx.sum.fail(cell, None, c.clone(), &format!("constructor refused capacity {}: {:?}", cap, e)); return; }
        Err(p) => { cx.sum.fail(cell, None, c.clone(), &format!("constructor panicked: {}", p)); return; }
    };
    let ops = gen_big_ops(kind, n, seed, cap as u64);
    let mut rf = RefFast::new(cap);
    let mut fails: Vec<String> = vec![];
    let mut seen = 0usize;
    let r = guarded(|| {
        for (step, &(o, k, v)) in ops.iter().enumerate() {
            let mut want_cb: Vec<(u64, u64)> = vec![];
            match o {
                0 => { let w = rf.get(k); let g = m.get(&k); if g != w { fails.push(format!("step {}: get({}) = {:?}, the most recent value put and not evicted/removed is {:?}", step, k, g, w)); } }
                1 => { let (wold, wev) = rf.put(k, v); if let Some(e) = wev { want_cb.push(e); }
                       match m.put(k, v) { Ok(g) => if g != wold { fails.push(format!("step {}: put({},{}) returned previous value {:?}, expected {:?}", step, k, v, g, wold)); },
                                           Err(e) => fails.push(format!("step {}: put({},{}) refused: {:?}", step, k, v, e)) } }
                2 => { let w = rf.remove(k); let g = m.remove(&k); if g != w { fails.push(format!("step {}: remove({}) = {:?}, expected {:?}", step, k, g, w)); } }
                _ => { let g = m.len(); if g != rf.map.len() { fails.push(format!("step {}: len() = {}, expected {}", step, g, rf.map.len())); } }
            }
            let lg = log.0.lock().unwrap();
            let new_cb = &lg[seen..];
            if o != 2 && new_cb != &want_cb[..] { fails.push(format!("step {}: op {:?}: eviction callback got {:?}, the least recently used entry to evict was {:?}", step, (o, k, v), new_cb, want_cb)); }
            seen = lg.len();
            drop(lg);
            if !fails.is_empty() { break; }
        }
        if fails.is_empty() {
            if m.len() != rf.map.len() || m.len() > cap { fails.push(format!("at the end len() = {}, expected {} (capacity {})", m.len(), rf.map.len(), cap)); }
            let top = n.max(cap as u64 + 1);
            for j in 0..400u64 { let k = (j * 7919 + seed) % top; if m.contains_key(&k) != rf.map.contains_key(&k) { fails.push(format!("at the end contains_key({}) = {}", k, m.contains_key(&k))); break; } }
        }
    });
    if let Err(p) = r { fails.push(format!("panicked: {}", p)); }
    // a big history that never fills the map would be vacuous: count them
    if seen == 0 { cx.sum.dist("lrubig_history_without_eviction"); } else { cx.sum.dist("lrubig_history_with_evictions"); }
    if let Some(x) = fails.first() { cx.sum.fail(cell, None, c.clone(), x); }
}

// ---------------------------------------------------------------------------------------------
// page cache: every public call of LruPageCache / SingleLruPageCache inside read / invalidate / rewrite / close histories
// ---------------------------------------------------------------------------------------------
/// what a test file holds: spelled out, or a sparse file (zeros) with a few non-zero runs around interesting offsets
enum Content { Dense(Vec<u8>), Sparse { len: u64, patches: Vec<(u64, Vec<u8>)> } }
impl Content {
    fn len(&self) -> u64 { match self { Content::Dense(d) => d.len() as u64, Content::Sparse { len, .. } => *len } }
    fn range(&self, a: u64, b: u64) -> Vec<u8> {
        let s = a.min(self.len()); let e = a.saturating_add(b).min(self.len());
        match self {
            Content::Dense(d) => d[s as usize..e as usize].to_vec(),
            Content::Sparse { patches, .. } => {
                let mut out = vec![0u8; (e - s) as usize];
                for (po, pb) in patches { for (i, &x) in pb.iter().enumerate() { let at = po + i as u64; if at >= s && at < e { out[(at - s) as usize] = x; } } }
                out
            }
        }
    }
}
fn sparse_patches(seed: u64, len: u64) -> Vec<(u64, Vec<u8>)> {
    let mut v = vec![];
    for b in [1u64 << 16, 1 << 28, 1 << 31, 1 << 32, len] {
        if b > len { continue; }
        let (s, e) = (b.saturating_sub(50), (b + 50).min(len));
        if s < e { v.push((s, (s..e).map(|i| file_byte(seed, i) | 1).collect())); }
    }
    v
}

struct Slot { fid: u32, file: Option<usize>, closed: bool, alts: HashMap<u64, Vec<u8>> }
type WOp = (u8, u64, u64, u64, u64);
fn wops_json(ops: &[WOp]) -> Value { json!(ops.iter().map(|o| json!([o.0, o.1, o.2, o.3, o.4])).collect::<Vec<_>>()) }
fn parse_wops(v: &Value) -> Vec<WOp> {
    v.as_array().map(|a| a.iter().filter_map(|o| { let o = o.as_array()?; let g = |i: usize| o.get(i).and_then(|x| x.as_u64()).unwrap_or(0); Some((o.first()?.as_u64()? as u8, g(1), g(2), g(3), g(4))) }).collect()).unwrap_or_default()
}

fn pcw_config(preset: u64, capbytes: usize, opts: u64) -> PageCacheConfig {
    let mut c = pc_config(preset, capbytes);
    if opts & 128 != 0 { c = PageCacheConfig::default().with_capacity(c.capacity).with_shards(c.num_shards); }
    if opts & 1 != 0 { let p = c.enable_prefetch; c = c.with_prefetch(!p); }
    if opts & 2 != 0 { let s = c.enable_statistics; c = c.with_statistics(!s); }
    if opts & 4 != 0 { c.page_size = 8192; }
    if opts & 8 != 0 { c.page_size = 1024; }
    if opts & 16 != 0 && c.capacity >= zipora::cache::HUGE_PAGE_SIZE { c = c.with_huge_pages(true); }
    if opts & 32 != 0 { c = c.with_load_factor(0.5); }
    if opts & 64 != 0 { c.page_size = 65536; c = c.with_shards(64); }
    c
}

impl Pc {
    fn mark_dirty(&self, f: u32, p: u32) -> ZR<()> { match self { Pc::Multi(c) => c.mark_dirty(f, p), Pc::Single(c) => c.mark_dirty(f, p) }.map_err(|e| format!("{:?}", e)) }
    fn flush_file(&self, f: u32) -> ZR<()> { match self { Pc::Multi(c) => c.flush_file(f), Pc::Single(c) => c.flush_file(f) }.map_err(|e| format!("{:?}", e)) }
    fn file_size(&self, f: u32) -> ZR<u64> { match self { Pc::Multi(c) => c.file_size(f), Pc::Single(c) => c.file_size(f) }.map_err(|e| format!("{:?}", e)) }
    fn register(&self, fd: i32) -> ZR<u32> { match self { Pc::Multi(c) => c.register_file(fd), Pc::Single(c) => c.register_file(fd) }.map_err(|e| format!("{:?}", e)) }
}

/// ops (code, slot, a, b, d): 0 read(off a, len b) | 1 prefetch | 2 invalidate_page(a) | 3 invalidate_range | 4 read_with_prefetch(a, b, ahead d)
/// | 5 read_batch [(slot,a,b), (slot,a+b,d), (slot+1,a,b)] | 6 rewrite [a,a+b) + invalidate_range on this id | 7 rewrite only | 8 close_file
/// | 9 size() bound (Single) | 10 mark_dirty(page a) | 11 flush_file | 12 file_size | 13 register_file(-1): a new (virtual) id
/// | 14 open_file of the slot's path again: a second id | 15 read through a reused buffer (Single: read(.., &mut the one buffer); otherwise
/// a buffer from a BufferPool, filled by copy_from_slice / extend_from_slice, given back) | 16 read and keep the buffer until the end
/// | 17 close_file, then open_file of the same path, the new id takes the slot
pub(super) fn pcw_case(cx: &mut Ctx, c: &Value) {
    let (single, preset, capbytes, opts) = (c["single"].as_bool().unwrap_or(false), u(c, "preset"), u(c, "capbytes") as usize, u(c, "opts"));
    let cell = if single { "SingleLruPageCache/wide" } else { "LruPageCache/wide" };
    let ops = parse_wops(&c["ops"]);
    cx.sum.eval(cell, &format!("pcw {}", c), ops.len() >= 3);
    cx.sum.cell_status(cell, "S-only");
    let fspec: Vec<(u64, u64, u64)> = c["files"].as_array().map(|a| a.iter().map(|f| (f[0].as_u64().unwrap_or(0), f[1].as_u64().unwrap_or(0), f[2].as_u64().unwrap_or(0))).collect()).unwrap_or_default();
    if fspec.is_empty() { return; }
    let cfg = pcw_config(preset, capbytes, opts);
    let cap_pages = (cfg.capacity / PAGE_SIZE).max(1);
    let cache = match guarded(|| if single { SingleLruPageCache::new(cfg.clone()).map(Pc::Single) } else { LruPageCache::new(cfg.clone()).map(Pc::Multi) }) {
        Ok(Ok(x)) => x,
        Ok(Err(e)) => { cx.sum.fail(cell, None, c.clone(), &format!("constructor refused: {:?}", e)); return; }
        Err(p) => { cx.sum.fail(cell, None, c.clone(), &format!("constructor panicked: {}", p)); return; }
    };
    let mut contents: Vec<Content> = vec![];
    let mut paths: Vec<String> = vec![];
    let mut slots: Vec<Slot> = vec![];
    for (i, &(seed, len, kind)) in fspec.iter().enumerate() {
        cx.fileno += 1;
        let p = format!("{}/w{}", cx.tmp, cx.fileno);
        let content = if kind == 1 {
            use std::io::{Seek, SeekFrom, Write};
            let patches = sparse_patches(seed, len);
            let mut f = std::fs::File::create(&p).expect("create sparse file");
            f.set_len(len).expect("set_len");
            for (po, pb) in &patches { f.seek(SeekFrom::Start(*po)).expect("seek"); f.write_all(pb).expect("write patch"); }
            Content::Sparse { len, patches }
        } else { let d = gen_file(seed, len); std::fs::write(&p, &d).expect("write test file"); Content::Dense(d) };
        match cache.open(&p) { Ok(f) => slots.push(Slot { fid: f, file: Some(i), closed: false, alts: HashMap::new() }), Err(e) => { cx.sum.fail(cell, None, c.clone(), &format!("open_file failed: {}", e)); return; } }
        contents.push(content);
        paths.push(p);
    }
    let mut fails: Vec<String> = vec![];
    let pool = BufferPool::new(2);
    let mut reused = CacheBuffer::new();
    let mut held: Vec<(CacheBuffer, Vec<u8>)> = vec![];
    // judge the bytes a read returned
    let judge = |slots: &[Slot], contents: &[Content], si: usize, a: u64, b: u64, got: &[u8], how: &str, fails: &mut Vec<String>| {
        let s = &slots[si];
        let live = s.file.filter(|_| !s.closed);
        let want: Vec<u8> = match live { Some(fi) => contents[fi].range(a, b), None => vec![] };
        let base = live.map_or(0, |fi| a.min(contents[fi].len()));
        let fresh = got.len() == want.len() && got.iter().enumerate().all(|(i, &g)| g == want[i] || s.alts.get(&(base + i as u64)).map_or(false, |v| v.contains(&g)));
        if !fresh {
            fails.push(match live { None => format!("{}(id without a file (closed / virtual), offset {}, length {}) returned {} bytes", how, a, b, got.len()),
                Some(fi) => format!("{}(file {} of {} bytes, offset {}, length {}) returned {} bytes, the file has {} in that range{}", how, fi, contents[fi].len(), a, b, got.len(), want.len(), if got.len() == want.len() { " (different bytes)" } else { "" }) });
        }
    };
    let r = guarded(|| {
        for &(code, sl, a, b, d) in &ops {
            let si = (sl as usize) % slots.len();
            let fid = slots[si].fid;
            let no_file = slots[si].closed || slots[si].file.is_none();
            let absurd = no_file && (a >= 1 << 40 || b >= 1 << 22 || d >= 1 << 22);
            match code {
                0 | 4 | 15 | 16 => {
                    if absurd { continue; }
                    let how = match code { 0 => "read", 4 => "read_with_prefetch", 15 => "read into a reused buffer", _ => "read (buffer kept)" };
                    let res: ZR<Vec<u8>> = match (&cache, code) {
                        (Pc::Multi(m), 4) => m.read_with_prefetch(fid, a, b as usize, d as usize).map(|x| x.data().to_vec()).map_err(|e| format!("{:?}", e)),
                        (Pc::Single(s), 4) => { if let Some(w) = a.checked_add(b).filter(|w| d > 0 && w.checked_add(d).is_some()) { let _ = s.prefetch(fid, w, d as usize); } s.read_new(fid, a, b as usize).map(|x| x.data().to_vec()).map_err(|e| format!("{:?}", e)) }
                        (Pc::Single(s), 15) => s.read(fid, a, b as usize, &mut reused).map(|_| reused.data().to_vec()).map_err(|e| format!("{:?}", e)),
                        (Pc::Multi(m), 15) => m.read(fid, a, b as usize).map_err(|e| format!("{:?}", e)).map(|x| {
                            let mut pb = pool.get();
                            if !pb.is_empty() || !pb.data().is_empty() { fails.push(format!("BufferPool::get handed out a buffer that still holds {} bytes", pb.len())); }
                            let dat = x.data();
                            if d % 2 == 0 { pb.copy_from_slice(dat); } else { let h = dat.len() / 2; pb.extend_from_slice(&dat[..h]); pb.reserve(d as usize); pb.extend_from_slice(&dat[h..]); }
                            let out = pb.data().to_vec();
                            pool.put(pb);
                            out
                        }),
                        (Pc::Multi(m), _) => m.read(fid, a, b as usize).map_err(|e| format!("{:?}", e)).map(|x| { let v = x.data().to_vec(); if code == 16 { held.push((x, v.clone())); } v }),
                        (Pc::Single(s), _) => s.read_new(fid, a, b as usize).map_err(|e| format!("{:?}", e)).map(|x| { let v = x.data().to_vec(); if code == 16 { held.push((x, v.clone())); } v }),
                    };
                    match res { Ok(got) => judge(&slots, &contents, si, a, b, &got, how, &mut fails), Err(e) => if !no_file { fails.push(format!("{}(offset {}, length {}) failed: {}", how, a, b, e)); } }
                }
                5 => {
                    if absurd { continue; }
                    let s2 = (si + 1) % slots.len();
                    let skip2 = (slots[s2].closed || slots[s2].file.is_none()) && (a >= 1 << 40 || b >= 1 << 22);
                    let mut reqs: Vec<(usize, u64, u64)> = vec![(si, a, b), (si, a.saturating_add(b), d)];
                    if !skip2 { reqs.push((s2, a, b)); }
                    if a.checked_add(b).is_none() { reqs.truncate(1); }
                    let rq: Vec<(u32, u64, usize)> = reqs.iter().map(|&(s, o, l)| (slots[s].fid, o, l as usize)).collect();
                    let res = match &cache { Pc::Multi(m) => m.read_batch(rq).map(|v| v.iter().map(|x| x.data().to_vec()).collect::<Vec<_>>()).map_err(|e| format!("{:?}", e)),
                                             Pc::Single(s) => rq.iter().map(|&(f, o, l)| s.read_new(f, o, l).map(|x| x.data().to_vec())).collect::<std::result::Result<Vec<_>, _>>().map_err(|e| format!("{:?}", e)) };
                    match res {
                        Ok(v) => { if v.len() != reqs.len() { fails.push(format!("read_batch of {} requests returned {} buffers", reqs.len(), v.len())); }
                                   for (got, &(s, o, l)) in v.iter().zip(reqs.iter()) { judge(&slots, &contents, s, o, l, got, "read_batch", &mut fails); } }
                        Err(e) => if reqs.iter().all(|&(s, _, _)| !slots[s].closed && slots[s].file.is_some()) { fails.push(format!("read_batch failed: {}", e)); }
                    }
                }
                1 => { if absurd || a.checked_add(b).is_none() || a >= 1 << 43 { continue; } if let Err(e) = cache.prefetch(fid, a, b as usize) { fails.push(format!("prefetch failed: {}", e)); } }
                2 => { match cache.inv_page(fid, a as u32) { Ok(()) => { let lo = (a as u32 as u64) * PAGE_SIZE as u64; slots[si].alts.retain(|&i, _| !(i >= lo && i < lo + PAGE_SIZE as u64)); } Err(e) => fails.push(format!("invalidate_page failed: {}", e)) } }
                3 => { if a.checked_add(b).is_none() || a >= 1 << 43 || b >= 1 << 26 { continue; }
                       match cache.inv_range(fid, a, b as usize) { Ok(()) => slots[si].alts.retain(|&i, _| !(i >= a && i < a + b)), Err(e) => fails.push(format!("invalidate_range failed: {}", e)) } }
                6 | 7 => {
                    let Some(fi) = slots[si].file else { continue; };
                    if slots[si].closed { continue; }
                    let Content::Dense(dat) = &mut contents[fi] else { continue; };
                    let s = (a as usize).min(dat.len()); let e = (a as usize).saturating_add(b as usize).min(dat.len());
                    if s >= e { continue; }
                    for (i, x) in dat[s..e].iter_mut().enumerate() {
                        for sl in slots.iter_mut().filter(|sl| sl.file == Some(fi) && !sl.closed) { sl.alts.entry((s + i) as u64).or_default().push(*x); }
                        *x = x.wrapping_mul(3).wrapping_add(i as u8).wrapping_add(101);
                    }
                    std::fs::write(&paths[fi], &*dat).expect("rewrite test file");
                    if code == 6 { match cache.inv_range(fid, s as u64, e - s) { Ok(()) => slots[si].alts.retain(|&i, _| !(i >= s as u64 && i < e as u64)), Err(er) => fails.push(format!("invalidate_range failed: {}", er)) } }
                }
                8 => { let r = cache.close(fid);
                       if r.is_err() && !no_file { fails.push(format!("close_file failed: {:?}", r)); }
                       if r.is_ok() { slots[si].closed = true; slots[si].alts.clear(); } }
                9 => { if let Pc::Single(sc) = &cache { let n = sc.size(); if n > cap_pages || sc.capacity() != cfg.capacity { fails.push(format!("size() = {} pages, capacity() = {} bytes, configured {} bytes", n, sc.capacity(), cfg.capacity)); } } }
                10 => { if let Err(e) = cache.mark_dirty(fid, a as u32) { fails.push(format!("mark_dirty failed: {}", e)); } }
                11 => { if let Err(e) = cache.flush_file(fid) { fails.push(format!("flush_file failed: {}", e)); } }
                12 => { let g = cache.file_size(fid);
                        match slots[si].file.filter(|_| !slots[si].closed) { Some(fi) => if g != Ok(contents[fi].len()) { fails.push(format!("file_size() = {:?}, the file has {} bytes", g, contents[fi].len())); },
                                                                              None => if g.is_ok() { fails.push(format!("file_size(id without a file) = {:?}", g)); } } }
                // fd -1 is the virtual id of a memory store; any other descriptor is refused today (were it accepted, the id has no file behind it)
                13 => match cache.register(if a == 0 { -1 } else { a as i32 }) { Ok(v) => slots.push(Slot { fid: v, file: None, closed: false, alts: HashMap::new() }),
                                                  Err(e) => if a == 0 { fails.push(format!("register_file(-1) failed: {}", e)); } },
                14 | 17 => {
                    let Some(fi) = slots[si].file else { continue; };
                    if code == 17 { let r = cache.close(fid); if r.is_err() && !slots[si].closed { fails.push(format!("close_file failed: {:?}", r)); } slots[si].closed = true; slots[si].alts.clear(); }
                    match cache.open(&paths[fi]) {
                        // (which id comes back is not constrained: only the bytes read through it are)
                        Ok(v) => { let ns = Slot { fid: v, file: Some(fi), closed: false, alts: HashMap::new() };
                                   if code == 17 { slots[si] = ns; } else { slots.push(ns); } }
                        Err(e) => fails.push(format!("open_file failed: {}", e)),
                    }
                }
                _ => {}
            }
            if let Pc::Single(sc) = &cache { if sc.size() > cap_pages { fails.push(format!("after op {:?}: size() = {} pages, capacity {} bytes", (code, sl, a, b, d), sc.size(), cfg.capacity)); } }
            if fails.len() > 4 { break; }
        }
        for (bf, snap) in &held { if bf.data() != &snap[..] || bf.len() != snap.len() { fails.push(format!("a buffer returned by an earlier read ({} bytes) changed while the cache went on", snap.len())); break; } }
    });
    if let Err(p) = r { fails.push(format!("panicked: {}", p)); }
    for p in &paths { let _ = std::fs::remove_file(p); }
    if let Some(x) = fails.first() { cx.sum.fail(cell, None, c.clone(), x); }
}

/// base operations from the first generator, with the new calls mixed in
fn gen_wops(r: &mut Rng, files: &[(u64, u64, u64)], n: usize, single: bool) -> Vec<WOp> {
    let ps = PAGE_SIZE as u64;
    let base: Vec<(u64, u64)> = files.iter().map(|f| (f.0, f.1)).collect();
    let mut ops: Vec<WOp> = vec![];
    let mut nslots = files.len() as u64;
    for (c, fi, a, b) in gen_pops(r, &base, n, true, 1) {
        if r.chance(1, 3) {
            let sl = r.below(nslots);
            let flen = files[(sl as usize) % files.len()].1;
            let page = r.below(flen / ps + 2);
            match r.below(12) {
                0 | 1 => ops.push((10, sl, page, 0, 0)),
                2 => ops.push((11, sl, 0, 0, 0)),
                3 => ops.push((12, sl, 0, 0, 0)),
                4 => { if r.chance(1, 5) { ops.push((13, 0, 7, 0, 0)); } else if nslots < 6 { ops.push((13, 0, 0, 0, 0)); nslots += 1; } }
                5 => { if nslots < 6 { ops.push((14, sl, 0, 0, 0)); nslots += 1; } }
                6 | 7 => ops.push((15, sl, a, b.min(3 * ps), r.below(3) * 5000)),
                8 => ops.push((16, sl, a, b.min(3 * ps), 0)),
                9 => ops.push((17, sl, 0, 0, 0)),
                10 => ops.push((4, sl, a, b.min(3 * ps), *r.pick(&[0u64, 1, ps, 5 * ps + 3]))),
                _ => ops.push((5, sl, a, b.min(2 * ps), r.below(2 * ps))),
            }
        }
        let c2 = if c == 5 && !single { 0 } else { c };
        ops.push((c2, if r.chance(1, 4) { r.below(nslots) } else { fi }, a, b, b));
        if c == 10 || r.chance(1, 9) { ops.push((10, fi, a / ps, 0, 0)); }
    }
    ops
}

// ---------------------------------------------------------------------------------------------
// CacheBuffer / BufferPool against a Vec<u8>
// ---------------------------------------------------------------------------------------------
/// ops (code, a, b): 0 from_data(a bytes of seed b) | 1 copy_from_slice | 2 extend_from_slice | 3 clear | 4 reserve(a) | 5 the buffer is moved
/// | 6 given to a pool and taken out again (comes back empty) | 7 a new buffer
pub(super) fn cbuf_case(cx: &mut Ctx, c: &Value) {
    let cell = "CacheBuffer";
    let ops = parse_ops(&c["ops"]);
    cx.sum.eval(cell, &format!("cbuf {}", c), ops.len() >= 3);
    cx.sum.cell_status(cell, "S-only");
    let mut fails: Vec<String> = vec![];
    let r = guarded(|| {
        let mut buf = CacheBuffer::new();
        let mut shadow: Vec<u8> = vec![];
        let pool = BufferPool::new(1 + u(c, "pool") as usize % 3);
        for &(code, a, b) in &ops {
            let a = a.min(1 << 21);
            match code {
                0 => { let d = gen_file(b, a); shadow = d.clone(); buf = CacheBuffer::from_data(d); }
                1 => { let d = gen_file(b, a); buf.copy_from_slice(&d); shadow = d; }
                2 => { let d = gen_file(b, a); buf.extend_from_slice(&d); shadow.extend_from_slice(&d); }
                3 => { buf.clear(); shadow.clear(); }
                4 => { buf.reserve(a as usize); }
                5 => { let moved = Box::new(std::mem::take(&mut buf)); let mut v = vec![*moved]; buf = v.pop().unwrap(); }
                6 => { pool.put(std::mem::take(&mut buf)); let extra = pool.get(); pool.put(extra); buf = pool.get(); shadow.clear(); }
                _ => { buf = CacheBuffer::new(); shadow.clear(); }
            }
            if buf.data() != &shadow[..] || buf.len() != shadow.len() || buf.is_empty() != shadow.is_empty() {
                fails.push(format!("after op {:?} the buffer shows {} bytes (len() = {}), it was given {} bytes{}", (code, a, b), buf.data().len(), buf.len(), shadow.len(), if buf.data().len() == shadow.len() { " (different bytes)" } else { "" }));
                break;
            }
            // CachedBlobStore::get serves the cache's bytes exactly when has_data() says so: bytes without has_data() would be dropped
            if !shadow.is_empty() && !buf.has_data() { fails.push(format!("after op {:?} the buffer holds {} bytes but has_data() is false", (code, a, b), shadow.len())); break; }
        }
    });
    if let Err(p) = r { fails.push(format!("panicked: {}", p)); }
    if let Some(x) = fails.first() { cx.sum.fail(cell, None, c.clone(), x); }
}

// ---------------------------------------------------------------------------------------------
// FileManager used directly: the bytes of the file, page arithmetic
// ---------------------------------------------------------------------------------------------
/// ops (code, a, b): 0 read_page(page a) | 1 read_data(off a, len b) | 2 file_size | 3 page arithmetic at offset a | 4 read_page with a buffer of b bytes
/// | 5 read_data into a buffer shorter than the request | 6 close_file, later calls must fail
pub(super) fn fm_case(cx: &mut Ctx, c: &Value) {
    let cell = "FileManager";
    let ops = parse_ops(&c["ops"]);
    cx.sum.eval(cell, &format!("fm {}", c), ops.len() >= 3);
    cx.sum.cell_status(cell, "S-only");
    let (seed, len) = (u(c, "seed"), u(c, "len"));
    cx.fileno += 1;
    let path = format!("{}/m{}", cx.tmp, cx.fileno);
    let data = gen_file(seed, len);
    std::fs::write(&path, &data).expect("write test file");
    let mut fails: Vec<String> = vec![];
    let r = guarded(|| {
        let fm = FileManager::new();
        if fm.open_file(format!("{}.does-not-exist", path)).is_ok() { fails.push("open_file of a path that does not exist succeeded".into()); }
        let other = fm.open_file(&path);
        let fid = match fm.open_file(&path) { Ok(f) => f, Err(e) => { fails.push(format!("open_file failed: {:?}", e)); return; } };
        let mut closed = false;
        let ps = PAGE_SIZE as u64;
        for &(code, a, b) in &ops {
            match code {
                0 => { let mut buf = vec![0xAAu8; PAGE_SIZE];
                       let res = fm.read_page(fid, a as u32, &mut buf);
                       if closed { if res.is_ok() { fails.push("read_page of a closed id succeeded".into()); } continue; }
                       let s = ((a as u32 as u64) * ps).min(len) as usize; let e = ((a as u32 as u64) * ps + ps).min(len) as usize;
                       // the buffer behind the bytes read is scratch (zero-filled on most paths, untouched beyond the end of the file)
                       match res { Ok(n) => if n != e - s || buf[..n] != data[s..e] { fails.push(format!("read_page({}) returned {} bytes, the file has {} in that page{}", a, n, e - s, if n == e - s { " (different bytes)" } else { "" })); },
                                   Err(e) => fails.push(format!("read_page({}) failed: {:?}", a, e)) } }
                1 => { let b = b.min(1 << 20); let mut buf = vec![0xAAu8; b as usize + (a % 3) as usize];
                       let res = fm.read_data(fid, a, b as usize, &mut buf);
                       if closed { if res.is_ok() { fails.push("read_data of a closed id succeeded".into()); } continue; }
                       let s = a.min(len) as usize; let e = a.saturating_add(b).min(len) as usize;
                       match res { Ok(n) => if n != e - s || buf[..n] != data[s..e] { fails.push(format!("read_data(offset {}, length {}) returned {} bytes, the file has {} in that range{}", a, b, n, e - s, if n == e - s { " (different bytes)" } else { "" })); },
                                   Err(e) => fails.push(format!("read_data(offset {}, length {}) failed: {:?}", a, b, e)) } }
                2 => { let g = fm.file_size(fid); if closed { if g.is_ok() { fails.push("file_size of a closed id succeeded".into()); } } else if g.as_ref().ok() != Some(&len) { fails.push(format!("file_size() = {:?}, the file has {} bytes", g, len)); } }
                3 => { if a >= 1 << 44 { continue; }
                       let (p, w) = (FileManager::offset_to_page_id(a), FileManager::offset_within_page(a));
                       if p as u64 != a / ps || w as u64 != a % ps || FileManager::page_aligned_offset(p) != a - a % ps { fails.push(format!("offset {}: page id {}, offset within page {}, page start {}", a, p, w, FileManager::page_aligned_offset(p))); } }
                4 => { if b as usize == PAGE_SIZE { continue; } let mut buf = vec![0u8; (b as usize).min(3 * PAGE_SIZE)]; if buf.len() != PAGE_SIZE && fm.read_page(fid, a as u32, &mut buf).is_ok() { fails.push(format!("read_page accepted a buffer of {} bytes", buf.len())); } }
                5 => { if b == 0 { continue; } let mut buf = vec![0u8; (b as usize - 1).min(4096)]; let want = b.max(buf.len() as u64 + 1) as usize; if fm.read_data(fid, a, want, &mut buf).is_ok() { fails.push(format!("read_data accepted a buffer of {} bytes for a request of {}", buf.len(), want)); } }
                _ => { let r = fm.close_file(fid); if r.is_ok() == closed { fails.push(format!("close_file = {:?}, closed before = {}", r, closed)); } closed = true; }
            }
            if fails.len() > 4 { break; }
        }
        // the other id of the same path is untouched by the close
        if let Ok(o) = other { let mut buf = vec![0u8; PAGE_SIZE]; let n = fm.read_page(o, 0, &mut buf).unwrap_or(usize::MAX); let e = (len as usize).min(PAGE_SIZE); if n != e || buf[..e] != data[..e] { fails.push("the second id of the same path does not read the file".into()); } }
    });
    if let Err(p) = r { fails.push(format!("panicked: {}", p)); }
    let _ = std::fs::remove_file(&path);
    if let Some(x) = fails.first() { cx.sum.fail(cell, None, c.clone(), x); }
}

// ---------------------------------------------------------------------------------------------
// CachedBlobStore: the other constructors, other wrapped stores, two stores on one cache, inner_mut, big blobs
// ---------------------------------------------------------------------------------------------
/// ops (code, a, b): 0 put(len a, seed b) | 1 get(a-th id) + size + contains | 2 remove(a-th id) | 3 flush (inherent) | 4 prefetch_range(a, b)
/// | 5 disable_cache | 6 enable_cache | 7 set_write_strategy(a) + write_strategy() | 8 is_empty / len | 9 BlobStore::flush (trait)
/// | 10 inner_mut().put(len a, seed b): a blob the wrapper has no metadata for | 11 inner_mut().remove(a-th id) | 12 put on the second
/// store of the same cache (len a, seed b) | 13 get on the second store (a-th id) | 14 remove on the second store
/// | 15 read of the real file through the shared cache (off a, len b) | 16 cache_stats / invalidation_stats (must not disturb)
fn blobw_run<T: BlobStore>(c: &Value, tmp: &str, fileno: &mut u64, mk: &dyn Fn() -> T, fails: &mut Vec<String>) -> ZR<()> {
    let e = |x: zipora::error::ZiporaError| format!("{:?}", x);
    let strat = |s: u64| match s % 3 { 1 => CacheWriteStrategy::WriteBack, 2 => CacheWriteStrategy::WriteAround, _ => CacheWriteStrategy::WriteThrough };
    let (ctor, strategy, preset, capbytes) = (u(c, "ctor"), u(c, "strategy"), u(c, "preset"), u(c, "capbytes") as usize);
    let ops = parse_ops(&c["ops"]);
    let flen = 3 * PAGE_SIZE as u64 + 17;
    let mut real: Option<(Arc<LruPageCache>, u32, String, Vec<u8>)> = None;
    let mut second: Option<CachedBlobStore<MemoryBlobStore>> = None;
    let mut store = match ctor % 4 {
        0 => CachedBlobStore::new(mk(), pc_config(preset, capbytes)).map_err(e)?,
        1 => CachedBlobStore::with_write_strategy(mk(), pc_config(preset, capbytes), strat(strategy)).map_err(e)?,
        _ => {
            let cache = Arc::new(LruPageCache::new(pc_config(preset, capbytes)).map_err(e)?);
            // ids on the shared cache: a first store, a real file, then the store under test
            second = Some(CachedBlobStore::with_cache(MemoryBlobStore::new(), cache.clone()).map_err(e)?);
            *fileno += 1;
            let p = format!("{}/wb{}", tmp, fileno);
            let data = gen_file(9, flen);
            std::fs::write(&p, &data).map_err(|x| x.to_string())?;
            let fid = cache.open_file(&p).map_err(e)?;
            real = Some((cache.clone(), fid, p, data));
            if ctor % 4 == 2 { CachedBlobStore::with_cache(mk(), cache).map_err(e)? } else { CachedBlobStore::with_cache_and_strategy(mk(), cache, strat(strategy)).map_err(e)? }
        }
    };
    let mut want_strategy = if ctor % 2 == 0 { CacheWriteStrategy::WriteThrough } else { strat(strategy) };
    let mut ids: Vec<u32> = vec![];
    let mut shadow: HashMap<u32, Vec<u8>> = HashMap::new();
    let mut ids2: Vec<u32> = vec![];
    let mut shadow2: HashMap<u32, Vec<u8>> = HashMap::new();
    for &(code, a, b) in &ops {
        match code {
            0 | 10 => { let data = gen_file(b, a.min(1 << 21));
                        let id = if code == 0 { store.put(&data).map_err(e)? } else { store.inner_mut().put(&data).map_err(e)? };
                        if shadow.contains_key(&id) { fails.push(format!("put returned id {} which is still in use", id)); }
                        shadow.insert(id, data); ids.push(id); }
            1 => { if ids.is_empty() { continue; } let id = ids[(a as usize) % ids.len()];
                   let got = store.get(id).ok(); let want = shadow.get(&id).cloned();
                   if got != want { fails.push(format!("get({}) returned {:?} bytes, {:?} bytes were put{}", id, got.as_ref().map(|g| g.len()), want.as_ref().map(|g| g.len()), if got.as_ref().map(|g| g.len()) == want.as_ref().map(|g| g.len()) { " (different bytes)" } else { "" })); }
                   if store.size(id).ok().flatten() != want.as_ref().map(|w| w.len()) { fails.push(format!("size({}) wrong", id)); }
                   if store.contains(id) != want.is_some() { fails.push(format!("contains({}) wrong", id)); } }
            2 | 11 => { if ids.is_empty() { continue; } let id = ids[(a as usize) % ids.len()];
                        let was = shadow.remove(&id).is_some();
                        let r = if code == 2 { store.remove(id) } else { store.inner_mut().remove(id) };
                        if r.is_ok() != was { fails.push(format!("remove({}) = {:?}, present = {}", id, r.is_ok(), was)); }
                        if store.get(id).is_ok() { fails.push(format!("get({}) after remove still returns data", id)); } }
            3 => store.flush().map_err(e)?,
            4 => store.prefetch_range(a, b as usize).map_err(e)?,
            5 => store.disable_cache(),
            6 => store.enable_cache(),
            7 => { store.set_write_strategy(strat(a)); want_strategy = strat(a); }
            8 => { if store.is_empty() != shadow.is_empty() || store.len() != shadow.len() { fails.push(format!("is_empty() = {}, len() = {}, {} blobs stored", store.is_empty(), store.len(), shadow.len())); } }
            9 => BlobStore::flush(&mut store).map_err(e)?,
            12 => { if let Some(s2) = &mut second { let data = gen_file(b ^ 0x55, a.min(1 << 17)); let id = s2.put(&data).map_err(e)?; shadow2.insert(id, data); ids2.push(id); } }
            13 => { if let Some(s2) = &second { if ids2.is_empty() { continue; } let id = ids2[(a as usize) % ids2.len()];
                    if s2.get(id).ok() != shadow2.get(&id).cloned() { fails.push(format!("second store on the same cache: get({}) differs from the bytes put", id)); } } }
            14 => { if let Some(s2) = &mut second { if ids2.is_empty() { continue; } let id = ids2[(a as usize) % ids2.len()];
                    let was = shadow2.remove(&id).is_some(); if s2.remove(id).is_ok() != was { fails.push(format!("second store on the same cache: remove({}) wrong", id)); } } }
            15 => { if let Some((cache, fid, _, data)) = &real {
                        let got = cache.read(*fid, a, b as usize).map_err(e)?.data().to_vec();
                        let s = (a as usize).min(data.len()); let en = (a as usize).saturating_add(b as usize).min(data.len());
                        if got != data[s..en] { fails.push(format!("shared cache: read(real file, {}, {}) returned {} bytes, the file has {}{}", a, b, got.len(), en - s, if got.len() == en - s { " (different bytes)" } else { "" })); } } }
            _ => { let _ = store.cache_stats(); let _ = store.invalidation_stats(); }
        }
        if store.write_strategy() != want_strategy { fails.push(format!("write_strategy() = {:?}, set {:?}", store.write_strategy(), want_strategy)); }
        if store.len() != shadow.len() { fails.push(format!("len() = {}, {} blobs stored", store.len(), shadow.len())); }
        if fails.len() > 4 { break; }
    }
    let mut left: Vec<u32> = shadow.keys().copied().collect();
    left.sort();
    for id in left {
        if store.get(id).ok().as_ref() != shadow.get(&id) { fails.push(format!("at the end get({}) differs from the bytes put", id)); break; }
        if store.inner().get(id).ok().as_ref() != shadow.get(&id) { fails.push(format!("at the end the wrapped store's get({}) differs from the bytes put", id)); break; }
    }
    if let Some(s2) = &second { for (id, w) in &shadow2 { if s2.get(*id).ok().as_ref() != Some(w) { fails.push(format!("at the end, second store on the same cache: get({}) differs", id)); break; } } }
    if let Some((_, _, p, _)) = &real { let _ = std::fs::remove_file(p); }
    Ok(())
}

pub(super) fn blobw_case(cx: &mut Ctx, c: &Value) {
    let inner = u(c, "inner") % 3;
    let cell = format!("CachedBlobStore/wide/{}", ["MemoryBlobStore", "nested CachedBlobStore", "PlainBlobStore"][inner as usize]);
    cx.sum.eval(&cell, &format!("blobw {}", c), c["ops"].as_array().map_or(0, |a| a.len()) >= 3);
    cx.sum.cell_status(&cell, "S-only");
    let mut fails: Vec<String> = vec![];
    let tmp = cx.tmp.clone();
    let mut fileno = cx.fileno;
    cx.fileno += 3;
    let dir = format!("{}/plain{}", tmp, fileno);
    let r = guarded(|| match inner {
        0 => blobw_run(c, &tmp, &mut fileno, &MemoryBlobStore::new, &mut fails),
        1 => blobw_run(c, &tmp, &mut fileno, &|| CachedBlobStore::with_write_strategy(MemoryBlobStore::new(), pc_config(1, 2 * PAGE_SIZE), CacheWriteStrategy::WriteBack).expect("inner cached store"), &mut fails),
        _ => { let _ = std::fs::create_dir_all(&dir); blobw_run(c, &tmp, &mut fileno, &|| zipora::blob_store::PlainBlobStore::create_new(&dir).expect("plain blob store"), &mut fails) }
    });
    let _ = std::fs::remove_dir_all(&dir);
    match r { Ok(Ok(())) => {}, Ok(Err(e)) => fails.push(format!("operation failed: {}", e)), Err(p) => fails.push(format!("panicked: {}", p)) }
    if let Some(x) = fails.first() { cx.sum.fail(&cell, None, c.clone(), x); }
}

// ---------------------------------------------------------------------------------------------
// FsaCache: presets, zero paths, is_full, remove_state's result, the state word
// ---------------------------------------------------------------------------------------------
/// ops (code, a, b): 0 cache_state | 1 get_state | 2 remove_state | 3 clear | 4 add_zero_path(a-th id, path of seed b) | 5 get_zero_path(a-th id)
/// | 6 is_full | 7 CachedState word round trip | 8 ZeroPathData segments (a segments of b % 300 bytes)
pub(super) fn fsaw_case(cx: &mut Ctx, c: &Value) {
    let cell = "FsaCache/wide";
    let (preset, strategy, max_states) = (u(c, "preset"), u(c, "strategy"), u(c, "max_states") as usize);
    let ops: Vec<Op> = if c["gen"].is_object() { let (n, seed) = (u(&c["gen"], "n"), u(&c["gen"], "seed")); let mut r = Rng::new(seed ^ 0xF5A);
        (0..n).map(|i| if i % 7 == 3 { (4, r.below(i + 1), i) } else if i % 7 == 5 { (5, r.below(i + 1), 0) } else if i % 13 == 0 { (1, r.below(i + 1), 0) } else if i % 31 == 7 { (2, r.below(i + 1), 0) } else if i % 101 == 0 { (6, 0, 0) } else { (0, r.below(1 << 24), r.below(1 << 31)) }).collect() } else { parse_ops(&c["ops"]) };
    cx.sum.eval(cell, &format!("fsaw {}", c), ops.len() > 3);
    cx.sum.cell_status(cell, "S-only");
    let mut fails: Vec<String> = vec![];
    let r = guarded(|| -> ZR<()> {
        let e = |x: zipora::error::ZiporaError| format!("{:?}", x);
        let mut cfg = match preset % 5 { 1 => FsaCacheConfig::small(), 2 => FsaCacheConfig::large(), 3 => FsaCacheConfig::memory_efficient(), _ => FsaCacheConfig::default() };
        if max_states > 0 { cfg.max_states = max_states; cfg.strategy = match strategy % 3 { 1 => CacheStrategy::DepthFirst, 2 => CacheStrategy::CacheFriendly, _ => CacheStrategy::BreadthFirst }; }
        let bound = cfg.max_states.max(1);
        let mut fc = if preset % 5 == 4 && max_states == 0 { FsaCache::new().map_err(e)? } else { FsaCache::with_config(cfg).map_err(e)? };
        let mut last: HashMap<u32, (u32, u32, bool)> = HashMap::new();
        let mut zp: HashMap<u32, Vec<u8>> = HashMap::new();      // id -> the path stored for the state now cached under it
        let mut ids: Vec<u32> = vec![];
        for &(op, a, b) in &ops {
            let pick = |ids: &Vec<u32>| if ids.is_empty() { None } else { Some(ids[(a as usize) % ids.len()]) };
            match op {
                0 => { let st = (a as u32 & 0xFF_FFFF, b as u32, a % 2 == 1);
                       // below max_states nothing is evicted, so the id handed out must not belong to a state that is still cached
                       let in_use: Vec<u32> = if ids.len() <= 64 { ids.iter().copied().filter(|&i| fc.get_state(i).is_some()).collect() } else { vec![] };
                       let id = fc.cache_state(st.0, st.1, st.2).map_err(e)?;
                       if in_use.len() < bound && in_use.contains(&id) { fails.push(format!("cache_state returned id {}, under which another state is still cached ({} of {} states)", id, in_use.len(), bound)); }
                       last.insert(id, st); zp.remove(&id); if !ids.contains(&id) { ids.push(id); } }
                1 => { if let Some(id) = pick(&ids) { if let Some(s) = fc.get_state(id) {
                           match last.get(&id) { Some(&w) => if (s.parent(), s.child_base, s.is_terminal()) != w || s.is_free() { fails.push(format!("get_state({}) = {:?}, most recently cached {:?}", id, (s.parent(), s.child_base, s.is_terminal(), s.is_free()), w)); },
                                                 None => fails.push(format!("get_state({}) returns a state that was removed", id)) } } } }
                2 => { if let Some(id) = pick(&ids) { let had = fc.get_state(id).is_some(); let g = fc.remove_state(id);
                       if g != had { fails.push(format!("remove_state({}) = {}, the state was cached: {}", id, g, had)); }
                       last.remove(&id); zp.remove(&id);
                       if fc.get_state(id).is_some() || fc.get_zero_path(id).is_some() { fails.push(format!("state / zero path of {} still served after remove_state", id)); } } }
                3 => { fc.clear(); for &id in &ids { if fc.get_state(id).is_some() || fc.get_zero_path(id).is_some() { fails.push(format!("state / zero path of {} served after clear", id)); } } ids.clear(); last.clear(); zp.clear(); }
                4 => { if let Some(id) = pick(&ids) { let mut z = ZeroPathData::new(); let path = gen_file(b, 1 + b % 200);
                       for ch in path.chunks(1 + (b % 90) as usize) { z.add_segment(ch).map_err(e)?; }
                       if z.get_full_path() != path { fails.push("ZeroPathData::get_full_path differs from the segments added".into()); }
                       let cached = fc.get_state(id).is_some();
                       let g = fc.add_zero_path(id, z);
                       if g.is_ok() != cached { fails.push(format!("add_zero_path({}) = {:?}, the state is cached: {}", id, g.is_ok(), cached)); }
                       if g.is_ok() { zp.insert(id, path); } } }
                5 => { if let Some(id) = pick(&ids) { let g = fc.get_zero_path(id).map(|z| z.get_full_path());
                       // evicted states lose their path; a path served must be the one stored for the state now cached under the id
                       if let Some(gp) = g { if fc.get_state(id).is_none() { fails.push(format!("get_zero_path({}) serves a path of a state that is not cached", id)); }
                                              else if zp.get(&id) != Some(&gp) { fails.push(format!("get_zero_path({}) serves a path that was not stored for the state cached under that id", id)); } } } }
                6 => { let n = fc.stats().cached_states; if fc.is_full() != (n >= bound) && n > 0 { fails.push(format!("is_full() = {}, {} of {} states cached", fc.is_full(), n, bound)); } }
                7 => { let mut s = CachedState::new(b as u32, a as u32 & 0xFF_FFFF, a % 2 == 1, a % 3 == 1);
                       let w = (a as u32 & 0xFF_FFFF, b as u32, a % 2 == 1);
                       if (s.parent(), s.child_base, s.is_terminal()) != w || s.is_free() != (a % 3 == 1) { fails.push(format!("CachedState::new({:?}) reads back {:?}", w, (s.parent(), s.child_base, s.is_terminal()))); }
                       s.mark_free(); if !s.is_free() || (s.parent(), s.child_base, s.is_terminal()) != w { fails.push("mark_free disturbed the state word".into()); }
                       s.mark_used(); if s.is_free() || (s.parent(), s.child_base, s.is_terminal()) != w { fails.push("mark_used disturbed the state word".into()); } }
                _ => { let mut z = ZeroPathData::new(); let mut all: Vec<u8> = vec![]; let seg0 = (b % 300) as usize;
                       // a refused segment is not the end: one-byte segments follow it (they fit until the total is used up), then the full size again
                       let mut refusals = 0usize; let mut after_refusal = 0usize;
                       for i in 0..a.min(400) { let seg = if after_refusal > 0 { after_refusal -= 1; 1 } else { seg0 }; let d = gen_file(i + b, seg as u64);
                           match z.add_segment(&d) { Ok(()) => { if seg > 255 { fails.push(format!("add_segment accepted {} bytes", seg)); } all.extend_from_slice(&d); } Err(_) => { if seg <= 255 && all.len() + seg <= u16::MAX as usize { fails.push(format!("add_segment refused {} bytes at a total of {}", seg, all.len())); } refusals += 1; after_refusal = 2; if refusals > 3 { break; } } } }
                       if z.get_full_path() != all { fails.push(format!("ZeroPathData::get_full_path returns {} bytes, {} were added", z.get_full_path().len(), all.len())); }
                       if z.total_length as usize != all.len() { fails.push(format!("ZeroPathData::total_length = {}, {} bytes were added", z.total_length, all.len())); } }
            }
            // states that are gone from the cache took their paths along
            if fc.stats().cached_states > bound { fails.push(format!("{} states cached, max_states {}", fc.stats().cached_states, bound)); }
            if fails.len() > 4 { break; }
        }
        Ok(())
    });
    match r { Ok(Ok(())) => {}, Ok(Err(e)) => fails.push(format!("operation failed: {}", e)), Err(p) => fails.push(format!("panicked: {}", p)) }
    if let Some(x) = fails.first() { cx.sum.fail(cell, None, c.clone(), x); }
}

// ---------------------------------------------------------------------------------------------
pub(super) fn run_one_wide(cx: &mut Ctx, c: &Value) -> bool {
    match c["cell"].as_str() {
        Some("lruw") => lruw_case(cx, c), Some("cmapw") => cmapw_case(cx, c), Some("lrubig") => lrubig_case(cx, c), Some("pcw") => pcw_case(cx, c),
        Some("cbuf") => cbuf_case(cx, c), Some("blobw") => blobw_case(cx, c), Some("fsaw") => fsaw_case(cx, c), Some("fm") => fm_case(cx, c),
        _ => return false,
    }
    true
}

fn with_extras(r: &mut Rng, base: Vec<Op>, codes: &[u8], one_in: u64) -> Vec<Op> {
    let mut ops = vec![];
    for o in base { if r.chance(1, one_in) { ops.push((*r.pick(codes), 0, 0)); } ops.push(o); }
    ops.push((*r.pick(codes), 0, 0));
    ops
}

pub(super) fn run_wide(cx: &mut Ctx, rng: &mut Rng, th: bool) {
    let ps = PAGE_SIZE as u64;
    let mul = if th { 8 } else { 1 };
    let mut t0 = std::time::Instant::now();
    let mut lap = |cx: &mut Ctx, name: &str| { cx.sum.dist_max(&format!("wide_ms_{}", name), t0.elapsed().as_millis() as u64); t0 = std::time::Instant::now(); };
    // LruMap: every constructor x key/value type x preset at capacities 1..3 (eviction on most puts), then random shapes
    for round in 0..(2 * mul) {
        for types in 0..8u64 { for ctor in 0..4u64 { for preset in 0..4u64 {
            if round > 0 && !rng.chance(1, 3) { continue; }
            let cap = rng.range(1, 3) + if rng.chance(1, 6) { rng.range(1, 5) } else { 0 };
            let nkeys = cap + rng.range(1, 3);
            let n = rng.range(6, 45) as usize;
            let base = gen_ops(rng, nkeys, n);
            let ops = with_extras(rng, base, &[6, 7, 8], 6);
            lruw_case(cx, &json!({"cell": "lruw", "types": types, "ctor": ctor, "preset": preset, "cap": cap, "nkeys": nkeys, "ops": ops_json(&ops)}));
        } } }
    }
    lap(cx, "lruw");
    // ConcurrentLruMap: constructor x type x preset x shard count, all the sharded entry points in the history
    for round in 0..(2 * mul) {
        for types in 0..3u64 { for ctor in 0..4u64 { for preset in 0..3u64 { for &nshards in &[1u64, 2, 4, 8] {
            if round > 0 && !rng.chance(1, 3) { continue; }
            let percap = rng.range(1, 3);
            let total = percap * nshards + if rng.chance(1, 4) { rng.below(nshards) } else { 0 };
            let nkeys = percap * nshards + rng.range(1, 4);
            let n = rng.range(6, 50) as usize;
            let base = gen_ops(rng, nkeys, n);
            let ops = with_extras(rng, base, &[6, 7, 8, 9, 9, 10, 11, 12, 13, 14], 5);
            cmapw_case(cx, &json!({"cell": "cmapw", "types": types, "ctor": ctor, "preset": preset, "total": total, "nshards": nshards, "nkeys": nkeys, "ops": ops_json(&ops)}));
        } } } }
    }
    lap(cx, "cmapw");
    // presets exactly as shipped (shard count and per-shard capacity untouched): memory_optimized 4 x 512, default 16 x 1024
    for (preset, ctor, kind, n) in [(2u64, 1u64, 0u64, 2700u64), (2, 3, 1, 6000), (0, 3, 0, 20500), (0, 1, 1, 30000)] {
        if preset == 0 && ctor == 1 && !th { continue; }
        cmapw_case(cx, &json!({"cell": "cmapw", "types": 0, "ctor": ctor, "preset": preset, "shipped": true, "nkeys": 0, "gen": {"kind": kind, "n": n, "seed": rng.below(1000)}}));
    }
    // performance_optimized as shipped: 2 x CPUs shards (skipped where that is not a power of two) of 8192 entries; not filled here
    cmapw_case(cx, &json!({"cell": "cmapw", "types": 1, "ctor": 3, "preset": 1, "shipped": true, "nkeys": 0, "gen": {"kind": 0, "n": 1500, "seed": rng.below(1000)}}));
    cmapw_case(cx, &json!({"cell": "cmapw", "types": 0, "ctor": 2, "preset": 0, "total": 16 * 300, "nshards": 16, "nkeys": 0, "gen": {"kind": 0, "n": 5600, "seed": rng.below(1000)}}));
    lap(cx, "cmapw_shipped");
    // capacities around 2^8 and 2^16, the shipped preset capacities (512 / 1024 / 8192), 2^20 + 1
    for &cap in &[255u64, 256, 257, 65535, 65536, 65537] {
        for kind in 0..2u64 {
            if cap > 1000 && kind == 1 && !th { continue; }
            // enough puts to fill the map although every 11th step removes a key, then a few thousand evictions
            let n = if kind == 0 { cap + cap / 8 + 2000 + rng.below(500) } else { cap + 1 + (2 * cap).min(20000) };
            lrubig_case(cx, &json!({"cell": "lrubig", "preset": rng.below(4), "cap": cap, "kind": kind, "n": n, "seed": rng.below(1000)}));
        }
    }
    for preset in 0..4u64 {
        let cap = [1024u64, 8192, 512, 1024][preset as usize];
        lrubig_case(cx, &json!({"cell": "lrubig", "preset": preset, "shipped": true, "kind": preset % 2, "n": 2 * cap + 100, "seed": rng.below(1000)}));
    }
    lrubig_case(cx, &json!({"cell": "lrubig", "preset": 1, "cap": (1u64 << 20) + 1, "kind": 0, "n": (1u64 << 20) + (1u64 << 17) + 9000, "seed": 5}));

    lap(cx, "lrubig");
    // page cache: the calls of the first generator with the other public calls mixed in, options toggled
    let sizes = [0u64, 1, ps - 1, ps, ps + 1, 2 * ps + 100, 3 * ps + 17, 5 * ps, 16 * ps + 5];
    for i in 0..(260 * mul) {
        let single = i % 3 == 1;
        let nf = 1 + rng.below(3) as usize;
        let files: Vec<(u64, u64, u64)> = (0..nf).map(|_| (rng.below(200), if rng.chance(1, 10) { rng.below(4 * ps) } else { *rng.pick(&sizes) }, 0)).collect();
        let capbytes = *rng.pick(&[ps as usize, 2 * ps as usize, 3 * ps as usize, 1, 64 * ps as usize, 64 * ps as usize, 512 * ps as usize, 0]);
        let mut ops: Vec<WOp> = vec![];
        if rng.chance(1, 2) { for f in 0..nf { ops.push((0, f as u64, 0, files[f].1, 0)); } }
        let n = rng.range(3, 14) as usize;
        ops.extend(gen_wops(rng, &files, n, single));
        for f in 0..nf { ops.push((0, f as u64, 0, files[f].1, 0)); }
        let opts = if rng.chance(1, 2) { rng.below(256) } else { 0 };
        let c = json!({"cell": "pcw", "single": single, "preset": rng.below(4), "capbytes": capbytes, "opts": opts, "files": files.iter().map(|f| json!([f.0, f.1, f.2])).collect::<Vec<_>>(), "ops": wops_json(&ops)});
        if i == 0 { cx.sum.sample(json!({"page_cache_wide": {"files": c["files"], "ops": wops_json(&ops[..ops.len().min(8)])}})); }
        pcw_case(cx, &c);
    }
    lap(cx, "pcw_random");
    // fixed shapes: a reused buffer after a non-empty read (empty range, EOF, length 0); two ids of one path around a rewrite;
    // reopen after close; dirty pages evicted; a virtual id between real ones
    for single in [false, true] { for capbytes in [ps as usize, 64 * ps as usize] { for preset in 0..4u64 {
        let flen = 2 * ps + 100;
        let shapes: Vec<Vec<WOp>> = vec![
            vec![(15, 0, 10, 300, 0), (15, 0, flen, 16, 0), (15, 0, 5, 7, 1), (15, 0, 100, 0, 0), (15, 0, ps - 3, 9, 3), (15, 0, flen + ps, 5, 0), (15, 0, 0, flen, 5000)],
            vec![(0, 0, 0, flen, 0), (14, 0, 0, 0, 0), (0, 1, 0, flen, 0), (7, 0, ps - 5, 20, 0), (3, 0, ps - 5, 20, 0), (0, 0, ps - 10, 40, 0), (0, 1, ps - 10, 40, 0), (3, 1, 0, flen, 0), (0, 1, 0, flen, 0), (8, 0, 0, 0, 0), (0, 1, 0, flen, 0), (0, 0, 0, 10, 0)],
            vec![(0, 0, 0, flen, 0), (10, 0, 0, 0, 0), (10, 0, 1, 0, 0), (10, 0, 2, 0, 0), (0, 0, 100, 50, 0), (6, 0, ps + 1, 30, 0), (11, 0, 0, 0, 0), (0, 0, 0, flen, 0), (17, 0, 0, 0, 0), (12, 0, 0, 0, 0), (0, 0, 0, flen, 0), (10, 0, 1, 0, 0), (8, 0, 0, 0, 0), (12, 0, 0, 0, 0), (0, 0, 0, 100, 0)],
            vec![(4, 0, u64::MAX - 2, 5, 10), (4, 0, u64::MAX - 20, 5, 100), (4, 0, 1 << 44, 10, ps), (4, 0, flen - 3, 10, 2 * ps), (4, 0, (1 << 63) + 5, 0, 1), (15, 0, u64::MAX, 1, 0), (5, 0, u64::MAX - 1, 1, 5), (0, 0, 0, flen, 0)],
            vec![(13, 0, 0, 0, 0), (14, 0, 0, 0, 0), (0, 1, 0, 3 * ps, 0), (0, 2, ps - 1, 2, 0), (5, 0, ps - 1, 2, 200), (5, 1, 0, 10, 10), (16, 0, 0, flen, 0), (16, 2, ps, flen, 0), (6, 0, 0, flen, 0), (0, 0, 0, flen, 0), (4, 0, 0, 10, 0), (4, 0, ps - 2, 4, 1), (4, 2, 0, flen, 6 * ps)],
        ];
        for ops in shapes {
            pcw_case(cx, &json!({"cell": "pcw", "single": single, "preset": preset, "capbytes": capbytes, "opts": 0, "files": [[preset + 3, flen, 0]], "ops": wops_json(&ops)}));
        }
    } } }
    lap(cx, "pcw_shapes");
    // a sparse file of 4 GiB + 2 pages + 100 bytes: page ids beyond 2^16 and 2^20, offsets beyond 2^32 (described by kind / length / seed)
    for (single, capbytes) in [(false, 3 * ps as usize), (true, 64 * ps as usize), (false, 0)] {
        let len = (1u64 << 32) + 2 * ps + 100;
        let mut ops: Vec<WOp> = vec![(12, 0, 0, 0, 0)];
        for b in [1u64 << 16, 1 << 28, 1 << 31, 1 << 32, len] {
            ops.push((0, 0, b - 60, 120, 0)); ops.push((15, 0, b - 1, 2, 0)); ops.push((5, 0, b - ps - 7, ps, 30)); ops.push((4, 0, b.saturating_sub(2 * ps), 2 * ps + 40, ps));
            ops.push((3, 0, b - 10, 20, 0)); ops.push((0, 0, b - 50, 100, 0)); ops.push((2, 0, b / ps, 0, 0)); ops.push((16, 0, b - 50, 51, 0));
        }
        ops.push((0, 0, (1 << 32) + 5, 1 << 20, 0));
        ops.push((8, 0, 0, 0, 0)); ops.push((0, 0, 1 << 32, 10, 0));
        pcw_case(cx, &json!({"cell": "pcw", "single": single, "preset": 2, "capbytes": capbytes, "opts": 0, "files": [[rng.below(200), len, 1]], "ops": wops_json(&ops)}));
    }
    lap(cx, "pcw_sparse");
    // huge pages switched on: the smallest capacity the validator accepts then (2 MiB = 512 pages), a file a few pages larger
    {
        let cap = zipora::cache::HUGE_PAGE_SIZE as u64;
        let len = cap + 3 * ps + 5;
        let mut ops: Vec<WOp> = vec![];
        let mut o = 0; while o < len { ops.push((0, 0, o, 300_000, 0)); o += 300_000; }
        ops.extend([(10, 0, 1, 0, 0), (0, 0, ps - 1, 2 * ps + 2, 0), (6, 0, cap - 3, 9, 0), (5, 0, cap - 10, 20, 30), (15, 0, len - 2, 10, 1), (9, 0, 0, 0, 0), (0, 0, 0, 2 * ps, 0)]);
        for single in [false, true] {
            pcw_case(cx, &json!({"cell": "pcw", "single": single, "preset": 1, "capbytes": cap, "opts": 16, "files": [[11, len, 0]], "ops": wops_json(&ops)}));
        }
    }
    // a file larger than the smallest shipped preset (memory_optimized, 32 MiB): read through, read again (evicted and reloaded)
    {
        let cap = PageCacheConfig::memory_optimized().capacity as u64;
        let len = cap + 5 * ps + 123;
        let mut ops: Vec<WOp> = vec![];
        let chunk = 1u64 << 20;
        let mut o = 0; while o < len { ops.push((if (o / chunk) % 5 == 4 { 15 } else { 0 }, 0, o, chunk, 0)); o += chunk; }
        ops.push((0, 0, 0, 3 * ps, 0)); ops.push((0, 0, cap - 5, 10, 0)); ops.push((0, 0, len - 200, 300, 0)); ops.push((9, 0, 0, 0, 0));
        if th { ops.push((0, 0, 0, len, 0)); }
        pcw_case(cx, &json!({"cell": "pcw", "single": true, "preset": 2, "capbytes": 0, "opts": 0, "files": [[7, len, 0]], "ops": wops_json(&ops)}));
    }

    lap(cx, "pcw_bigfile");
    // CacheBuffer / BufferPool
    let lens = [0u64, 1, 15, 16, 17, 100, ps - 1, ps, ps + 1, 65536, 1 << 20];
    for i in 0..(150 * mul) {
        let n = rng.range(3, 14) as usize;
        let ops: Vec<Op> = (0..n).map(|_| { let c = rng.below(100);
            let len = if rng.chance(1, 12) { *rng.pick(&lens) } else { *rng.pick(&lens[..9]) };
            (if c < 15 { 0 } else if c < 33 { 1 } else if c < 55 { 2 } else if c < 63 { 3 } else if c < 80 { 4 } else if c < 88 { 5 } else if c < 96 { 6 } else { 7 }, len, rng.below(250)) }).collect();
        cbuf_case(cx, &json!({"cell": "cbuf", "pool": i, "ops": ops_json(&ops)}));
    }
    for ops in [vec![(0u8, 3u64, 1u64), (4, 1 << 20, 0)], vec![(1, 100, 1), (1, 0, 0)], vec![(1, 40, 2), (4, 100_000, 0), (2, 5, 3)], vec![(2, 10, 1), (5, 0, 0), (4, 70_000, 0), (5, 0, 0)], vec![(0, 9, 1), (6, 0, 0), (2, 3, 3)]] {
        cbuf_case(cx, &json!({"cell": "cbuf", "pool": 1, "ops": ops_json(&ops)}));
    }

    lap(cx, "cbuf");
    // CachedBlobStore: short constructors, another wrapped store, two stores and a real file on one cache, inner_mut, big blobs
    let blens = [0u64, 1, 7, 100, ps - 1, ps, ps + 1, 2 * ps + 5, 300];
    for i in 0..(110 * mul) {
        let inner = if i % 18 == 17 { 2 } else { i % 2 };
        let n = if inner == 2 { rng.range(3, 8) } else { rng.range(4, 30) } as usize;
        let ops: Vec<Op> = (0..n).map(|_| { let c = rng.below(100);
            if c < 28 { (0, *rng.pick(&blens), rng.below(250)) } else if c < 52 { (1, rng.below(16), 0) } else if c < 60 { (2, rng.below(16), 0) } else if c < 63 { (3, 0, 0) }
            else if c < 67 { (4, rng.below(3 * ps), rng.below(2 * ps)) } else if c < 70 { (5, 0, 0) } else if c < 74 { (6, 0, 0) } else if c < 77 { (7, rng.below(3), 0) } else if c < 80 { (8, 0, 0) }
            else if c < 82 { (9, 0, 0) } else if c < 86 { (10, *rng.pick(&blens), rng.below(250)) } else if c < 88 { (11, rng.below(16), 0) } else if c < 92 { (12, *rng.pick(&blens), rng.below(250)) }
            else if c < 95 { (13, rng.below(8), 0) } else if c < 96 { (14, rng.below(8), 0) } else if c < 99 { (15, rng.below(3 * ps + 40), rng.below(2 * ps)) } else { (16, 0, 0) } }).collect();
        let capbytes = *rng.pick(&[ps, 2 * ps, 16 * ps]);
        blobw_case(cx, &json!({"cell": "blobw", "inner": inner, "ctor": rng.below(4), "strategy": rng.below(3), "preset": rng.below(4), "capbytes": capbytes, "ops": ops_json(&ops)}));
    }
    for (ctor, capbytes) in [(0u64, 2 * ps), (3, 16 * ps), (1, 0)] {
        // blobs of 64 KiB, 64 KiB + 1 and 1 MiB (given by length and seed): hundreds of cache pages per get
        let ops: Vec<Op> = vec![(0, 65536, 1), (0, 100, 2), (0, 65537, 3), (1, 0, 0), (1, 2, 0), (0, 1 << 20, 4), (1, 3, 0), (1, 1, 0), (2, 0, 0), (1, 2, 0), (5, 0, 0), (1, 3, 0), (6, 0, 0), (1, 3, 0), (8, 0, 0)];
        blobw_case(cx, &json!({"cell": "blobw", "inner": 0, "ctor": ctor, "strategy": 1, "preset": 2, "capbytes": capbytes, "ops": ops_json(&ops)}));
    }

    lap(cx, "blobw");
    // FsaCache: zero paths, is_full, presets as shipped
    for _ in 0..(160 * mul) {
        let max_states = if rng.chance(1, 6) { *rng.pick(&[9u64, 10, 11, 19, 20, 21, 100]) } else { rng.range(1, 25) };
        let n = rng.range(3, 90) as usize;
        let ops: Vec<Op> = (0..n).map(|_| { let c = rng.below(100);
            (if c < 45 { 0 } else if c < 58 { 1 } else if c < 66 { 2 } else if c < 68 { 3 } else if c < 82 { 4 } else if c < 93 { 5 } else if c < 96 { 6 } else if c < 99 { 7 } else { 8 }, rng.below(1 << 24), rng.below(1 << 31)) }).collect();
        fsaw_case(cx, &json!({"cell": "fsaw", "preset": rng.below(5), "strategy": rng.below(3), "max_states": max_states, "ops": ops_json(&ops)}));
    }
    fsaw_case(cx, &json!({"cell": "fsaw", "preset": 0, "strategy": 0, "max_states": 4, "ops": ops_json(&[(8, 300, 255), (8, 3, 256), (8, 400, 200), (8, 257, 255), (8, 258, 254)])}));
    for (preset, n) in [(1u64, 12_500u64), (0, 3000), (2, 3000), (4, 3000), (3, if th { 108_000 } else { 3000 })] {
        fsaw_case(cx, &json!({"cell": "fsaw", "preset": preset, "strategy": 0, "max_states": 0, "gen": {"n": n, "seed": rng.below(1000)}}));
    }

    lap(cx, "fsaw");
    // FileManager directly
    for _ in 0..(40 * mul) {
        let len = if rng.chance(1, 8) { rng.below(4 * ps) } else { *rng.pick(&sizes) };
        let n = rng.range(3, 16) as usize;
        let ops: Vec<Op> = (0..n).map(|_| { let c = rng.below(100);
            let off = match rng.below(5) { 0 => rng.below(len + 1), 1 => (rng.below(len / ps + 2) * ps).saturating_sub(rng.below(3)), 2 => len.saturating_sub(rng.below(300)), 3 => len + rng.below(2 * ps), _ => *rng.pick(&[0u64, ps, (1 << 28) - 1, 1 << 32, (1 << 44) - 1]) };
            if c < 25 { (0, rng.below(len / ps + 3), 0) } else if c < 60 { (1, off, *rng.pick(&[0u64, 1, ps - off % ps, ps, ps + 1, 3 * ps, 300])) } else if c < 68 { (2, 0, 0) } else if c < 82 { (3, off, 0) }
            else if c < 88 { (4, rng.below(3), *rng.pick(&[0u64, 1, ps - 1, ps + 1, 2 * ps])) } else if c < 95 { (5, off, 1 + rng.below(2 * ps)) } else { (6, 0, 0) } }).collect();
        fm_case(cx, &json!({"cell": "fm", "seed": rng.below(200), "len": len, "ops": ops_json(&ops)}));
    }
    lap(cx, "fm");
}
