//! C16: version tokens - one writer at a time, nothing reclaimed while still visible.
//!
//! Cell `conc/L<level>`: 2-3 real threads run small programs of acquire / drop / return-to-cache /
//!   clear-cache / retire / reclaim against ONE TokenManager (and its VersionManager) under an explicit
//!   schedule.  Threads are parked at the `sched_point` hooks (cfg zipora_verif) placed before every
//!   shared access; a baton-passing scheduler lets exactly one thread run from one hook to the next.
//!   After every step the oracle below is evaluated on what the real code shows, and the whole run
//!   (point reached, current/min version, both counters after each step, result of every acquire) is
//!   also replayed by the Coq model on the same schedule.
//! Cell `concx/L<level>`: the same with with_*_token, tokens handed between threads, 40-item retirements, gated bulk reclaim
//!   on a list of any threshold, clear_all_stats; replayed by the same model (coq/C16/Model.v `concb_ok`).
//! Cell `lazy_free_list`: LazyFreeList scripts, replayed by coq/C16/ModelLazy.v `lazy_ok`.
//! Cell `seq`: one thread, several managers, tokens cached / dropped / managers dropped in any order.
//!
//! The oracle decides the property text directly (independent of the model):
//!   (i)   level 3: at most one writer token is held at any instant
//!   (ii)  min_version() <= version of every held (tracked) token; every item handed to the free
//!         callback by LazyFreeList::process_safe_items(min_version()) has age < every held version
//!   (iii) held <= counter <= held + cached + in-flight at every instant; counters are 0 at the end
//!   (iv)  no token release is aimed at a destroyed manager (registry hook), no panic, no hang
use crate::util::*;
use serde_json::{json, Value};
use std::cell::Cell;
use std::sync::{Arc, Condvar, Mutex};
use std::time::{Duration, Instant};
use zipora::fsa::token::{with_reader_token, with_writer_token, ReaderTokenAccess, TokenAccess, TokenCache, TokenManager, WriterTokenAccess};
use zipora::fsa::verif_sched;
use zipora::fsa::CompressedSparseTrie;
use zipora::error::ZiporaError;
use zipora::fsa::version_sync::{
    ConcurrencyLevel, LazyFreeItem, LazyFreeList, ReaderToken, VersionManager, WriterToken,
};

const HEADER: &str = r#"From ZV.Common Require Import Base Run.
From ZV.C16 Require Import Model ModelSeq ModelLazy.
Open Scope N_scope.
Inductive case_t := CConc (c : concb_case) | CSeq (c : seq_case) | CLazy (c : lazy_case).
Definition ok (c : case_t) : bool :=
  match c with CConc c => concb_ok true c | CSeq c => seq_ok c | CLazy c => lazy_ok c end.
"#;

// ------------------------------------------------------------------------------------------------
// operations
// ------------------------------------------------------------------------------------------------
#[derive(Clone, Copy, PartialEq, Debug)]
enum Op { AcqR, AcqW, TmAcqR, TmAcqW, Drop(usize), Ret(usize), Clear, Retire, Reclaim,
    // ---- oracle breadth (a run whose programs contain one of these is judged by the oracle only: cell `concx/L<level>`)
    /// `with_reader_token` / `with_writer_token` on the shared TokenManager: acquire through the thread cache, a schedule point
    /// while the closure holds the token, return to the thread cache
    WithR, WithW,
    /// the held token i is put into a mailbox shared by the threads / the newest token of the mailbox is taken out: tokens are
    /// released (dropped, cached, cleared) by a thread other than the one that acquired them
    Give(usize), Take,
    /// 40 items retired at once (the queue passes one and two bulk thresholds) / reclaim only when `should_bulk_process()`
    RetireN, ReclaimBulk,
    /// `TokenManager::clear_all_stats()` in the middle of the traffic
    ClearStats,
}

impl Op {
    fn name(&self) -> &'static str {
        match self {
            Op::AcqR => "AcqR", Op::AcqW => "AcqW", Op::TmAcqR => "TmAcqR", Op::TmAcqW => "TmAcqW",
            Op::Drop(_) => "Drop", Op::Ret(_) => "Ret", Op::Clear => "Clear", Op::Retire => "Retire", Op::Reclaim => "Reclaim",
            Op::WithR => "WithR", Op::WithW => "WithW", Op::Give(_) => "Give", Op::Take => "Take", Op::RetireN => "RetireN",
            Op::ReclaimBulk => "ReclaimBulk", Op::ClearStats => "ClearStats",
        }
    }
    fn is_ext(&self) -> bool { matches!(self, Op::WithR | Op::WithW | Op::Give(_) | Op::Take | Op::RetireN | Op::ReclaimBulk | Op::ClearStats) }
    fn arg(&self) -> usize { match self { Op::Drop(i) | Op::Ret(i) | Op::Give(i) => *i, _ => 0 } }
    fn parse(name: &str, arg: usize) -> Option<Op> {
        Some(match name {
            "AcqR" => Op::AcqR, "AcqW" => Op::AcqW, "TmAcqR" => Op::TmAcqR, "TmAcqW" => Op::TmAcqW,
            "Drop" => Op::Drop(arg), "Ret" => Op::Ret(arg), "Clear" => Op::Clear,
            "Retire" => Op::Retire, "Reclaim" => Op::Reclaim,
            "WithR" => Op::WithR, "WithW" => Op::WithW, "Give" => Op::Give(arg), "Take" => Op::Take, "RetireN" => Op::RetireN,
            "ReclaimBulk" => Op::ReclaimBulk, "ClearStats" => Op::ClearStats, _ => return None,
        })
    }
    fn coq(&self) -> String {
        match self { Op::Drop(i) => format!("Drop {}", i), Op::Ret(i) => format!("Ret {}", i), Op::Give(i) => format!("Give {}", i), o => o.name().to_string() }
    }
}

fn level_of(l: u8) -> ConcurrencyLevel {
    match l {
        0 => ConcurrencyLevel::NoWriteReadOnly,
        1 => ConcurrencyLevel::SingleThreadStrict,
        2 => ConcurrencyLevel::SingleThreadShared,
        3 => ConcurrencyLevel::OneWriteMultiRead,
        _ => ConcurrencyLevel::MultiWriteMultiRead,
    }
}

enum Tok { R(ReaderToken), W(WriterToken) }
#[derive(Clone, Copy, Debug, PartialEq)]
struct TokInfo { kind: u8 /* 0 reader, 1 writer, 2 read-only */, version: u64, minv: u64, issuer: usize, handed_by: usize }
impl Tok {
    fn info(&self, issuer: usize) -> TokInfo {
        match self {
            Tok::R(t) => TokInfo { kind: if t.is_readonly() { 2 } else { 0 }, version: t.version(), minv: t.min_version(), issuer, handed_by: issuer },
            Tok::W(t) => TokInfo { kind: 1, version: t.version(), minv: t.min_version(), issuer, handed_by: issuer },
        }
    }
}

// ------------------------------------------------------------------------------------------------
// baton-passing scheduler over real threads
// ------------------------------------------------------------------------------------------------

#[derive(Default)]
struct ThRec {
    parked: Option<u32>,
    lock_target: usize,       // address of the mutex the thread is about to lock (0: not at a lock point)
    finished: bool,
    held: Vec<TokInfo>,
    cached: [Option<TokInfo>; 2],
    slack: [u64; 2],          // tokens in flight in the running operation (reader, writer)
    results: Vec<i128>,
    freed_now: Vec<u64>,      // ages handed to the free callback by the step just executed
    panic: Option<String>,
}

/// How the next thread is picked.
enum Chooser {
    /// follow `prefix`, then stay on the running thread while it can run (no further pre-emption)
    Prefix(Vec<usize>),
    /// stay with probability 1 - 1/den, else a random enabled thread
    Random(Rng, u64),
    /// follow a recorded schedule, skipping entries that cannot run; then as Prefix
    Replay(Vec<usize>, usize),
}
impl Chooser {
    fn choose(&mut self, step: usize, en: &[usize], last: Option<usize>) -> usize {
        let stay = |last: Option<usize>| match last { Some(l) if en.contains(&l) => l, _ => en[0] };
        match self {
            Chooser::Prefix(p) => if step < p.len() && en.contains(&p[step]) { p[step] } else { stay(last) },
            Chooser::Random(r, den) => match last {
                Some(l) if en.contains(&l) && !r.chance(1, *den) => l,
                _ => en[r.below(en.len() as u64) as usize],
            },
            Chooser::Replay(s, pos) => {
                while *pos < s.len() {
                    let t = s[*pos];
                    *pos += 1;
                    if en.contains(&t) { return t; }
                }
                stay(last)
            }
        }
    }
}

type Obs = (u32, u64, u64, u64, u64);

#[derive(Default)]
struct RunOut {
    sched: Vec<usize>,
    enabled: Vec<Vec<usize>>,
    trace: Vec<Obs>,
    results: Vec<Vec<i128>>,
    failures: Vec<String>,
    max_writers: u64,
    steps: usize,
}

/// The baton: exactly one controlled thread runs at a time.  The scheduling decision is taken by
/// whichever thread arrives at a schedule point, so a step that stays on the same thread costs no
/// context switch.
struct RunState {
    level: u8,
    th: Vec<ThRec>,
    handles: Vec<Option<std::thread::Thread>>,
    turn: Option<usize>,
    started: usize,
    go: bool,
    last: Option<usize>,
    chooser: Chooser,
    out: RunOut,
    done: bool,
    stuck: bool,
    abort: bool,
    progress: u64,
    vm: Arc<VersionManager>,
    mail: Vec<TokInfo>,       // tokens in the mailbox: live, owned by no thread
    stats_cleared: bool,
}
struct Ctl { m: Mutex<RunState>, cv: Condvar }

thread_local! { static TID: Cell<Option<usize>> = const { Cell::new(None) }; }
static CURRENT: Mutex<Option<Arc<Ctl>>> = Mutex::new(None);

fn block_forever() -> ! { loop { std::thread::park(); } }

impl RunState {
    /// Observation and oracle after thread `t` completed a step.
    fn record_step(&mut self, t: usize) {
        let vm = self.vm.clone();
        let point = if self.th[t].finished { 99 } else { self.th[t].parked.unwrap_or(98) };
        let (cur, min, ar, aw) = (vm.current_version(), vm.min_version(), vm.active_readers(), vm.active_writers());
        self.out.trace.push((point, cur, min, ar, aw));
        let step = self.out.steps;
        let mut held = [0u64; 2];
        let mut maybe = [0u64; 2];
        let mut fails: Vec<String> = vec![];
        for h in &self.mail { if h.kind < 2 { held[h.kind as usize] += 1; } }
        for r in self.th.iter() {
            for h in &r.held { if h.kind < 2 { held[h.kind as usize] += 1; } }
            for c in r.cached.iter().flatten() { if c.kind < 2 { maybe[c.kind as usize] += 1; } }
            maybe[0] += r.slack[0];
            maybe[1] += r.slack[1];
        }
        if let Some(p) = &self.th[t].panic { fails.push(format!("panic in an operation of thread {}: {}", t, p)); }
        if held[1] > self.out.max_writers { self.out.max_writers = held[1]; }
        if self.level == 3 && held[1] > 1 {
            fails.push(format!("(i) {} writer tokens are held at once in OneWriteMultiRead (step {})", held[1], step));
        }
        let nth = self.th.len();
        let owners = || self.th.iter().enumerate().map(|(ti, r)| (ti, &r.held)).chain(std::iter::once((nth, &self.mail)));
        for (ti, hs) in owners() {
            for h in hs {
                if h.kind < 2 && min > h.version {
                    fails.push(format!("(ii) min_version {} exceeds version {} of a token held by thread {} (step {})", min, h.version, ti, step));
                }
                if h.kind < 2 && !vm.validate_token_version(h.version) {
                    fails.push(format!("(ii) validate_token_version({}) is false for a token held by thread {} (min_version {}, current_version {}, step {})", h.version, ti, min, cur, step));
                }
            }
        }
        for a in &self.th[t].freed_now {
            for (ti, hs) in owners() {
                for h in hs {
                    if h.kind < 2 && *a >= h.version {
                        fails.push(format!("(ii) item retired at version {} was handed to the free callback while thread {} holds a token of version {} (step {})", a, ti, h.version, step));
                    }
                }
            }
        }
        for (k, name, c) in [(0usize, "active_readers", ar), (1usize, "active_writers", aw)] {
            if c < held[k] || c > held[k] + maybe[k] {
                fails.push(format!("(iii) {} = {} but {} tokens are held and at most {} more are cached or in flight (step {})", name, c, held[k], maybe[k], step));
            }
        }
        self.out.failures.extend(fails);
    }

    /// Picks the thread that performs the next step; None when the run is over (or stuck).
    fn schedule_next(&mut self) -> Option<usize> {
        let mut en = vec![];
        let mut all_done = true;
        for (t, r) in self.th.iter().enumerate() {
            if r.finished { continue; }
            all_done = false;
            if r.parked.is_some() {
                // a thread about to lock can run iff the real mutex is free right now (every other
                // thread is parked, so this cannot change before the thread is resumed)
                if r.lock_target != 0 && !unsafe { verif_sched::mutex_is_free(r.lock_target) } { continue; }
                en.push(t);
            }
        }
        if all_done { return None; }
        if en.is_empty() {
            self.out.failures.push("deadlock: every unfinished thread is waiting for token_chain_mutex".to_string());
            self.stuck = true;
            return None;
        }
        if self.out.steps >= 4000 || self.out.failures.len() > 6 {
            if self.out.failures.is_empty() { self.out.failures.push("run does not terminate within 4000 steps".into()); }
            self.stuck = true;
            return None;
        }
        let mut t = self.chooser.choose(self.out.steps, &en, self.last);
        if !en.contains(&t) { t = en[0]; }
        self.out.sched.push(t);
        self.out.enabled.push(en);
        self.out.steps += 1;
        self.last = Some(t);
        self.progress += 1;
        Some(t)
    }
}

fn wait_turn(ctl: &Ctl, me: usize) {
    loop {
        {
            let g = ctl.m.lock().unwrap_or_else(|e| e.into_inner());
            if g.abort { drop(g); block_forever(); }
            if g.turn == Some(me) { return; }
        }
        std::thread::park();
    }
}

/// Thread `me` reached schedule point `id` (None: it finished its program).
fn arrive(ctl: &Ctl, me: usize, id: Option<u32>) {
    let mut g = ctl.m.lock().unwrap_or_else(|e| e.into_inner());
    match id {
        Some(p) => { g.th[me].parked = Some(p); g.th[me].lock_target = verif_sched::lock_target(); }
        None => { g.th[me].finished = true; g.th[me].parked = None; g.th[me].lock_target = 0; }
    }
    if !g.go {
        // start-up: report and wait for the first grant
        g.started += 1;
        ctl.cv.notify_all();
        drop(g);
        if id.is_some() { wait_turn(ctl, me); }
        return;
    }
    g.record_step(me);
    match g.schedule_next() {
        Some(t) if t == me => {}
        Some(t) => {
            g.turn = Some(t);
            let h = g.handles[t].clone();
            drop(g);
            if let Some(h) = h { h.unpark(); }
            if id.is_some() { wait_turn(ctl, me); }
        }
        None => {
            g.turn = None;
            g.done = true;
            ctl.cv.notify_all();
            drop(g);
            if id.is_some() { block_forever(); }
        }
    }
}

fn hook(id: u32) {
    let t = match TID.try_with(|c| c.get()) { Ok(Some(t)) => t, _ => return };
    let ctl = CURRENT.lock().unwrap_or_else(|e| e.into_inner()).clone();
    if let Some(ctl) = ctl { arrive(&ctl, t, Some(id)); }
}

struct Shared {
    tm: Arc<TokenManager>,
    lazy: Mutex<LazyFreeList>,
    mail: Mutex<Vec<(Tok, TokInfo)>>,
}

fn next_op(prog: &[Op], pc: usize, held: usize, cached: &[Option<TokInfo>; 2]) -> Option<Op> {
    if pc < prog.len() { Some(prog[pc]) }
    else if held > 0 { Some(Op::Drop(0)) }
    else if cached[0].is_some() || cached[1].is_some() { Some(Op::Clear) }
    else { None }
}

fn runner(t: usize, ctl: Arc<Ctl>, sh: Arc<Shared>, prog: Vec<Op>) {
    TID.with(|c| c.set(Some(t)));
    {
        let mut g = ctl.m.lock().unwrap_or_else(|e| e.into_inner());
        g.handles[t] = Some(std::thread::current());
    }
    let mut held: Vec<(Tok, TokInfo)> = vec![];
    let mut cached: [Option<TokInfo>; 2] = [None, None];
    let mut pc = 0usize;
    let upd = |ctl: &Ctl, f: &mut dyn FnMut(&mut ThRec)| {
        let mut g = ctl.m.lock().unwrap_or_else(|e| e.into_inner());
        f(&mut g.th[t]);
    };
    let updg = |ctl: &Ctl, f: &mut dyn FnMut(&mut RunState)| {
        let mut g = ctl.m.lock().unwrap_or_else(|e| e.into_inner());
        f(&mut g);
    };
    loop {
        let op = match next_op(&prog, pc, held.len(), &cached) { Some(o) => o, None => break };
        arrive(&ctl, t, Some(0));
        let vm = sh.tm.version_manager().clone();
        let r = guarded(|| {
            match op {
                Op::AcqR | Op::AcqW | Op::TmAcqR | Op::TmAcqW => {
                    let w = matches!(op, Op::AcqW | Op::TmAcqW);
                    let via_cache = matches!(op, Op::TmAcqR | Op::TmAcqW);
                    upd(&ctl, &mut |r| { r.slack = [0, 0]; r.slack[w as usize] = 1; r.freed_now.clear(); });
                    let hits0 = { let st = sh.tm.thread_cache_stats(); st.reader_cache_hits + st.writer_cache_hits };
                    let got: Option<Tok> = if w {
                        (if via_cache { sh.tm.acquire_writer_token() } else { vm.acquire_writer_token() }).ok().map(Tok::W)
                    } else {
                        (if via_cache { sh.tm.acquire_reader_token() } else { vm.acquire_reader_token() }).ok().map(Tok::R)
                    };
                    let hits1 = { let st = sh.tm.thread_cache_stats(); st.reader_cache_hits + st.writer_cache_hits };
                    if via_cache && hits1 > hits0 { cached[w as usize] = None; }   // the cached token was handed out
                    let c2 = cached;
                    match got {
                        Some(tok) => {
                            let inf = tok.info(0);
                            held.push((tok, inf));
                            let hi: Vec<TokInfo> = held.iter().map(|x| x.1).collect();
                            upd(&ctl, &mut |r| { r.held = hi.clone(); r.cached = c2; r.slack = [0, 0];
                                                 r.results.push(inf.version as i128); r.results.push(inf.minv as i128); });
                        }
                        None => upd(&ctl, &mut |r| { r.cached = c2; r.slack = [0, 0]; r.results.push(-1); r.results.push(-1); }),
                    }
                }
                Op::Drop(i) => {
                    if i < held.len() {
                        let (tok, inf) = held.remove(i);
                        let hi: Vec<TokInfo> = held.iter().map(|x| x.1).collect();
                        upd(&ctl, &mut |r| { r.held = hi.clone(); r.slack = [0, 0]; r.freed_now.clear();
                                             if inf.kind < 2 { r.slack[inf.kind as usize] = 1; } });
                        drop(tok);
                    }
                    upd(&ctl, &mut |r| { r.slack = [0, 0]; r.freed_now.clear(); });
                }
                Op::Ret(i) => {
                    if i < held.len() {
                        let (tok, inf) = held.remove(i);
                        let slot = if inf.kind == 1 { 1 } else { 0 };
                        let old = cached[slot];
                        cached[slot] = Some(inf);
                        let hi: Vec<TokInfo> = held.iter().map(|x| x.1).collect();
                        let c2 = cached;
                        upd(&ctl, &mut |r| { r.held = hi.clone(); r.cached = c2; r.slack = [0, 0]; r.freed_now.clear();
                                             if let Some(o) = old { if o.kind < 2 { r.slack[o.kind as usize] = 1; } } });
                        match tok { Tok::R(x) => sh.tm.return_reader_token(x), Tok::W(x) => sh.tm.return_writer_token(x) }
                    }
                    upd(&ctl, &mut |r| { r.slack = [0, 0]; r.freed_now.clear(); });
                }
                Op::Clear => {
                    let old = cached;
                    cached = [None, None];
                    upd(&ctl, &mut |r| { r.cached = [None, None]; r.slack = [0, 0]; r.freed_now.clear();
                                         for o in old.iter().flatten() { if o.kind < 2 { r.slack[o.kind as usize] += 1; } } });
                    sh.tm.clear_thread_cache();
                    upd(&ctl, &mut |r| { r.slack = [0, 0]; });
                }
                Op::WithR | Op::WithW => {
                    let w = op == Op::WithW;
                    let slot = w as usize;
                    upd(&ctl, &mut |r| { r.slack = [0, 0]; r.slack[slot] = 1; r.freed_now.clear(); });
                    let hits0 = cache_hits(&sh.tm);
                    let mut ran = false;
                    // what happens while the closure owns the token: it is held (a schedule point lets the other threads
                    // run), then it is on its way into the thread cache, whose previous token is released by the caching
                    let mut body = |inf: TokInfo| {
                        ran = true;
                        if cache_hits(&sh.tm) > hits0 { cached[slot] = None; }
                        let mut hi: Vec<TokInfo> = held.iter().map(|x| x.1).collect();
                        hi.push(inf);
                        let c2 = cached;
                        upd(&ctl, &mut |r| { r.held = hi.clone(); r.cached = c2; r.slack = [0, 0];
                                             r.results.push(inf.version as i128); r.results.push(inf.minv as i128); });
                        arrive(&ctl, t, Some(0));
                        let old = cached[slot];
                        cached[slot] = Some(inf);
                        hi.pop();
                        let c3 = cached;
                        upd(&ctl, &mut |r| { r.held = hi.clone(); r.cached = c3; r.slack = [0, 0];
                                             if let Some(o) = old { if o.kind < 2 { r.slack[o.kind as usize] = 1; } } });
                    };
                    if w {
                        let _ = with_writer_token(&sh.tm, |tk| { body(TokInfo { kind: 1, version: tk.version(), minv: tk.min_version(), issuer: 0, handed_by: 0 }); Ok(()) });
                    } else {
                        let _ = with_reader_token(&sh.tm, |tk| { body(TokInfo { kind: if tk.is_readonly() { 2 } else { 0 }, version: tk.version(), minv: tk.min_version(), issuer: 0, handed_by: 0 }); Ok(()) });
                    }
                    if !ran { upd(&ctl, &mut |r| { r.results.push(-1); r.results.push(-1); }); }
                    upd(&ctl, &mut |r| { r.slack = [0, 0]; });
                }
                Op::Give(i) => {
                    if i < held.len() {
                        let (tok, inf) = held.remove(i);
                        sh.mail.lock().unwrap_or_else(|e| e.into_inner()).push((tok, inf));
                        let hi: Vec<TokInfo> = held.iter().map(|x| x.1).collect();
                        updg(&ctl, &mut |g| { g.th[t].held = hi.clone(); g.mail.push(inf); });
                    }
                    upd(&ctl, &mut |r| { r.slack = [0, 0]; r.freed_now.clear(); });
                }
                Op::Take => {
                    let got = sh.mail.lock().unwrap_or_else(|e| e.into_inner()).pop();
                    if let Some((tok, inf)) = got {
                        held.push((tok, inf));
                        let hi: Vec<TokInfo> = held.iter().map(|x| x.1).collect();
                        updg(&ctl, &mut |g| { g.th[t].held = hi.clone(); g.mail.pop(); });
                    }
                    upd(&ctl, &mut |r| { r.slack = [0, 0]; r.freed_now.clear(); });
                }
                Op::ClearStats => {
                    updg(&ctl, &mut |g| { g.stats_cleared = true; g.th[t].freed_now.clear(); });
                    let _ = sh.tm.clear_all_stats();
                }
                Op::Retire | Op::RetireN => {
                    let age = vm.current_version();
                    let mut l = sh.lazy.lock().unwrap_or_else(|e| e.into_inner());
                    for _ in 0..(if op == Op::RetireN { 40 } else { 1 }) { l.push(LazyFreeItem::new(age, 0, 0)); }
                    upd(&ctl, &mut |r| { r.freed_now.clear(); });
                }
                Op::Reclaim | Op::ReclaimBulk => {
                    let m = vm.min_version();
                    let mut freed: Vec<u64> = vec![];
                    {
                        let mut l = sh.lazy.lock().unwrap_or_else(|e| e.into_inner());
                        if op == Op::Reclaim || l.should_bulk_process() { l.process_safe_items(m, |it| freed.push(it.age)); }
                    }
                    upd(&ctl, &mut |r| {
                        r.results.push(1000 + freed.len() as i128);
                        for a in &freed { r.results.push(*a as i128); }
                        r.freed_now = freed.clone();
                    });
                }
            }
        });
        if let Err(p) = r {
            // (what the thread still holds is released below, outside the schedule)
            upd(&ctl, &mut |r| { r.panic = Some(p.clone()); r.held.clear(); r.slack = [0, 0]; });
            break;
        }
        if pc < prog.len() { pc += 1; }
    }
    // (after a panic whatever is still owned is released outside the schedule)
    TID.with(|c| c.set(None));
    drop(held);
    arrive(&ctl, t, None);
}

/// Runs `progs` on real threads against a fresh TokenManager of `level` under the chooser's schedule.
/// Returns what the code showed and what the oracle says.
fn run_conc(level: u8, progs: &[Vec<Op>], chooser: Chooser, bulk: Option<u64>) -> RunOut {
    let n = progs.len();
    // `bulk`: the bulk threshold of the shared LazyFreeList (None: `LazyFreeList::new()`, i.e. BULK_FREE_NUM)
    let lazy = match bulk { None => LazyFreeList::new(), Some(b) => LazyFreeList::with_bulk_threshold(b.min(usize::MAX as u64) as usize) };
    let sh = Arc::new(Shared { tm: Arc::new(TokenManager::new(level_of(level))), lazy: Mutex::new(lazy), mail: Mutex::new(vec![]) });
    let vm = sh.tm.version_manager().clone();
    let ctl = Arc::new(Ctl {
        m: Mutex::new(RunState {
            level, th: (0..n).map(|_| ThRec::default()).collect(), handles: vec![None; n], turn: None, started: 0, go: false,
            last: None, chooser, out: RunOut::default(), done: false, stuck: false, abort: false, progress: 0, vm: vm.clone(),
            mail: vec![], stats_cleared: false,
        }),
        cv: Condvar::new(),
    });
    *CURRENT.lock().unwrap_or_else(|e| e.into_inner()) = Some(ctl.clone());
    verif_sched::set_sched_hook(Some(Arc::new(hook)));
    let dangling0 = verif_sched::dangling_releases();
    let mut handles = vec![];
    for t in 0..n {
        let (c, s, p) = (ctl.clone(), sh.clone(), progs[t].clone());
        handles.push(std::thread::spawn(move || runner(t, c, s, p)));
    }
    let mut hung = false;
    {
        // wait for every thread to reach its first point, then hand out the baton
        let mut g = ctl.m.lock().unwrap_or_else(|e| e.into_inner());
        let start = Instant::now();
        while g.started < n {
            let (g2, _) = ctl.cv.wait_timeout(g, Duration::from_millis(500)).unwrap_or_else(|e| e.into_inner());
            g = g2;
            if start.elapsed() > Duration::from_secs(60) { hung = true; break; }
        }
        if !hung {
            g.go = true;
            match g.schedule_next() {
                Some(t) => {
                    g.turn = Some(t);
                    let h = g.handles[t].clone();
                    drop(g);
                    if let Some(h) = h { h.unpark(); }
                }
                None => { g.done = true; }
            }
        }
    }
    if !hung {
        let mut g = ctl.m.lock().unwrap_or_else(|e| e.into_inner());
        let mut seen = g.progress;
        let mut since = Instant::now();
        while !g.done {
            let (g2, _) = ctl.cv.wait_timeout(g, Duration::from_millis(500)).unwrap_or_else(|e| e.into_inner());
            g = g2;
            if g.progress != seen { seen = g.progress; since = Instant::now(); }
            else if since.elapsed() > Duration::from_secs(30) {
                let who = g.last;
                g.out.failures.push(format!("thread {:?} did not reach its next schedule point within 30 s (blocked outside the modelled points)", who));
                hung = true;
                break;
            }
        }
        if g.stuck { hung = true; }
    }
    let mut out;
    if hung {
        // abandon the threads: they stay parked for ever
        let mut g = ctl.m.lock().unwrap_or_else(|e| e.into_inner());
        g.abort = true;
        out = std::mem::take(&mut g.out);
        out.results = g.th.iter().map(|r| r.results.clone()).collect();
        drop(g);
        if out.failures.is_empty() { out.failures.push("threads did not start".into()); }
    } else {
        for h in handles { let _ = h.join(); }
        // tokens nobody took out of the mailbox are released here (this thread is not scheduled: the hook ignores it)
        let left: Vec<(Tok, TokInfo)> = std::mem::take(&mut *sh.mail.lock().unwrap_or_else(|e| e.into_inner()));
        drop(left);
        let mut g = ctl.m.lock().unwrap_or_else(|e| e.into_inner());
        out = std::mem::take(&mut g.out);
        out.results = g.th.iter().map(|r| r.results.clone()).collect();
        let clean = g.th.iter().all(|r| r.panic.is_none());
        if clean && (vm.active_readers() != 0 || vm.active_writers() != 0) {
            out.failures.push(format!("(iii) at quiescence active_readers = {}, active_writers = {}", vm.active_readers(), vm.active_writers()));
        }
        // the same numbers as reported by the statistics (acquired - released), unless the run cleared them on the way
        if clean && !g.stats_cleared {
            if let Ok(st) = vm.stats() {
                if st.active_readers() != 0 || st.active_writers() != 0 {
                    out.failures.push(format!("(iii) at quiescence stats() reports {} active readers, {} active writers", st.active_readers(), st.active_writers()));
                }
            }
        }
    }
    if verif_sched::dangling_releases() != dangling0 {
        out.failures.push("(iv) a token release was aimed at a destroyed manager".into());
    }
    verif_sched::set_sched_hook(None);
    *CURRENT.lock().unwrap_or_else(|e| e.into_inner()) = None;
    out.failures.dedup();
    out
}

// ------------------------------------------------------------------------------------------------
// cases
// ------------------------------------------------------------------------------------------------
fn conc_is_ext(progs: &[Vec<Op>], bulk: Option<u64>) -> bool { bulk.is_some() || progs.iter().flatten().any(|o| o.is_ext()) }
fn conc_case_json(level: u8, progs: &[Vec<Op>], sched: &[usize], bulk: Option<u64>) -> Value {
    let mut ops = vec![];
    for (t, p) in progs.iter().enumerate() {
        for o in p { ops.push(json!([t, o.name(), o.arg()])); }
    }
    let cell = format!("{}/L{}", if conc_is_ext(progs, bulk) { "concx" } else { "conc" }, level);
    let mut c = json!({"cell": cell, "level": level, "threads": progs.len(), "ops": ops, "sched": sched});
    if let Some(b) = bulk { c["bulk"] = json!(b); }
    c
}

fn coq_conc(level: u8, progs: &[Vec<Op>], o: &RunOut, bulk: Option<u64>) -> String {
    let ps: Vec<String> = progs.iter().map(|p| format!("[{}]", p.iter().map(|x| x.coq()).collect::<Vec<_>>().join("; "))).collect();
    let sched: Vec<String> = o.sched.iter().map(|t| format!("{}%nat", t)).collect();
    let tr: Vec<String> = o.trace.iter().map(|x| format!("({}, {}, {}, {}, {})", x.0, x.1, x.2, x.3, x.4)).collect();
    let rs: Vec<String> = o.results.iter().map(|r| coq_z_list(r.iter().cloned())).collect();
    // the bulk threshold of the shared LazyFreeList is a part of the case (LazyFreeList::new(): BULK_FREE_NUM = 32)
    format!("CConc ({}%N, {}%N, [{}], [{}], [{}]%N, [{}])", level, bulk.unwrap_or(LazyFreeList::BULK_FREE_NUM as u64), ps.join("; "), sched.join("; "), tr.join("; "), rs.join("; "))
}

struct Ctx {
    sum: Summary,
    shards: CoqShards,
    coq_budget: usize,
    rng: Rng,
    runs: u64,
    lazy_seen: u64,
    lazy_all: bool,
}

impl Ctx {
    /// One controlled run; bookkeeping, oracle verdict, optional emission to Coq.
    fn conc(&mut self, level: u8, progs: &[Vec<Op>], chooser: Chooser, to_coq: bool) -> RunOut { self.concx(level, progs, chooser, to_coq, None) }

    /// `bulk`: threshold of the shared LazyFreeList.  Programs with operations the Coq model does not know (or a non-default
    /// list) are judged by the oracle alone and counted in the cell `concx/L<level>`.
    fn concx(&mut self, level: u8, progs: &[Vec<Op>], chooser: Chooser, to_coq: bool, bulk: Option<u64>) -> RunOut {
        let o = run_conc(level, progs, chooser, bulk);
        self.runs += 1;
        let ext = conc_is_ext(progs, bulk);
        let cell = format!("{}/L{}", if ext { "concx" } else { "conc" }, level);
        let cj = conc_case_json(level, progs, &o.sched, bulk);
        let switches = o.sched.windows(2).filter(|w| w[0] != w[1]).count();
        self.sum.eval(&cell, &cj.to_string(), switches >= 2 && level >= 1);
        self.sum.dist_max("max_steps_in_a_run", o.steps as u64);
        self.sum.dist_max("max_context_switches_in_a_run", switches as u64);
        if o.max_writers >= 1 { self.sum.dist("runs_with_a_writer_token_held"); }
        if o.results.iter().any(|r| r.contains(&-1)) { self.sum.dist("runs_with_a_refused_writer"); }
        if o.results.iter().flatten().any(|&x| x > 1000 && x < 2000) { self.sum.dist("runs_where_reclaim_freed_items"); }
        for f in &o.failures {
            self.sum.fail(&cell, None, cj.clone(), f);
        }
        if (to_coq || !o.failures.is_empty()) && self.shards.len() < self.coq_budget && !o.failures.iter().any(|f| f.contains("deadlock") || f.contains("did not") || f.contains("panic")) {
            let mut c = cj.clone();
            c["impl_trace"] = json!(o.trace.iter().map(|x| vec![x.0 as u64, x.1, x.2, x.3, x.4]).collect::<Vec<_>>());
            c["impl_results"] = json!(o.results.iter().map(|r| r.iter().map(|x| x.to_string()).collect::<Vec<_>>()).collect::<Vec<_>>());
            if ext { self.sum.dist("concx_runs_replayed_by_the_model"); }
            self.shards.push(coq_conc(level, progs, &o, bulk), c);
        }
        o
    }

    /// All schedules of `progs` with at most `max_pre` pre-emptions (None = all), up to `budget` runs.
    fn explore(&mut self, level: u8, progs: &[Vec<Op>], max_pre: Option<usize>, budget: usize, coq_every: usize) -> usize { self.explorex(level, progs, max_pre, budget, coq_every, None) }
    fn explorex(&mut self, level: u8, progs: &[Vec<Op>], max_pre: Option<usize>, budget: usize, coq_every: usize, bulk: Option<u64>) -> usize {
        let mut stack: Vec<Vec<usize>> = vec![vec![]];
        let mut runs = 0usize;
        while let Some(prefix) = stack.pop() {
            if runs >= budget { self.sum.dist("explorations_cut_by_budget"); break; }
            let pl = prefix.len();
            let o = self.concx(level, progs, Chooser::Prefix(prefix), coq_every > 0 && runs % coq_every == 0, bulk);
            runs += 1;
            // pre-emptions along the executed schedule
            let mut pre = vec![0usize; o.sched.len() + 1];
            for j in 0..o.sched.len() {
                let p = if j > 0 && o.sched[j] != o.sched[j - 1] && o.enabled[j].contains(&o.sched[j - 1]) { 1 } else { 0 };
                pre[j + 1] = pre[j] + p;
            }
            for i in pl..o.sched.len() {
                for &a in &o.enabled[i] {
                    if a == o.sched[i] { continue; }
                    let extra = if i > 0 && a != o.sched[i - 1] && o.enabled[i].contains(&o.sched[i - 1]) { 1 } else { 0 };
                    if let Some(mp) = max_pre { if pre[i] + extra > mp { continue; } }
                    let mut p = o.sched[..i].to_vec();
                    p.push(a);
                    stack.push(p);
                }
            }
        }
        runs
    }
}

fn parse_ops(c: &Value, threads: usize) -> Vec<Vec<Op>> {
    let mut progs = vec![vec![]; threads];
    if let Some(a) = c["ops"].as_array() {
        for e in a {
            let t = e[0].as_u64().unwrap_or(0) as usize;
            let name = e[1].as_str().unwrap_or("");
            let arg = e[2].as_u64().unwrap_or(0) as usize;
            if let (true, Some(op)) = (t < threads, Op::parse(name, arg)) { progs[t].push(op); }
        }
    }
    progs
}

fn replay_conc(cx: &mut Ctx, c: &Value) {
    let level = c["level"].as_u64().unwrap_or(3) as u8;
    let threads = (c["threads"].as_u64().unwrap_or(2) as usize).clamp(1, 4);
    let progs = parse_ops(c, threads);
    let sched: Vec<usize> = c["sched"].as_array().map(|a| a.iter().map(|x| x.as_u64().unwrap_or(0) as usize).collect()).unwrap_or_default();
    // follow the recorded schedule where it is still executable (a shrunk case may skip entries)
    cx.concx(level, &progs, Chooser::Replay(sched, 0), true, c["bulk"].as_u64());
}

// ------------------------------------------------------------------------------------------------
// sequential histories over several managers
// ------------------------------------------------------------------------------------------------
#[derive(Clone, Copy, PartialEq, Debug)]
enum SOp { NewTm(u8), NewVm(u8), AcqR(usize), AcqW(usize), TmAcqR(usize), TmAcqW(usize), Ret(usize, usize), Drop(usize), Clear, DropMgr(usize),
    // ---- oracle breadth: entry points the Coq model does not know (a history containing one of them is judged by the oracle only)
    /// `TokenManager::with_version_manager(the VersionManager of manager m)`: a second door to the same counters
    NewTmShared(usize),
    /// `with_reader_token` (kind 0) / `with_writer_token` (kind 1) on manager m; variant 0: the closure succeeds, 1: it returns an error,
    /// 2: it asks the same manager for a writer token while it runs, 3: it panics, 4: through `TokenAccess::{read,write}_with_manager`,
    /// 5: it runs a nested `with_reader_token`
    With(usize, u8, u8),
    /// `TokenManager::clear_all_stats` / `VersionManager::clear_stats` (housekeeping; must not touch the live state)
    ClearStats(usize),
    /// the held token i is lent to `CompressedSparseTrie::{insert,contains,lookup}_with_token`
    Use(usize),
    /// a `TokenCache` owned by the history (not the thread-local one): `cache_*_token(held i)`, `get_*_token()`, `get_*_token_for(manager)`, `clear`
    OcPut(usize), OcGet(u8), OcGetFor(u8, usize), OcClear,
    /// the held token i is moved to another thread, which drops it (mode 0) or returns it to ITS thread cache and exits (mode 1)
    Send(usize, u8),
}
impl SOp {
    fn is_ext(&self) -> bool {
        matches!(self, SOp::NewTmShared(_) | SOp::With(..) | SOp::ClearStats(_) | SOp::Use(_) | SOp::OcPut(_) | SOp::OcGet(_) | SOp::OcGetFor(..) | SOp::OcClear | SOp::Send(..))
    }
    fn json(&self) -> Value {
        match *self {
            SOp::NewTmShared(m) => json!(["NewTmShared", m, 0]), SOp::With(m, k, v) => json!(["With", m, k * 10 + v]),
            SOp::ClearStats(m) => json!(["ClearStats", m, 0]), SOp::Use(i) => json!(["Use", i, 0]),
            SOp::OcPut(i) => json!(["OcPut", i, 0]), SOp::OcGet(k) => json!(["OcGet", k, 0]), SOp::OcGetFor(k, m) => json!(["OcGetFor", k, m]),
            SOp::OcClear => json!(["OcClear", 0, 0]), SOp::Send(i, md) => json!(["Send", i, md]),
            SOp::NewTm(l) => json!(["NewTm", l, 0]), SOp::NewVm(l) => json!(["NewVm", l, 0]),
            SOp::AcqR(m) => json!(["AcqR", m, 0]), SOp::AcqW(m) => json!(["AcqW", m, 0]),
            SOp::TmAcqR(m) => json!(["TmAcqR", m, 0]), SOp::TmAcqW(m) => json!(["TmAcqW", m, 0]),
            SOp::Ret(i, m) => json!(["Ret", i, m]), SOp::Drop(i) => json!(["Drop", i, 0]),
            SOp::Clear => json!(["Clear", 0, 0]), SOp::DropMgr(m) => json!(["DropMgr", m, 0]),
        }
    }
    fn parse(e: &Value) -> Option<SOp> {
        let a = e[1].as_u64().unwrap_or(0) as usize;
        let b = e[2].as_u64().unwrap_or(0) as usize;
        Some(match e[0].as_str()? {
            "NewTm" => SOp::NewTm(a as u8), "NewVm" => SOp::NewVm(a as u8),
            "AcqR" => SOp::AcqR(a), "AcqW" => SOp::AcqW(a), "TmAcqR" => SOp::TmAcqR(a), "TmAcqW" => SOp::TmAcqW(a),
            "Ret" => SOp::Ret(a, b), "Drop" => SOp::Drop(a), "Clear" => SOp::Clear, "DropMgr" => SOp::DropMgr(a),
            "NewTmShared" => SOp::NewTmShared(a), "With" => SOp::With(a, ((b / 10) % 2) as u8, (b % 10) as u8), "ClearStats" => SOp::ClearStats(a),
            "Use" => SOp::Use(a), "OcPut" => SOp::OcPut(a), "OcGet" => SOp::OcGet((a % 2) as u8), "OcGetFor" => SOp::OcGetFor((a % 2) as u8, b),
            "OcClear" => SOp::OcClear, "Send" => SOp::Send(a, (b % 2) as u8),
            _ => return None,
        })
    }
    fn coq(&self) -> String {
        match *self {
            SOp::NewTm(l) => format!("SNew true {}", l), SOp::NewVm(l) => format!("SNew false {}", l),
            SOp::AcqR(m) => format!("SAcq false KR {}%nat", m), SOp::AcqW(m) => format!("SAcq false KW {}%nat", m),
            SOp::TmAcqR(m) => format!("SAcq true KR {}%nat", m), SOp::TmAcqW(m) => format!("SAcq true KW {}%nat", m),
            SOp::Ret(i, _) => format!("SRet {}%nat", i), SOp::Drop(i) => format!("SDrop {}%nat", i),
            SOp::Clear => "SClear".into(), SOp::DropMgr(m) => format!("SDropMgr {}%nat", m),
            _ => "SClear".into(), // never emitted: histories with oracle-only operations are not sent to the model
        }
    }
}

enum Mgr { Tm(TokenManager), Vm(Arc<VersionManager>) }
impl Mgr {
    fn vm(&self) -> &VersionManager { match self { Mgr::Tm(t) => t.version_manager(), Mgr::Vm(v) => v } }
    fn arc(&self) -> Arc<VersionManager> { match self { Mgr::Tm(t) => t.version_manager().clone(), Mgr::Vm(v) => v.clone() } }
}

struct SeqOut { failures: Vec<(Option<&'static str>, String)>, obs: Vec<Vec<i128>>, dangling_shadow: bool, cross_shadow: bool }

/// A token seen from inside a `with_*_token` closure / a `TokenAccess` implementation.
enum TokRef<'a> { R(&'a ReaderToken), W(&'a WriterToken) }
/// What the real objects show while such a token is lent to the closure.
#[derive(Clone, Copy, Debug)]
struct Inside { kind: u8, version: u64, minv: u64, hit: bool, vm_min: u64, ar: u64, aw: u64, issued: bool, valid: bool, level: ConcurrencyLevel, tok_valid: bool, acw: bool }
fn observe(tk: &TokRef, vm: &VersionManager, hit: bool) -> Inside {
    let (kind, version, minv, issued, level, tok_valid, acw) = match tk {
        TokRef::R(t) => (if t.is_readonly() { 2 } else { 0 }, t.version(), t.min_version(), t.issued_by(vm), t.concurrency_level(), t.is_valid(), false),
        TokRef::W(t) => (1u8, t.version(), t.min_version(), t.issued_by(vm), t.concurrency_level(), t.is_valid(), t.allows_concurrent_writers()),
    };
    Inside { kind, version, minv, hit, vm_min: vm.min_version(), ar: vm.active_readers(), aw: vm.active_writers(), issued,
             valid: vm.validate_token_version(version), level, tok_valid, acw }
}
fn cache_hits(tm: &TokenManager) -> u64 { let st = tm.thread_cache_stats(); st.reader_cache_hits + st.writer_cache_hits }

/// `TokenAccess` (blanket impl over `ReaderTokenAccess + WriterTokenAccess`): the object only records what it is shown.
struct Probe<'a> { vm: &'a VersionManager, helper: &'a TokenManager, hits0: u64, seen: Cell<Option<Inside>> }
impl ReaderTokenAccess for Probe<'_> {
    type ReadResult = u64;
    fn read_with_token(&self, t: &ReaderToken) -> zipora::error::Result<u64> {
        self.seen.set(Some(observe(&TokRef::R(t), self.vm, cache_hits(self.helper) > self.hits0)));
        Ok(t.version())
    }
}
impl WriterTokenAccess for Probe<'_> {
    type WriteResult = u64;
    fn write_with_token(&mut self, t: &WriterToken) -> zipora::error::Result<u64> {
        self.seen.set(Some(observe(&TokRef::W(t), self.vm, cache_hits(self.helper) > self.hits0)));
        Ok(t.version())
    }
}

const CLOSURE_PANIC: &str = "closure panics while it holds the token";

/// Runs a sequential history on a fresh thread (fresh thread-local cache).
fn run_seq(ops: &[SOp], leave: bool) -> SeqOut {
    let ops = ops.to_vec();
    let d_before = verif_sched::dangling_releases();
    let h = std::thread::spawn(move || {
        let mut out = SeqOut { failures: vec![], obs: vec![], dangling_shadow: false, cross_shadow: false };
        // the history's own TokenCache is declared first, so that with `leave` it is dropped after every manager
        let mut oc: TokenCache = TokenCache::default();
        let mut oc_cached: [Option<TokInfo>; 2] = [None, None];
        let mut mgrs: Vec<Option<Mgr>> = vec![];
        let mut levels: Vec<u8> = vec![];
        // managers built over one VersionManager (`with_version_manager`) share its counters: vmid = first manager of that state
        let mut vmid: Vec<usize> = vec![];
        let mut stats_dirty: Vec<bool> = vec![];
        let mut held: Vec<(Tok, TokInfo)> = vec![];
        let mut cached: [Option<TokInfo>; 2] = [None, None];
        let mut trie: Option<CompressedSparseTrie> = None;
        let d0 = verif_sched::dangling_releases();
        let mut seen_dangling = 0u64;
        let helper = TokenManager::new(ConcurrencyLevel::default());
        let nops = ops.len();
        // epilogue: release what is still owned, then the managers
        let mut all: Vec<Option<SOp>> = ops.iter().cloned().map(Some).collect();
        all.push(None);
        for (step, op) in all.into_iter().enumerate() {
            let mut o: Vec<i128> = vec![];
            let r = guarded(|| {
                let alive = |m: usize, mgrs: &Vec<Option<Mgr>>| -> Option<usize> {
                    if mgrs.is_empty() { return None; }
                    let m = m % mgrs.len();
                    if mgrs[m].is_some() { Some(m) } else { None }
                };
                // every door to the state of the issuing manager is gone
                let gone = |issuer: usize, mgrs: &Vec<Option<Mgr>>, vmid: &Vec<usize>| -> bool {
                    !mgrs.iter().enumerate().any(|(j, x)| x.is_some() && vmid[j] == vmid[issuer])
                };
                match op {
                    Some(SOp::NewTm(l)) => {
                        mgrs.push(Some(Mgr::Tm(TokenManager::new(level_of(l))))); levels.push(l.min(4)); vmid.push(mgrs.len() - 1); stats_dirty.push(false);
                    }
                    Some(SOp::NewVm(l)) => {
                        mgrs.push(Some(Mgr::Vm(Arc::new(VersionManager::new(level_of(l)))))); levels.push(l.min(4)); vmid.push(mgrs.len() - 1); stats_dirty.push(false);
                    }
                    Some(SOp::NewTmShared(src)) => {
                        if let Some(src) = alive(src, &mgrs) {
                            let arc = mgrs[src].as_ref().unwrap().arc();
                            mgrs.push(Some(Mgr::Tm(TokenManager::with_version_manager(arc))));
                            levels.push(levels[src]); vmid.push(vmid[src]); stats_dirty.push(false);
                        }
                    }
                    Some(SOp::AcqR(m)) | Some(SOp::AcqW(m)) | Some(SOp::TmAcqR(m)) | Some(SOp::TmAcqW(m)) => {
                        if let Some(m) = alive(m, &mgrs) {
                            let w = matches!(op, Some(SOp::AcqW(_)) | Some(SOp::TmAcqW(_)));
                            let mut via = matches!(op, Some(SOp::TmAcqR(_)) | Some(SOp::TmAcqW(_)));
                            let mg = mgrs[m].as_ref().unwrap();
                            if let Mgr::Vm(_) = mg { via = false; }
                            let slot = w as usize;
                            let hits0 = cache_hits(&helper);
                            let got: Option<Tok> = match (mg, via, w) {
                                (Mgr::Tm(t), true, false) => t.acquire_reader_token().ok().map(Tok::R),
                                (Mgr::Tm(t), true, true) => t.acquire_writer_token().ok().map(Tok::W),
                                (_, _, false) => mg.vm().acquire_reader_token().ok().map(Tok::R),
                                (_, _, true) => mg.vm().acquire_writer_token().ok().map(Tok::W),
                            };
                            let hits1 = cache_hits(&helper);
                            // a cache hit hands out the cached token (whoever issued it)
                            let from_cache: Option<TokInfo> = if hits1 > hits0 { cached[slot].take() } else { None };
                            match got {
                                Some(tok) => {
                                    let mut inf = tok.info(m);
                                    if let Some(c) = from_cache {
                                        inf.issuer = c.issuer;
                                        if vmid[c.issuer] != vmid[m] { out.cross_shadow = true; }
                                    }
                                    inf.handed_by = m;
                                    // a manager that synchronises (any level but NoWriteReadOnly) counts every token it hands out and
                                    // keeps min_version at or below its version; a read-only token (no manager state, version 0, never
                                    // counted, never released) handed out by such a manager is a live token the manager cannot see
                                    if inf.kind == 2 && levels[m] != 0 {
                                        out.failures.push((None, format!("(ii)/(iii) step {}: manager {} (level {}) handed out a read-only token of version {} that it neither counts nor protects (min_version {})", step, m, levels[m], inf.version, mg.vm().min_version())));
                                    }
                                    // what the token says about itself: it is usable, and it is a token of this manager's level
                                    let (tv, tl, acw) = match &tok { Tok::R(t) => (t.is_valid(), t.concurrency_level(), false), Tok::W(t) => (t.is_valid(), t.concurrency_level(), t.allows_concurrent_writers()) };
                                    if !tv { out.failures.push((None, format!("step {}: manager {} handed out a token with is_valid() = false", step, m))); }
                                    if inf.kind < 2 && (tl != level_of(levels[m]) || acw != (levels[m] == 4 && w)) {
                                        out.failures.push((None, format!("(i) step {}: manager {} of level {} handed out a token that says level {} / allows_concurrent_writers = {}", step, m, levels[m], tl, acw)));
                                    }
                                    o.push(inf.version as i128);
                                    held.push((tok, inf));
                                }
                                None => o.push(-1),
                            }
                        }
                    }
                    Some(SOp::With(m, kind, var)) => {
                        if let Some(m) = alive(m, &mgrs) {
                            let w = kind == 1;
                            let slot = w as usize;
                            let lv = levels[m];
                            let arc = mgrs[m].as_ref().unwrap().arc();
                            // a bare VersionManager gets a TokenManager made for the occasion
                            let tmp: TokenManager;
                            let tm: &TokenManager = match mgrs[m].as_ref().unwrap() { Mgr::Tm(t) => t, Mgr::Vm(v) => { tmp = TokenManager::with_version_manager(v.clone()); &tmp } };
                            let handed_now = |k: u8, held: &Vec<(Tok, TokInfo)>| held.iter().filter(|(_, h)| h.kind == k && vmid[h.handed_by] == vmid[m]).count() as u64;
                            let hw = handed_now(1, &held);
                            let hk = handed_now(kind, &held);
                            let hits0 = cache_hits(&helper);
                            let mut seen: Option<Inside> = None;
                            let mut nested: Option<Inside> = None;
                            let r = guarded(|| -> zipora::error::Result<u64> {
                                if var == 4 {
                                    let mut p = Probe { vm: &arc, helper: &helper, hits0, seen: Cell::new(None) };
                                    let r = if w { p.write_with_manager(tm, |v| Ok(*v)) } else { p.read_with_manager(tm, |v| Ok(*v)) };
                                    seen = p.seen.take();
                                    return r;
                                }
                                let mut body = |tk: TokRef| -> zipora::error::Result<u64> {
                                    seen = Some(observe(&tk, &arc, cache_hits(&helper) > hits0));
                                    match var {
                                        1 => return Err(ZiporaError::invalid_operation("the closure reports an error")),
                                        3 => panic!("{}", CLOSURE_PANIC),
                                        2 => {
                                            let h1 = cache_hits(&helper);
                                            if let Ok(t2) = tm.acquire_writer_token() {
                                                nested = Some(observe(&TokRef::W(&t2), &arc, cache_hits(&helper) > h1));
                                                drop(t2);
                                            }
                                        }
                                        5 => {
                                            let h1 = cache_hits(&helper);
                                            let _ = with_reader_token(tm, |t2| { nested = Some(observe(&TokRef::R(t2), &arc, cache_hits(&helper) > h1)); Ok(()) });
                                        }
                                        _ => {}
                                    }
                                    Ok(match tk { TokRef::R(t) => t.version(), TokRef::W(t) => t.version() })
                                };
                                if w { with_writer_token(tm, |t| body(TokRef::W(t))) } else { with_reader_token(tm, |t| body(TokRef::R(t))) }
                            });
                            match (&r, var) {
                                (Err(p), 3) if p.as_str() == CLOSURE_PANIC => {}
                                (Err(p), _) => out.failures.push((None, format!("step {}: with_{}_token panicked: {}", step, if w { "writer" } else { "reader" }, p))),
                                _ => {}
                            }
                            let returned = matches!(r, Ok(Ok(_)));
                            match seen {
                                None => o.push(-1),
                                Some(s) => {
                                    let from_cache: Option<TokInfo> = if s.hit { cached[slot].take() } else { None };
                                    let mut inf = TokInfo { kind: s.kind, version: s.version, minv: s.minv, issuer: m, handed_by: m };
                                    if let Some(c) = from_cache { inf.issuer = c.issuer; if vmid[c.issuer] != vmid[m] { out.cross_shadow = true; } }
                                    let which = if w { "with_writer_token" } else { "with_reader_token" };
                                    if s.kind == 2 && lv != 0 {
                                        out.failures.push((None, format!("(ii)/(iii) step {}: {} on manager {} (level {}) lent a read-only token that the manager neither counts nor protects", step, which, m, lv)));
                                    }
                                    if !s.issued {
                                        out.failures.push((None, format!("(iii) step {}: {} on manager {} ran the closure with a token (version {}) that this manager did not issue", step, which, m, s.version)));
                                    }
                                    if !s.tok_valid { out.failures.push((None, format!("step {}: {} lent a token with is_valid() = false", step, which))); }
                                    if s.kind < 2 {
                                        if s.vm_min > s.version || !s.valid {
                                            out.failures.push((None, format!("(ii) step {}: inside {} the token has version {} but min_version() = {} (validate_token_version = {})", step, which, s.version, s.vm_min, s.valid)));
                                        }
                                        let c = if w { s.aw } else { s.ar };
                                        if c < hk + 1 {
                                            out.failures.push((None, format!("(iii) step {}: inside {} manager {} reports {} active {} while {} of its tokens are held and one is lent to the closure", step, which, m, c, if w { "writers" } else { "readers" }, hk)));
                                        }
                                        if s.level != level_of(lv) || s.acw != (lv == 4 && w) {
                                            out.failures.push((None, format!("(i) step {}: {} on manager {} of level {} lent a token that says level {} / allows_concurrent_writers = {}", step, which, m, lv, s.level, s.acw)));
                                        }
                                        if lv == 3 && w && hw >= 1 {
                                            out.failures.push((None, format!("(i) step {}: with_writer_token ran on OneWriteMultiRead manager {} while {} writer tokens of it are held", step, m, hw)));
                                        }
                                    }
                                    if let Some(n) = nested {
                                        if var == 2 {
                                            if n.hit { cached[1] = None; }
                                            if lv == 3 && (hw + w as u64) >= 1 {
                                                out.failures.push((None, format!("(i) step {}: inside {} OneWriteMultiRead manager {} granted a writer token (version {}) while {} writer tokens of it are live", step, which, m, n.version, hw + w as u64)));
                                            }
                                            if !n.issued { out.failures.push((None, format!("(iii) step {}: inside {} manager {} handed out a writer token it did not issue", step, which, m))); }
                                            if n.aw < hw + w as u64 + 1 {
                                                out.failures.push((None, format!("(iii) step {}: inside {} manager {} reports {} active writers with {} live writer tokens", step, which, m, n.aw, hw + w as u64 + 1)));
                                            }
                                            if n.vm_min > n.version || (s.kind < 2 && n.vm_min > s.version) {
                                                out.failures.push((None, format!("(ii) step {}: inside {} min_version() = {} with live tokens of versions {} and {}", step, which, n.vm_min, s.version, n.version)));
                                            }
                                        } else {
                                            // nested with_reader_token: its token went (back) into the reader slot
                                            if n.hit { cached[0] = None; }
                                            if !n.issued { out.failures.push((None, format!("(iii) step {}: nested with_reader_token on manager {} lent a token it did not issue", step, m))); }
                                            if n.kind < 2 && n.ar < handed_now(0, &held) + (!w) as u64 + 1 {
                                                out.failures.push((None, format!("(iii) step {}: nested with_reader_token: manager {} reports {} active readers", step, m, n.ar)));
                                            }
                                            let issuer = if n.hit { inf.issuer } else { m };
                                            cached[0] = Some(TokInfo { kind: n.kind, version: n.version, minv: n.minv, issuer, handed_by: m });
                                        }
                                    }
                                    // after a failed closure the token is released - or, for all the property cares, still cached:
                                    // then it counts as "maybe live" like every cached token
                                    if returned || cached[slot].is_none() { cached[slot] = Some(inf); }
                                    o.push(inf.version as i128);
                                }
                            }
                        }
                    }
                    Some(SOp::ClearStats(m)) => {
                        if let Some(m) = alive(m, &mgrs) {
                            let ok = match mgrs[m].as_ref().unwrap() { Mgr::Tm(t) => t.clear_all_stats().is_ok(), Mgr::Vm(v) => v.clear_stats().is_ok() };
                            if !ok { out.failures.push((None, format!("step {}: clearing the statistics of manager {} reports an error", step, m))); }
                            stats_dirty[vmid[m]] = true;
                        }
                    }
                    Some(SOp::Use(i)) => {
                        if i < held.len() {
                            if trie.is_none() { trie = CompressedSparseTrie::new(ConcurrencyLevel::OneWriteMultiRead).ok(); }
                            if let Some(tr) = trie.as_mut() {
                                let key = format!("v{}", held[i].1.version).into_bytes();
                                match &held[i].0 {
                                    Tok::W(t) => { let _ = tr.insert_with_token(&key, t); }
                                    Tok::R(t) => { let _ = tr.contains_with_token(&key, t); let _ = tr.lookup_with_token(b"v2", t); }
                                }
                            }
                        }
                    }
                    Some(SOp::OcPut(i)) => {
                        if i < held.len() {
                            let (tok, inf) = held.remove(i);
                            let slot = if inf.kind == 1 { 1 } else { 0 };
                            if let Some(old) = oc_cached[slot] { if old.kind < 2 && gone(old.issuer, &mgrs, &vmid) { out.dangling_shadow = true; } }
                            oc_cached[slot] = Some(inf);
                            match tok { Tok::R(x) => oc.cache_reader_token(x), Tok::W(x) => oc.cache_writer_token(x) }
                        }
                    }
                    Some(SOp::OcGet(k)) | Some(SOp::OcGetFor(k, _)) => {
                        let slot = (k % 2) as usize;
                        let target: Option<usize> = match op { Some(SOp::OcGetFor(_, m)) => alive(m, &mgrs), _ => None };
                        if target.is_some() || matches!(op, Some(SOp::OcGet(_))) {
                            let got: Option<Tok> = match (slot, target) {
                                (0, None) => oc.get_reader_token().map(Tok::R),
                                (_, None) => oc.get_writer_token().map(Tok::W),
                                (0, Some(m)) => oc.get_reader_token_for(mgrs[m].as_ref().unwrap().vm()).map(Tok::R),
                                (_, Some(m)) => oc.get_writer_token_for(mgrs[m].as_ref().unwrap().vm()).map(Tok::W),
                            };
                            match got {
                                Some(tok) => match oc_cached[slot].take() {
                                    Some(c) if c.version == tok.info(0).version => {
                                        let mut inf = c;
                                        if let Some(m) = target {
                                            // the filtered door: only a token of that manager (a read-only one: of any read-only manager)
                                            let own = if c.kind == 2 { levels[m] == 0 } else { vmid[c.issuer] == vmid[m] };
                                            if !own {
                                                out.failures.push((None, format!("(iii) step {}: TokenCache::get_{}_token_for(manager {}) handed out the token of version {} issued by manager {}", step, if slot == 1 { "writer" } else { "reader" }, m, c.version, c.issuer)));
                                            }
                                            inf.handed_by = m;
                                        } else {
                                            inf.handed_by = c.issuer;
                                        }
                                        o.push(inf.version as i128);
                                        held.push((tok, inf));
                                    }
                                    other => {
                                        out.failures.push((None, format!("(iii) step {}: the TokenCache handed out a token of version {} but the token cached in that slot was {:?}", step, tok.info(0).version, other)));
                                        held.push((tok, TokInfo { kind: 2, version: 0, minv: 0, issuer: 0, handed_by: 0 }));
                                    }
                                },
                                None => o.push(-1),
                            }
                        }
                    }
                    Some(SOp::OcClear) => {
                        for c in oc_cached.iter().flatten() { if c.kind < 2 && gone(c.issuer, &mgrs, &vmid) { out.dangling_shadow = true; } }
                        oc_cached = [None, None];
                        oc.clear();
                        oc.clear_stats();
                    }
                    Some(SOp::Send(i, mode)) => {
                        if i < held.len() {
                            let (tok, inf) = held.remove(i);
                            if inf.kind < 2 && gone(inf.issuer, &mgrs, &vmid) { out.dangling_shadow = true; }
                            let jh = std::thread::spawn(move || {
                                if mode == 0 { drop(tok); } else {
                                    // cached on the other thread, released by the destructor of its thread-local cache
                                    let tm = TokenManager::new(ConcurrencyLevel::MultiWriteMultiRead);
                                    match tok { Tok::R(x) => tm.return_reader_token(x), Tok::W(x) => tm.return_writer_token(x) }
                                }
                            });
                            if jh.join().is_err() { out.failures.push((None, format!("(iv) step {}: releasing a token on another thread panicked", step))); }
                        }
                    }
                    Some(SOp::Ret(i, m)) => {
                        if i < held.len() {
                            let tm: &TokenManager = match alive(m, &mgrs).and_then(|m| mgrs[m].as_ref()) { Some(Mgr::Tm(t)) => t, _ => &helper };
                            let (tok, inf) = held.remove(i);
                            let slot = if inf.kind == 1 { 1 } else { 0 };
                            if let Some(old) = cached[slot] { if old.kind < 2 && gone(old.issuer, &mgrs, &vmid) { out.dangling_shadow = true; } }
                            cached[slot] = Some(inf);
                            match tok { Tok::R(x) => tm.return_reader_token(x), Tok::W(x) => tm.return_writer_token(x) }
                        }
                    }
                    Some(SOp::Drop(i)) => {
                        if i < held.len() {
                            let (tok, inf) = held.remove(i);
                            if inf.kind < 2 && gone(inf.issuer, &mgrs, &vmid) { out.dangling_shadow = true; }
                            drop(tok);
                        }
                    }
                    Some(SOp::Clear) => {
                        for c in cached.iter().flatten() { if c.kind < 2 && gone(c.issuer, &mgrs, &vmid) { out.dangling_shadow = true; } }
                        cached = [None, None];
                        helper.clear_thread_cache();
                    }
                    Some(SOp::DropMgr(m)) => {
                        if let Some(m) = alive(m, &mgrs) { mgrs[m] = None; }
                    }
                    None => {
                        for (_, inf) in held.iter() { if inf.kind < 2 && gone(inf.issuer, &mgrs, &vmid) { out.dangling_shadow = true; } }
                        for c in cached.iter().chain(oc_cached.iter()).flatten() { if c.kind < 2 && gone(c.issuer, &mgrs, &vmid) { out.dangling_shadow = true; } }
                        held.clear();
                        if !leave {
                            cached = [None, None];
                            helper.clear_thread_cache();
                            oc_cached = [None, None];
                            oc.clear();
                        }
                    }
                }
            });
            if let Err(p) = r { out.failures.push((None, format!("panic at step {}: {}", step, p))); break; }
            // (iv)
            let d = verif_sched::dangling_releases() - d0;
            if d > seen_dangling {
                seen_dangling = d;
                out.failures.push((None, format!("(iv) step {}: a token was released after the manager that issued it had been destroyed (the release dereferences a dangling pointer)", step)));
            }
            // (i), (iii) per live manager, at this operation boundary
            for (m, mg) in mgrs.iter().enumerate() {
                let mg = match mg { Some(x) => x, None => { o.push(-2); continue; } };
                let vm = mg.vm();
                let (cur, min, ar, aw) = (vm.current_version(), vm.min_version(), vm.active_readers(), vm.active_writers());
                o.extend_from_slice(&[cur as i128, min as i128, ar as i128, aw as i128]);
                let mut handed = [0u64; 2];
                let mut maybe = [0u64; 2];
                let mut foreign = [0u64; 2];   // issued by this state, handed out by another manager
                for (tok, h) in held.iter() {
                    let mine = vmid[h.issuer] == vmid[m];
                    if vmid[h.handed_by] == vmid[m] && h.kind < 2 {
                        handed[h.kind as usize] += 1;
                        if mine && min > h.version {
                            out.failures.push((None, format!("(ii) step {}: manager {} min_version {} exceeds held version {}", step, m, min, h.version)));
                        }
                    } else if mine && h.kind < 2 {
                        foreign[h.kind as usize] += 1;
                    }
                    // what the token and the manager say about each other
                    let says = match tok { Tok::R(t) => t.issued_by(vm), Tok::W(t) => t.issued_by(vm) };
                    let expect = if h.kind == 2 { levels[m] == 0 } else { mine };
                    if says != expect {
                        out.failures.push((None, format!("(iii) step {}: the held token of version {} issued by manager {} answers issued_by(manager {}) = {}", step, h.version, h.issuer, m, says)));
                    }
                    if mine && h.kind < 2 && !vm.validate_token_version(h.version) {
                        out.failures.push((None, format!("(ii) step {}: manager {} does not validate version {} of a live token it issued (min_version {}, current_version {})", step, m, h.version, min, cur)));
                    }
                }
                for c in cached.iter().chain(oc_cached.iter()).flatten() { if c.kind < 2 { maybe[c.kind as usize] += 1; } }
                let cls: Option<&'static str> = None;
                if levels[m] == 3 && handed[1] > 1 {
                    out.failures.push((cls, format!("(i) step {}: manager {} (OneWriteMultiRead) has handed out {} writer tokens that are all still held", step, m, handed[1])));
                }
                for (k, name, c) in [(0usize, "active_readers", ar), (1usize, "active_writers", aw)] {
                    if c < handed[k] || c > handed[k] + maybe[k] + foreign[k] {
                        out.failures.push((cls, format!("(iii) step {}: manager {} reports {} = {} but {} tokens handed out by it are held (at most {} more cached)", step, m, name, c, handed[k], maybe[k])));
                    }
                }
                // the second report of the same numbers: VersionManagerStats::active_readers / active_writers (acquired - released)
                if !stats_dirty[vmid[m]] {
                    match vm.stats() {
                        Ok(s) => if s.active_readers() != ar as i64 || s.active_writers() != aw as i64 {
                            out.failures.push((None, format!("(iii) step {}: manager {}: stats() reports {} active readers / {} active writers, the manager {} / {}", step, m, s.active_readers(), s.active_writers(), ar, aw)));
                        },
                        Err(_) => out.failures.push((None, format!("step {}: manager {}: stats() reports an error", step, m))),
                    }
                }
                if let Mgr::Tm(t) = mg {
                    if t.concurrency_level() != level_of(levels[m]) || vm.concurrency_level() != level_of(levels[m]) {
                        out.failures.push((None, format!("step {}: manager {} was made with level {} and says {}", step, m, levels[m], t.concurrency_level())));
                    }
                }
                if step == nops && !leave && (ar != 0 || aw != 0) {
                    out.failures.push((None, format!("(iii) manager {} at quiescence: active_readers = {}, active_writers = {}", m, ar, aw)));
                }
            }
            out.obs.push(o);
            if out.failures.len() > 6 { break; }
        }
        drop(held);
        if !leave { helper.clear_thread_cache(); oc.clear(); }
        drop(trie);
        drop(mgrs);
        // with `leave`, tokens still in the thread-local cache are released by its destructor at thread
        // exit, after every manager of the history is gone; the history's own cache goes just before
        drop(oc);
        if verif_sched::dangling_releases() - d0 > seen_dangling {
            out.failures.push((None, "(iv) a token still cached (TokenCache of the history) or held at the end was released after the manager that issued it had been destroyed".into()));
        }
        (out, verif_sched::dangling_releases())
    });
    match h.join() {
        Ok((mut o, d_in)) => {
            if verif_sched::dangling_releases() != d_in {
                o.failures.push((None, "(iv) at thread exit a cached token was released after the manager that issued it had been destroyed".into()));
            }
            let _ = d_before;
            o
        }
        Err(_) => SeqOut { failures: vec![(None, "history thread panicked".into())], obs: vec![], dangling_shadow: false, cross_shadow: false },
    }
}

fn seq_case_json(ops: &[SOp], leave: bool) -> Value {
    let cell = if ops.iter().any(|o| o.is_ext()) { "seqx" } else { "seq" };
    json!({"cell": cell, "leave": leave, "ops": ops.iter().map(|o| o.json()).collect::<Vec<_>>()})
}

impl Ctx {
    fn seq(&mut self, ops: &[SOp], leave: bool, to_coq: bool) {
        let o = run_seq(ops, leave);
        let cj = seq_case_json(ops, leave);
        // a history with an operation the Coq model does not know is judged by the oracle alone (cell `seqx`)
        let ext = ops.iter().any(|x| x.is_ext());
        let cell = if ext { "seqx" } else { "seq" };
        let to_coq = to_coq && !ext;
        if leave { self.sum.dist("seq_histories_leaving_tokens_to_the_thread_exit_destructor"); }
        let nm = ops.iter().filter(|x| matches!(x, SOp::NewTm(_) | SOp::NewVm(_) | SOp::NewTmShared(_))).count();
        self.sum.eval(cell, &cj.to_string(), nm >= 2 && ops.len() >= 5);
        if ext { for x in ops { if x.is_ext() { self.sum.dist(&format!("seqx_op_{}", x.json()[0].as_str().unwrap_or("?"))); } } }
        if o.dangling_shadow { self.sum.dist("seq_histories_releasing_after_manager_drop"); }
        if o.cross_shadow { self.sum.dist("seq_histories_with_cache_hit_across_managers"); }
        for (cls, f) in &o.failures {
            self.sum.fail(cell, *cls, cj.clone(), f);
        }
        if !ext && (to_coq || !o.failures.is_empty()) && self.shards.len() < self.coq_budget && !o.failures.iter().any(|f| f.1.contains("panic")) {
            let mut c = cj.clone();
            c["impl_obs"] = json!(o.obs.iter().map(|r| r.iter().map(|x| x.to_string()).collect::<Vec<_>>()).collect::<Vec<_>>());
            let term = format!("CSeq ({}, [{}], [{}])", coq_bool(leave),
                ops.iter().map(|x| x.coq()).collect::<Vec<_>>().join("; "),
                o.obs.iter().map(|r| coq_z_list(r.iter().cloned())).collect::<Vec<_>>().join("; "));
            self.shards.push(term, c);
        }
    }
}

fn rand_seq(r: &mut Rng) -> Vec<SOp> {
    let mut ops = vec![];
    let nm = r.range(1, 3) as usize;
    let lv = |r: &mut Rng| *r.pick(&[3u8, 3, 4, 2, 1, 0]);
    ops.push(if r.chance(3, 4) { SOp::NewTm(lv(r)) } else { SOp::NewVm(lv(r)) });
    let n = r.range(3, 12);
    let mut made = 1;
    for _ in 0..n {
        let m = r.below(made as u64) as usize;
        let op = match r.below(14) {
            0 | 1 => SOp::TmAcqR(m), 2 | 3 => SOp::TmAcqW(m), 4 => SOp::AcqR(m), 5 => SOp::AcqW(m),
            6 | 7 => SOp::Ret(r.below(3) as usize, m), 8 | 9 => SOp::Drop(r.below(3) as usize),
            10 => SOp::Clear,
            11 => SOp::DropMgr(m),
            _ => if made < nm { made += 1; if r.chance(3, 4) { SOp::NewTm(lv(r)) } else { SOp::NewVm(lv(r)) } } else { SOp::TmAcqW(m) },
        };
        ops.push(op);
    }
    ops
}


/// Random sequential history over the whole operation set (model operations and oracle-only ones mixed), 1-4 managers some of
/// which share one VersionManager.
fn rand_seq_ext(r: &mut Rng) -> Vec<SOp> {
    let mut ops = vec![];
    let nm = r.range(1, 4) as usize;
    let lv = |r: &mut Rng| *r.pick(&[3u8, 3, 3, 4, 4, 2, 1, 0]);
    ops.push(if r.chance(3, 4) { SOp::NewTm(lv(r)) } else { SOp::NewVm(lv(r)) });
    let n = r.range(4, 16);
    let mut made = 1;
    for _ in 0..n {
        let m = r.below(made as u64) as usize;
        let i = r.below(3) as usize;
        let op = match r.below(30) {
            0 | 1 => SOp::TmAcqR(m), 2 | 3 => SOp::TmAcqW(m), 4 => SOp::AcqR(m), 5 => SOp::AcqW(m),
            6 | 7 => SOp::Ret(i, m), 8 | 9 => SOp::Drop(i),
            10 => SOp::Clear,
            11 => SOp::DropMgr(m),
            12 | 13 => if made < nm {
                made += 1;
                match r.below(4) { 0 | 1 => SOp::NewTmShared(m), 2 => SOp::NewTm(lv(r)), _ => SOp::NewVm(lv(r)) }
            } else { SOp::With(m, 1, 0) },
            14 | 15 | 16 | 17 | 18 => SOp::With(m, r.below(2) as u8, *r.pick(&[0u8, 0, 1, 2, 2, 3, 4, 5])),
            19 => SOp::ClearStats(m),
            20 => SOp::Use(i),
            21 | 22 => SOp::OcPut(i),
            23 => SOp::OcGet(r.below(2) as u8),
            24 | 25 => SOp::OcGetFor(r.below(2) as u8, m),
            26 => SOp::OcClear,
            27 | 28 => SOp::Send(i, r.below(2) as u8),
            _ => SOp::TmAcqW(m),
        };
        ops.push(op);
    }
    ops
}

/// Deterministic small family: three doors (manager 0, a second TokenManager over manager 0's VersionManager, an unrelated
/// manager 2), every history of length `len` over an alphabet that mixes the model operations with the oracle-only ones.
fn staged_seqx(cx: &mut Ctx, thorough: bool) {
    let alphabet = [
        SOp::TmAcqW(0), SOp::TmAcqW(1), SOp::TmAcqR(1), SOp::AcqW(2),
        SOp::With(0, 1, 0), SOp::With(1, 1, 2), SOp::With(1, 0, 5), SOp::With(2, 1, 1), SOp::With(0, 0, 3), SOp::With(1, 1, 4),
        SOp::Ret(0, 1), SOp::Drop(0), SOp::Clear,
        SOp::OcPut(0), SOp::OcGetFor(1, 2), SOp::OcGetFor(1, 1), SOp::OcGet(0),
        SOp::Send(0, 1), SOp::ClearStats(1), SOp::DropMgr(0),
    ];
    let pairs: &[(u8, u8)] = if thorough { &[(3, 3), (4, 3), (3, 0), (2, 4), (1, 3), (0, 3), (3, 4)] } else { &[(3, 3), (4, 3), (3, 0), (2, 4)] };
    let len = 3usize;
    let total = alphabet.len().pow(len as u32);
    let mut n = 0u64;
    for (pi, &(l1, l2)) in pairs.iter().enumerate() {
        for code in 0..total {
            // quick: the (3,3) pair in full, a third of the others
            if !thorough && pi > 0 && code % 3 != pi % 3 { continue; }
            let mut ops = vec![SOp::NewTm(l1), SOp::NewTmShared(0), SOp::NewTm(l2)];
            let mut c = code;
            for _ in 0..len { ops.push(alphabet[c % alphabet.len()]); c /= alphabet.len(); }
            cx.seq(&ops, code % 3 == 0, false);
            n += 1;
        }
    }
    cx.sum.dist_max("enumerated_seqx_histories", n);
}

/// Programs with the oracle-only operations for the schedule enumeration.
fn fixed_programs_ext() -> Vec<(&'static str, Vec<Vec<Op>>, Option<usize>, Option<u64>, &'static [u8])> {
    use Op::*;
    vec![
        // with_*_token = acquire through the cache + return to the cache, racing with itself and with plain acquisitions
        ("withw|withw", vec![vec![WithW], vec![WithW]], Some(2), None, &[3, 4, 2, 1, 0]),
        ("withw withw|w d", vec![vec![WithW, WithW], vec![AcqW, Drop(0)]], Some(2), None, &[3, 4]),
        ("withr withw|withr|r d", vec![vec![WithR, WithW], vec![WithR], vec![AcqR, Drop(0)]], Some(1), None, &[3, 4, 2]),
        // tokens released by another thread than the one that acquired them
        ("r give|take d|r d", vec![vec![AcqR, Give(0)], vec![Take, Drop(0)], vec![AcqR, Drop(0)]], Some(2), None, &[3, 4, 2, 1]),
        ("w give w|take ret tmw d", vec![vec![AcqW, Give(0), AcqW], vec![Take, Ret(0), TmAcqW, Drop(0)]], Some(2), None, &[3, 4]),
        // queues beyond one and two bulk thresholds, reclaimed while a reader is live
        ("w retN retN d bulk rec|r rec bulk d", vec![vec![AcqW, RetireN, RetireN, Drop(0), ReclaimBulk, Reclaim], vec![AcqR, Reclaim, ReclaimBulk, Drop(0)]], Some(2), None, &[3, 4, 2]),
        ("w retN d rec|r retN rec d (threshold 0)", vec![vec![AcqW, RetireN, Drop(0), Reclaim], vec![AcqR, RetireN, ReclaimBulk, Drop(0)]], Some(1), Some(0), &[3, 4]),
        ("w retN retN d rec|r rec d (unlimited)", vec![vec![AcqW, RetireN, RetireN, Drop(0), Reclaim], vec![AcqR, Reclaim, ReclaimBulk, Drop(0)]], Some(1), Some(u64::MAX), &[3, 4]),
        // housekeeping in the middle of the traffic
        ("r clr d|w clr d", vec![vec![AcqR, ClearStats, Drop(0)], vec![AcqW, ClearStats, Drop(0)]], Some(1), None, &[3, 4, 1]),
    ]
}

fn rand_prog_ext(r: &mut Rng, len: usize) -> Vec<Op> {
    let mut p = vec![];
    let mut holding = 0usize;
    for _ in 0..len {
        let op = match r.below(20) {
            0 => { holding += 1; Op::AcqR }
            1 => { holding += 1; Op::AcqW }
            2 => { holding += 1; Op::TmAcqR }
            3 => { holding += 1; Op::TmAcqW }
            4 | 5 => if holding > 0 { holding -= 1; Op::Drop(r.below(holding as u64 + 1) as usize) } else { Op::WithR },
            6 => if holding > 0 { holding -= 1; Op::Ret(r.below(holding as u64 + 1) as usize) } else { Op::Clear },
            7 | 8 => Op::WithR,
            9 | 10 => Op::WithW,
            11 | 12 => if holding > 0 { holding -= 1; Op::Give(r.below(holding as u64 + 1) as usize) } else { holding += 1; Op::AcqR },
            13 | 14 => { holding += 1; Op::Take }
            15 => Op::RetireN,
            16 => Op::ReclaimBulk,
            17 => Op::Reclaim,
            18 => Op::ClearStats,
            _ => Op::Retire,
        };
        p.push(op);
    }
    p
}

// ------------------------------------------------------------------------------------------------
// generators for the concurrent cell
// ------------------------------------------------------------------------------------------------
fn fixed_programs() -> Vec<(&'static str, Vec<Vec<Op>>, Option<usize>)> {
    use Op::*;
    vec![
        // two writers race for admission: every interleaving
        ("w|w", vec![vec![AcqW], vec![AcqW]], None),
        ("r|w", vec![vec![AcqR], vec![AcqW]], None),
        ("wd|wd", vec![vec![AcqW, Drop(0)], vec![AcqW, Drop(0)]], Some(2)),
        // a release racing with acquisitions: min_version must not overtake
        ("rrdd|rd", vec![vec![AcqR, AcqR, Drop(0), Drop(0)], vec![AcqR, Drop(0)]], Some(2)),
        ("rd|rr", vec![vec![AcqR, Drop(0)], vec![AcqR, AcqR]], Some(3)),
        ("rd|wd", vec![vec![AcqR, Drop(0)], vec![AcqW, Drop(0)]], Some(2)),
        ("rd|rd|rd", vec![vec![AcqR, Drop(0)], vec![AcqR, Drop(0)], vec![AcqR, Drop(0)]], Some(2)),
        ("w|w|w", vec![vec![AcqW], vec![AcqW], vec![AcqW]], Some(2)),
        // retire / reclaim against a reader
        ("w ret d rec|rd", vec![vec![AcqW, Retire, Drop(0), Reclaim], vec![AcqR, Reclaim, Drop(0)]], Some(2)),
        ("rd retire reclaim|r r", vec![vec![AcqR, Drop(0), Retire, Reclaim], vec![AcqR, AcqR]], Some(2)),
        // thread cache
        ("tm w ret w|tm w d", vec![vec![TmAcqW, Ret(0), TmAcqW, Ret(0), Clear], vec![TmAcqW, Drop(0)]], Some(2)),
        ("tm r ret r ret|r d", vec![vec![TmAcqR, Ret(0), AcqR, Ret(0)], vec![TmAcqR, Drop(0)]], Some(2)),
    ]
}

fn rand_prog(r: &mut Rng, len: usize, cache: bool) -> Vec<Op> {
    let mut p = vec![];
    let mut holding = 0usize;
    for _ in 0..len {
        let c = r.below(if cache { 12 } else { 8 });
        let op = match c {
            0 | 1 => { holding += 1; Op::AcqR }
            2 | 3 => { holding += 1; Op::AcqW }
            4 | 5 => if holding > 0 { holding -= 1; Op::Drop(r.below(holding as u64 + 1) as usize) } else { holding += 1; Op::AcqR },
            6 => Op::Retire,
            7 => Op::Reclaim,
            8 => { holding += 1; Op::TmAcqR }
            9 => { holding += 1; Op::TmAcqW }
            10 => if holding > 0 { holding -= 1; Op::Ret(r.below(holding as u64 + 1) as usize) } else { Op::Clear },
            _ => Op::Clear,
        };
        p.push(op);
    }
    p
}

pub fn run(args: &Args) {
    let mut cx = Ctx {
        sum: Summary::new("C16", "real threads parked at schedule hooks before every shared access of acquire/release/try_advance; all schedules with a bounded number of pre-emptions (all schedules for the single-operation races) of fixed 2-3 thread programs at every ConcurrencyLevel, random programs under random schedules, sequential histories over 1-3 managers with cached tokens and manager drops; a concurrent run is non-trivial when it has >= 2 context switches at a level that tracks versions, a sequential one when it has >= 2 managers and >= 5 operations; distinct = distinct (programs, executed schedule). Oracle breadth (cells concx/L*, lazy_free_list: replayed by the model since the model extension; seqx, long: oracle only): with_reader_token / with_writer_token (closure succeeds, fails, panics, asks for a second token, nested) and TokenAccess::{read,write}_with_manager, TokenManager::with_version_manager (several doors to one set of counters), a TokenCache owned by the history (cache_*_token, get_*_token, get_*_token_for, clear), tokens handed to and released by another thread (dropped, cached there, thread exit), clear_all_stats / clear_stats between operations, validate_token_version and issued_by of every held token against every manager after every step, VersionManagerStats::active_readers/active_writers against the counters, tokens lent to CompressedSparseTrie::*_with_token, LazyFreeList::{default, with_bulk_threshold 0..usize::MAX, should_bulk_process-gated processing, clear_stats, can_free}, 40-item retirements in controlled runs, generated single-thread histories of up to 500000 operations (named by level, n, seed, threshold) with versions and queues beyond 2^16"),
        shards: CoqShards::new(HEADER, 300),
        coq_budget: if args.thorough { 7500 } else { 1500 },
        rng: Rng::new(args.seed),
        runs: 0,
        lazy_seen: 0,
        lazy_all: args.replay.is_some(),
    };
    for l in 0..5u8 { cx.sum.cell_status(&format!("conc/L{}", l), "M+S"); cx.sum.cell_status(&format!("concx/L{}", l), "M+S"); }
    cx.sum.cell_status("seq", "M+S");
    cx.sum.cell_status("seqx", "S-only");
    if let Some(f) = &args.replay {
        let txt = std::fs::read_to_string(f).expect("replay file");
        let v: Value = serde_json::from_str(&txt).expect("replay json");
        let c = if v.get("case").is_some() { v["case"].clone() } else { v };
        run_case(&mut cx, &c);
        let sh = cx.shards.write(&args.out);
        cx.sum.write(&args.out, sh);
        return;
    }
    let t0 = Instant::now();
    // 1. corpus
    if let Ok(rd) = std::fs::read_dir("corpus/C16") {
        let mut files: Vec<_> = rd.filter_map(|e| e.ok()).map(|e| e.path()).filter(|p| p.extension().map_or(false, |e| e == "json")).collect();
        files.sort();
        for p in files {
            if let Ok(txt) = std::fs::read_to_string(&p) {
                if let Ok(v) = serde_json::from_str::<Value>(&txt) {
                    let c = if v.get("case").is_some() { v["case"].clone() } else { v };
                    run_case(&mut cx, &c);
                    cx.sum.dist("corpus_cases");
                }
            }
        }
    }
    // 2. enumerated schedules of fixed programs at every level
    let total_coq = cx.coq_budget;
    cx.coq_budget = total_coq * 9 / 30;
    let per_prog = if args.thorough { 15000 } else { 1500 };
    for (name, progs, bound) in fixed_programs() {
        for level in [3u8, 4, 2, 1, 0] {
            let bound = match (bound, args.thorough) { (Some(b), true) => Some(b + 1), (b, _) => b };
            let n = cx.explore(level, &progs, bound, per_prog, if args.thorough { 40 } else { 30 });
            cx.sum.dist_max(&format!("schedules[{}]L{}", name, level), n as u64);
        }
    }
    cx.sum.sample(json!({"kind": "enumerated schedules", "programs": fixed_programs().iter().map(|x| x.0).collect::<Vec<_>>()}));
    cx.sum.dist_max("phase_ms_enumerated_schedules", t0.elapsed().as_millis() as u64);
    // 2x. the same exploration for programs with the oracle-only operations (with_*_token, tokens handed to another thread,
    //     queues beyond the bulk thresholds, clear_all_stats), oracle only
    cx.coq_budget = total_coq * 13 / 30;
    let per_prog_x = if args.thorough { 6000 } else { 400 };
    for (name, progs, bound, bulk, levels) in fixed_programs_ext() {
        for &level in levels {
            let bound = match (bound, args.thorough) { (Some(b), true) => Some(b + 1), (b, _) => b };
            let n = cx.explorex(level, &progs, bound, per_prog_x, if args.thorough { 40 } else { 25 }, bulk);
            cx.sum.dist_max(&format!("schedules_x[{}]L{}", name, level), n as u64);
        }
    }
    cx.sum.dist_max("phase_ms_enumerated_schedules_x", t0.elapsed().as_millis() as u64);
    // 3. random programs, random schedules
    cx.coq_budget = total_coq * 17 / 30;
    let nrand = if args.thorough { 400000 } else { 8000 };
    // the random phases also stop on a wall-clock budget (every case is still derived from the seed
    // in order, so a failing case replays from its replay file whatever the machine speed was)
    let (t_rand, t_seq) = if args.thorough { (1000u64, 1300u64) } else { (70u64, 100u64) };
    for k in 0..nrand {
        if t0.elapsed().as_secs() > t_rand { cx.sum.dist("random_phase_cut_by_time"); break; }
        let mut r = Rng::new(cx.rng.next());
        let level = *r.pick(&[3u8, 3, 3, 4, 4, 2, 1, 0]);
        let nt = if r.chance(1, 3) { 3 } else { 2 };
        let cache = r.chance(1, 3);
        let progs: Vec<Vec<Op>> = (0..nt).map(|_| { let len = r.range(1, 4) as usize; rand_prog(&mut r, len, cache) }).collect();
        // switch probability per step: mostly rare switches (few pre-emptions), sometimes frantic
        let den = *r.pick(&[2u64, 4, 8, 8, 16]);
        let o = cx.conc(level, &progs, Chooser::Random(Rng::new(r.next()), den), k % 10 == 0);
        if k < 3 { cx.sum.sample(json!({"kind": "random", "case": conc_case_json(level, &progs, &o.sched, None)})); }
    }
    cx.sum.dist_max("phase_ms_random_schedules", t0.elapsed().as_millis() as u64);
    // 3x. random programs over the whole operation set, random thresholds of the shared list, oracle only
    cx.coq_budget = total_coq * 21 / 30;
    let nrand_x = if args.thorough { 60000 } else { 2500 };
    for k in 0..nrand_x {
        if t0.elapsed().as_secs() > t_rand + (if args.thorough { 150 } else { 10 }) { cx.sum.dist("random_x_phase_cut_by_time"); break; }
        let mut r = Rng::new(cx.rng.next());
        let level = *r.pick(&[3u8, 3, 3, 4, 4, 2, 1, 0]);
        let nt = if r.chance(1, 3) { 3 } else { 2 };
        let progs: Vec<Vec<Op>> = (0..nt).map(|_| { let len = r.range(1, 5) as usize; rand_prog_ext(&mut r, len) }).collect();
        let bulk = *r.pick(&[None, None, Some(0u64), Some(1), Some(2), Some(20), Some(u64::MAX)]);
        let den = *r.pick(&[2u64, 4, 8, 8, 16]);
        let o = cx.concx(level, &progs, Chooser::Random(Rng::new(r.next()), den), k % 8 == 0, bulk);
        if k < 1 { cx.sum.sample(json!({"kind": "random_x", "case": conc_case_json(level, &progs, &o.sched, bulk)})); }
    }
    cx.sum.dist_max("phase_ms_random_schedules_x", t0.elapsed().as_millis() as u64);
    // 4. sequential histories over several managers
    cx.coq_budget = total_coq * 25 / 30;
    // 4a. every history of a fixed length over two OneWriteMultiRead TokenManagers and the alphabet
    //     {acquire reader/writer through the cache on either manager, return / drop the oldest held
    //      token, clear the cache, drop either manager}
    {
        let alphabet = [SOp::TmAcqR(0), SOp::TmAcqR(1), SOp::TmAcqW(0), SOp::TmAcqW(1), SOp::Ret(0, 0), SOp::Drop(0),
                        SOp::Clear, SOp::DropMgr(0), SOp::DropMgr(1)];
        let len = if args.thorough { 5 } else { 4 };
        let total = alphabet.len().pow(len as u32);
        for code in 0..total {
            let mut ops = vec![SOp::NewTm(3), SOp::NewTm(3)];
            let mut c = code;
            for _ in 0..len { ops.push(alphabet[c % alphabet.len()]); c /= alphabet.len(); }
            cx.seq(&ops, code % 3 == 0, code % 97 == 0);
        }
        cx.sum.dist_max("enumerated_sequential_histories", total as u64);
    }
    // 4b. two TokenManagers of EVERY pair of concurrency levels (the thread-local token cache is shared by all managers of a
    //     thread; read-only managers hand out tokens that carry no manager state): every history of a fixed length over
    //     {acquire reader / writer through the cache on either manager, return or drop the oldest held token}
    {
        let alphabet = [SOp::TmAcqR(0), SOp::TmAcqW(0), SOp::TmAcqR(1), SOp::TmAcqW(1), SOp::Ret(0, 0), SOp::Drop(0)];
        let len = if args.thorough { 5 } else { 4 };
        let total = alphabet.len().pow(len as u32);
        for l1 in 0..5u8 { for l2 in 0..5u8 {
            if l1 == 3 && l2 == 3 { continue; } // covered by 4a
            for code in 0..total {
                let mut ops = vec![SOp::NewTm(l1), SOp::NewTm(l2)];
                let mut c = code;
                for _ in 0..len { ops.push(alphabet[c % alphabet.len()]); c /= alphabet.len(); }
                cx.seq(&ops, code % 3 == 0, code % 211 == 0);
            }
        } }
        cx.sum.dist_max("enumerated_cross_level_histories", (24 * total) as u64);
    }
    // 4c. the lazy free list on its own: queues longer than one and two bulk thresholds, reclaimed at every cut point
    cx.sum.dist_max("phase_ms_enumerated_histories", t0.elapsed().as_millis() as u64);
    cx.coq_budget = total_coq;
    lazy_cells(&mut cx, args.thorough);
    cx.sum.dist_max("phase_ms_lazy", t0.elapsed().as_millis() as u64);
    // 4d. oracle breadth: the staged family over three doors, long generated histories, random histories over the whole operation set
    staged_seqx(&mut cx, args.thorough);
    cx.sum.dist_max("phase_ms_staged_seqx", t0.elapsed().as_millis() as u64);
    long_cells(&mut cx, args.thorough);
    cx.sum.dist_max("phase_ms_long", t0.elapsed().as_millis() as u64);
    let nseq_x = if args.thorough { 120000 } else { 4000 };
    for k in 0..nseq_x {
        if t0.elapsed().as_secs() > t_seq { cx.sum.dist("sequential_x_phase_cut_by_time"); break; }
        let mut r = Rng::new(cx.rng.next());
        let ops = rand_seq_ext(&mut r);
        let leave = r.chance(1, 4);
        cx.seq(&ops, leave, false);
        if k < 1 { cx.sum.sample(seq_case_json(&ops, leave)); }
    }
    cx.sum.dist_max("phase_ms_random_seqx", t0.elapsed().as_millis() as u64);
    let nseq = if args.thorough { 300000 } else { 5000 };
    for k in 0..nseq {
        if t0.elapsed().as_secs() > t_seq { cx.sum.dist("sequential_phase_cut_by_time"); break; }
        let mut r = Rng::new(cx.rng.next());
        let ops = rand_seq(&mut r);
        let leave = r.chance(1, 4);
        cx.seq(&ops, leave, k % 10 == 0);
        if k < 2 { cx.sum.sample(seq_case_json(&ops, leave)); }
    }
    cx.sum.dist_max("controlled_runs", cx.runs);
    cx.sum.dist_max("harness_wall_ms", t0.elapsed().as_millis() as u64);
    let sh = cx.shards.write(&args.out);
    cx.sum.write(&args.out, sh);
}


// ------------------------------------------------------------------------------------------------
// long single-thread histories: version manager + token manager(s) + lazy free list together
// ------------------------------------------------------------------------------------------------
/// One thread, `n` generated operations (the case names them by (level, n, seed, bulk, shared) only): tokens acquired directly and
/// through the cache (a second TokenManager over the same VersionManager when `shared`), held in numbers, dropped and cached in
/// any order, `with_*_token`, items retired at the current version into a LazyFreeList of threshold `bulk` and reclaimed with
/// `min_version()` (always, or only when `should_bulk_process()`), statistics cleared now and then.  Versions pass 2^16, the queue
/// passes one and two bulk thresholds many times, an old reader is kept alive for long stretches.  After EVERY operation:
/// (i) <= 1 held writer at level 3, (ii) min_version() <= oldest held version and every freed item is older than every held token,
/// freed oldest first, none lost, (iii) held <= counter <= held + cached, zero at the end.
fn long_case(cx: &mut Ctx, level: u8, n: u64, seed: u64, bulk: u64, shared: bool) {
    let cell = "long";
    let cj = json!({"cell": "long", "level": level, "n": n, "seed": seed, "bulk": bulk.to_string(), "shared": shared});
    cx.sum.eval(cell, &cj.to_string(), n >= 100);
    let stats = Arc::new(Mutex::new((0u64, 0u64, 0u64)));   // longest queue, last version, items freed
    let stats2 = stats.clone();
    let h = std::thread::spawn(move || -> Option<String> {
        let r = guarded(|| -> Option<String> {
            let mut r = Rng::new(seed);
            let mut nfreed = 0u64;
            let tm = TokenManager::new(level_of(level));
            let tm2 = if shared { TokenManager::with_version_manager(tm.version_manager().clone()) } else { TokenManager::new(level_of(level)) };
            let vm = tm.version_manager().clone();
            let mut lazy = if bulk == u64::MAX - 1 { LazyFreeList::default() } else { LazyFreeList::with_bulk_threshold(bulk.min(usize::MAX as u64) as usize) };
            let mut queue: std::collections::VecDeque<(u64, u32)> = Default::default();
            let mut next_id = 0u32;
            let mut held: Vec<(Tok, u8, u64)> = vec![];                       // token, kind, version
            let mut versions: std::collections::BTreeMap<u64, u64> = Default::default();   // versions of held tracked tokens
            let mut nheld = [0u64; 2];
            let mut cached: [Option<(u8, u64)>; 2] = [None, None];             // kind, version in the thread cache (tm's or tm2's state)
            let mut cached_of_tm2 = [false; 2];
            let mut dirty = false;
            let mut max_q = 0usize;
            let cap = 60usize;
            for step in 0..=n {
                let last = step == n;
                let c = if last { 99 } else { r.below(24) };
                let mut freed: Vec<(u64, u32)> = vec![];
                let mut what = "";
                let add = |held: &mut Vec<(Tok, u8, u64)>, versions: &mut std::collections::BTreeMap<u64, u64>, nheld: &mut [u64; 2], t: Tok| {
                    let i = t.info(0);
                    if i.kind < 2 { *versions.entry(i.version).or_insert(0) += 1; nheld[i.kind as usize] += 1; }
                    held.push((t, i.kind, i.version));
                };
                let del = |versions: &mut std::collections::BTreeMap<u64, u64>, nheld: &mut [u64; 2], k: u8, v: u64| {
                    if k < 2 { nheld[k as usize] -= 1; let e = versions.get_mut(&v).unwrap(); *e -= 1; if *e == 0 { versions.remove(&v); } }
                };
                match c {
                    0 | 1 | 2 if held.len() < cap => { what = "acquire_reader_token"; if let Ok(t) = vm.acquire_reader_token() { add(&mut held, &mut versions, &mut nheld, Tok::R(t)); } }
                    3 | 4 if held.len() < cap => { what = "acquire_writer_token"; if let Ok(t) = vm.acquire_writer_token() { add(&mut held, &mut versions, &mut nheld, Tok::W(t)); } }
                    5 | 6 if held.len() < cap => {
                        // through the cache of either door; with separate managers the second one must not reuse the first one's token
                        let second = r.chance(1, 3);
                        let w = r.chance(1, 2);
                        what = "TokenManager::acquire_*_token";
                        let door = if second { &tm2 } else { &tm };
                        let h0 = cache_hits(&tm);
                        let got = if w { door.acquire_writer_token().ok().map(Tok::W) } else { door.acquire_reader_token().ok().map(Tok::R) };
                        if cache_hits(&tm) > h0 {
                            // (read-only tokens carry no manager state: any read-only manager may hand them out)
                            if !shared && level != 0 && cached_of_tm2[w as usize] != second { return Some(format!("step {}: a TokenManager handed out the token cached through an unrelated manager", step)); }
                            cached[w as usize] = None;
                        }
                        if let Some(t) = got {
                            if !shared && second { drop(t); } else { add(&mut held, &mut versions, &mut nheld, t); }
                        }
                    }
                    7 | 8 | 9 | 10 if !held.is_empty() => {
                        what = "drop";
                        // mostly the newest tokens go first, so that old ones stay alive for long
                        let i = if r.chance(2, 3) { held.len() - 1 - r.below(held.len().min(4) as u64) as usize } else { r.below(held.len() as u64) as usize };
                        let (t, k, v) = held.remove(i);
                        del(&mut versions, &mut nheld, k, v);
                        drop(t);
                    }
                    11 if !held.is_empty() => {
                        what = "return_*_token";
                        let i = r.below(held.len() as u64) as usize;
                        let (t, k, v) = held.remove(i);
                        del(&mut versions, &mut nheld, k, v);
                        let slot = (k == 1) as usize;
                        cached[slot] = Some((k, v));
                        cached_of_tm2[slot] = false;
                        match t { Tok::R(x) => tm.return_reader_token(x), Tok::W(x) => tm2.return_writer_token(x) }
                    }
                    12 | 13 => {
                        what = "with_*_token";
                        let w = r.chance(1, 2);
                        let slot = w as usize;
                        let h0 = cache_hits(&tm);
                        let low = versions.keys().next().copied();
                        let mut bad: Option<String> = None;
                        let hw = nheld[1];
                        let mut ran: Option<(u8, u64)> = None;
                        let mut inside = |k: u8, v: u64| {
                            ran = Some((k, v));
                            let m = vm.min_version();
                            if k < 2 && (m > v || low.map_or(false, |l| m > l)) { bad = Some(format!("step {}: inside with_*_token min_version() = {} with live tokens of versions {} and {:?}", step, m, v, low)); }
                            if k == 1 && level == 3 && hw >= 1 { bad = Some(format!("step {}: with_writer_token ran while {} writer tokens are held (OneWriteMultiRead)", step, hw)); }
                            let cnt = if k == 1 { vm.active_writers() } else { vm.active_readers() };
                            if k < 2 && cnt < nheld[k as usize] + 1 { bad = Some(format!("step {}: inside with_*_token the manager counts {} tokens, {} are held and one is lent", step, cnt, nheld[k as usize])); }
                        };
                        if w { let _ = with_writer_token(&tm, |t| { inside(1, t.version()); Ok(()) }); }
                        else { let _ = with_reader_token(&tm, |t| { inside(if t.is_readonly() { 2 } else { 0 }, t.version()); Ok(()) }); }
                        if let Some(b) = bad { return Some(b); }
                        if let Some(kv) = ran { let _ = cache_hits(&tm) > h0; cached[slot] = Some(kv); cached_of_tm2[slot] = false; }
                    }
                    14 | 15 | 16 => { what = "retire"; for _ in 0..r.range(1, 4) { let a = vm.current_version(); lazy.push(LazyFreeItem::new(a, next_id, 8)); queue.push_back((a, next_id)); next_id += 1; } }
                    17 | 18 => { what = "process_safe_items(min_version())"; let m = vm.min_version(); let k = lazy.process_safe_items(m, |it| freed.push((it.age, it.memory_offset))); if k != freed.len() { return Some(format!("step {}: process_safe_items returned {} and freed {} items", step, k, freed.len())); } }
                    19 => { what = "should_bulk_process -> process_safe_items(min_version())"; if lazy.should_bulk_process() { let m = vm.min_version(); lazy.process_safe_items(m, |it| freed.push((it.age, it.memory_offset))); } }
                    20 if r.chance(1, 8) => { what = "clear stats"; dirty = true; let _ = if r.chance(1, 2) { tm.clear_all_stats() } else { vm.clear_stats() }; lazy.clear_stats(); }
                    21 => { what = "clear_thread_cache"; cached = [None, None]; tm2.clear_thread_cache(); }
                    99 => { what = "release everything"; held.clear(); versions.clear(); nheld = [0, 0]; cached = [None, None]; tm.clear_thread_cache(); }
                    _ => {}
                }
                if queue.len() > max_q { max_q = queue.len(); }
                nfreed += freed.len() as u64;
                if step % 1024 == 0 || last { *stats2.lock().unwrap() = (max_q as u64, vm.current_version(), nfreed); }
                // ---- oracle
                let low = versions.keys().next().copied();
                for f in &freed {
                    if let Some(l) = low { if f.0 >= l { return Some(format!("step {} ({}): the item retired at version {} was handed to the free callback while a token of version {} is held", step, what, f.0, l)); } }
                    match queue.pop_front() { Some(x) if x == *f => {}, other => return Some(format!("step {} ({}): freed item {:?} is not the oldest queued item {:?}", step, what, f, other)) }
                }
                if lazy.len() != queue.len() { return Some(format!("step {} ({}): the list holds {} items, {} are queued", step, what, lazy.len(), queue.len())); }
                let (min, cur, ar, aw) = (vm.min_version(), vm.current_version(), vm.active_readers(), vm.active_writers());
                if let Some(l) = low {
                    if min > l { return Some(format!("step {} ({}): min_version() = {} exceeds the version {} of a held token", step, what, min, l)); }
                    if !vm.validate_token_version(l) { return Some(format!("step {} ({}): validate_token_version({}) is false for a held token (min {}, current {})", step, what, l, min, cur)); }
                }
                if level == 3 && nheld[1] > 1 { return Some(format!("step {} ({}): {} writer tokens are held at once in OneWriteMultiRead", step, what, nheld[1])); }
                for (k, name, cnt) in [(0usize, "active_readers", ar), (1usize, "active_writers", aw)] {
                    let maybe = cached.iter().flatten().filter(|x| x.0 as usize == k).count() as u64;
                    if cnt < nheld[k] || cnt > nheld[k] + maybe { return Some(format!("step {} ({}): {} = {} with {} held and {} cached tokens", step, what, name, cnt, nheld[k], maybe)); }
                }
                if !dirty && step % 64 == 0 {
                    if let Ok(st) = vm.stats() {
                        if st.active_readers() != ar as i64 || st.active_writers() != aw as i64 { return Some(format!("step {} ({}): stats() reports {} / {} active tokens, the manager {} / {}", step, what, st.active_readers(), st.active_writers(), ar, aw)); }
                    }
                }
            }
            let _ = max_q;
            None
        });
        match r { Ok(x) => x, Err(p) => Some(format!("panicked: {}", p)) }
    });
    let res = h.join();
    let st = *stats.lock().unwrap_or_else(|e| e.into_inner());
    cx.sum.dist_max("long_longest_queue", st.0);
    cx.sum.dist_max("long_highest_version", st.1);
    cx.sum.dist_max("long_most_items_freed", st.2);
    match res {
        Ok(None) => {}
        Ok(Some(m)) => cx.sum.fail(cell, None, cj, &m),
        Err(_) => cx.sum.fail(cell, None, cj, "the history thread died"),
    }
}
fn long_cells(cx: &mut Ctx, thorough: bool) {
    cx.sum.cell_status("long", "S-only");
    const DEF: u64 = u64::MAX - 1; // LazyFreeList::default()
    let big = if thorough { 3_000_000 } else { 500_000 };
    for (i, &(level, n, bulk, shared)) in [
        (3u8, big, DEF, true), (4, big, 32, false), (2, big, DEF, false), (4, 70_000, u64::MAX, true), (3, 70_000, 0, false),
        (1, 5_000, DEF, true), (0, 5_000, 1, false), (4, 20_000, 33, true), (3, 20_000, 64, true), (2, 20_000, 2, true),
    ].iter().enumerate() {
        long_case(cx, level, n, 0x16_0000 + i as u64, bulk, shared);
    }
    let nr = if thorough { 400 } else { 60 };
    for _ in 0..nr {
        let mut r = Rng::new(cx.rng.next());
        let level = *r.pick(&[3u8, 3, 4, 4, 2, 1, 0]);
        let bulk = *r.pick(&[DEF, DEF, 0, 1, 2, 5, 32, 64, u64::MAX]);
        let n = *r.pick(&[300u64, 1000, 3000]);
        long_case(cx, level, n, r.next(), bulk, r.chance(1, 2));
    }
}

/// LazyFreeList alone (oracle-only cell): items are pushed with non-decreasing ages (they are retired at the current version),
/// `process_safe_items(min_version)` may hand an item to the free callback only if its age is below `min_version` - i.e. no
/// token of that version or older can still see it -, hands them out oldest first, loses none and reports how many it freed.
/// A big script is named by (kind, n, seed) and generated here: n pushes with slowly growing ages (`ramp`) or long runs of one
/// age (`steps`), a reclaim (plain or gated by `should_bulk_process`) every 50 operations or so, at a cut inside the queue.
fn lazy_gen_script(kind: &str, n: u64, seed: u64) -> Vec<(u64, u64)> {
    let mut r = Rng::new(seed);
    let mut script = vec![];
    let mut age = 1u64;
    let mut oldest_guess = 1u64;
    for i in 0..n {
        match kind { "steps" => if i % 97 == 96 { age += 1 + r.below(2); }, _ => age += r.below(3) }
        script.push((0, age));
        if r.chance(1, 50) {
            let cut = if r.chance(1, 4) { age + 1 } else { oldest_guess + r.below(age - oldest_guess + 2) };
            script.push((if r.chance(1, 3) { 2 } else { 1 }, cut));
            if r.chance(1, 10) { script.push((3, 0)); }
            oldest_guess = oldest_guess.max(cut.min(age));
        }
    }
    script
}
const LAZY_NEW: u64 = u64::MAX;          // LazyFreeList::new()
const LAZY_UNLIMITED: u64 = u64::MAX - 1; // with_bulk_threshold(usize::MAX): "no limit per call"
const LAZY_DEFAULT: u64 = u64::MAX - 2;   // LazyFreeList::default()
fn lazy_case(cx: &mut Ctx, threshold: u64, script: &[(u64, u64)]) { lazy_case_g(cx, threshold, script, None) }
/// Script operations: (0, age) push; (1, v) process_safe_items(v); (2, v) the same, but only when should_bulk_process() says so;
/// (3, _) clear_stats (housekeeping in the middle).
fn lazy_case_g(cx: &mut Ctx, threshold: u64, script: &[(u64, u64)], gen: Option<(&str, u64, u64)>) {
    let cell = "lazy_free_list";
    let generated: Vec<(u64, u64)>;
    let (script, cj) = match gen {
        Some((kind, n, seed)) => {
            generated = lazy_gen_script(kind, n, seed);
            (&generated[..], json!({"cell": "lazy", "threshold": threshold, "gen": {"kind": kind, "n": n, "seed": seed}}))
        }
        None => (script, json!({"cell": "lazy", "threshold": threshold, "script": script.iter().map(|(a, b)| json!([a, b])).collect::<Vec<_>>()})),
    };
    cx.sum.eval(cell, &cj.to_string(), script.len() >= 3);
    // what the list showed, operation by operation (compared with coq/C16/ModelLazy.v `lrun` + `ldrain`):
    // push / clear_stats: [len]; a processing call: [1, returned count, len afterwards, freed ages ...]; a gated call that did
    // not fire: [0, len]; then one entry per drain round
    let obs: std::cell::RefCell<Vec<Vec<u64>>> = Default::default();
    let r = guarded(|| -> Option<String> {
        let mut obs = obs.borrow_mut();
        let mut l = match threshold {
            LAZY_NEW => LazyFreeList::new(), LAZY_DEFAULT => LazyFreeList::default(), LAZY_UNLIMITED => LazyFreeList::with_bulk_threshold(usize::MAX),
            t => LazyFreeList::with_bulk_threshold(t as usize),
        };
        let mut shadow: std::collections::VecDeque<(u64, u32)> = Default::default();
        let mut next_id = 0u32;
        for (step, &(op, v)) in script.iter().enumerate() {
            if op == 0 {
                l.push(LazyFreeItem::new(v, next_id, 8)); shadow.push_back((v, next_id)); next_id += 1;
                obs.push(vec![l.len() as u64]);
            } else if op == 3 {
                l.clear_stats();
                obs.push(vec![l.len() as u64]);
            } else {
                // what the list's own predicate says about the oldest item: never "free" at or after its version
                if let Some(&(a, id)) = shadow.front() {
                    if a >= v && LazyFreeItem::new(a, id, 8).can_free(v) { return Some(format!("step {}: can_free({}) is true for an item retired at version {}", step, v, a)); }
                }
                if op == 2 && !l.should_bulk_process() { obs.push(vec![0, l.len() as u64]); continue; }
                let mut freed: Vec<(u64, u32)> = vec![];
                let n = l.process_safe_items(v, |it| freed.push((it.age, it.memory_offset)));
                { let mut o = vec![1, n as u64, l.len() as u64]; o.extend(freed.iter().map(|f| f.0)); obs.push(o); }
                if n != freed.len() { return Some(format!("step {}: process_safe_items({}) returned {} but freed {} items", step, v, n, freed.len())); }
                for f in &freed {
                    if f.0 >= v { return Some(format!("step {}: item of age {} was freed although min_version is {} (a token of version {} may still see it)", step, f.0, v, v)); }
                    match shadow.pop_front() { Some(x) if x == *f => {}, other => return Some(format!("step {}: freed item {:?} is not the oldest queued item {:?}", step, f, other)) }
                }
            }
            if l.len() != shadow.len() || l.is_empty() != shadow.is_empty() { return Some(format!("step {}: len() = {} but {} items are queued", step, l.len(), shadow.len())); }
        }
        // drain: with no version left to protect them, repeated processing must eventually free everything, in order
        let mut rounds = 0;
        while !shadow.is_empty() && rounds < 10_000 {
            let mut freed: Vec<(u64, u32)> = vec![];
            let n = l.process_safe_items(u64::MAX, |it| freed.push((it.age, it.memory_offset)));
            { let mut o = vec![1, n as u64, l.len() as u64]; o.extend(freed.iter().map(|f| f.0)); obs.push(o); }
            if freed.is_empty() { return Some(format!("drain: {} items are queued, none can be seen any more, yet nothing is freed", shadow.len())); }
            for f in &freed { match shadow.pop_front() { Some(x) if x == *f => {}, other => return Some(format!("drain: freed item {:?} is not the oldest queued item {:?}", f, other)) } }
            rounds += 1;
        }
        if !l.is_empty() { return Some("drain: the list is not empty at the end".into()); }
        None
    });
    match r {
        Err(p) => cx.sum.fail(cell, None, cj, &format!("panicked: {}", p)),
        Ok(Some(m)) => cx.sum.fail(cell, None, cj, &m),
        Ok(None) => {
            // replayed by the model: the scripts that are spelled out (every `coq_every`-th one; any replayed case)
            let n = cx.lazy_seen; cx.lazy_seen += 1;
            if gen.is_none() && script.len() <= 400 && (cx.lazy_all || n % 6 == 0) && cx.shards.len() < cx.coq_budget {
                let thr: u64 = match threshold { LAZY_NEW | LAZY_DEFAULT => LazyFreeList::BULK_FREE_NUM as u64, LAZY_UNLIMITED => usize::MAX as u64, t => t };
                let ops: Vec<String> = script.iter().map(|&(op, v)| match op { 0 => format!("LPush {}", v), 1 => format!("LProcess {}", v), 2 => format!("LGated {}", v), _ => "LClearStats".to_string() }).collect();
                let ob = obs.borrow();
                let obs_s: Vec<String> = ob.iter().map(|o| coq_n_list(o.iter().map(|&x| x as u128))).collect();
                let mut c = cj.clone();
                c["impl_obs"] = json!(ob.iter().map(|o| o.iter().map(|x| x.to_string()).collect::<Vec<_>>()).collect::<Vec<_>>());
                cx.shards.push(format!("CLazy ({}%N, [{}]%N, [{}]%N)", thr, ops.join("; "), obs_s.join("; ")), c);
                cx.sum.dist("lazy_scripts_replayed_by_the_model");
            }
        }
    }
}
fn lazy_cells(cx: &mut Ctx, thorough: bool) {
    cx.sum.cell_status("lazy_free_list", "M+S");
    for &th in &[LAZY_NEW, 0, 1, 2, 5, 32, LAZY_DEFAULT, LAZY_UNLIMITED] {
        let t = if th >= LAZY_DEFAULT { 32 } else { th.max(1) } as u64;
        for &n in &[0u64, 1, t - 1 + (t == 1) as u64, t, t + 1, 2 * t - 1, 2 * t, 2 * t + 1, 3 * t + 7] {
            for step in [0u64, 1, 2] {
                // ages 10, 10+step, ...; one reclaim at each interesting cut, then more pushes and a second reclaim
                let ages: Vec<u64> = (0..n).map(|i| 10 + i * step).collect();
                let mut cuts: Vec<u64> = vec![0, 10, 11];
                for &i in &[0u64, t.saturating_sub(1), t, n.saturating_sub(t), n.saturating_sub(1)] { if (i as usize) < ages.len() { let a = ages[i as usize]; cuts.extend([a, a + 1]); } }
                cuts.push(u64::MAX);
                cuts.sort(); cuts.dedup();
                for (k, &c) in cuts.iter().enumerate() {
                    if !thorough && k % 2 == 1 && n > 2 * t { continue; }
                    let mut script: Vec<(u64, u64)> = ages.iter().map(|&a| (0, a)).collect();
                    script.push((1, c));
                    let last = ages.last().copied().unwrap_or(10);
                    script.extend((0..3).map(|j| (0, last + j)));
                    // the second reclaim plain, gated by should_bulk_process, or after a clear_stats
                    match k % 3 { 0 => script.push((1, c.saturating_add(1))), 1 => { script.push((2, c.saturating_add(1))); script.push((1, c)); } _ => { script.push((3, 0)); script.push((1, c.saturating_add(1))); } }
                    lazy_case(cx, th, &script);
                }
            }
        }
    }
    // queues that are not in age order (the list is a public type and push takes any age; under MultiWriteMultiRead a writer of a
    // newer version may push before a slower one): a young item in front of old ones, at and beyond the bulk mark 2 x threshold.
    // Whatever the order, nothing of age >= min_version is handed to the callback and what is freed is the front of the queue.
    for &th in &[LAZY_NEW, 1, 2, 5, 32, LAZY_UNLIMITED] {
        let t = if th >= LAZY_DEFAULT { 32 } else { th.max(1) } as u64;
        for &n in &[2 * t - 1, 2 * t, 2 * t + 6, 4 * t + 3] {
            for &at in &[0u64, 1, 3, t, n / 2 + 1, n.saturating_sub(2)] {
                if at >= n { continue; }
                for &young in &[1000u64, 50, 49] {
                    let mut script: Vec<(u64, u64)> = (0..n).map(|i| (0, if i == at { young } else { 1 + i / 2 })).collect();
                    script.push((if at % 2 == 0 { 1 } else { 2 }, 50));
                    script.push((1, 50));
                    script.extend((0..3).map(|j| (0, 40 + 20 * j)));
                    script.push((2, 51));
                    script.push((1, 1001));
                    lazy_case(cx, th, &script);
                    cx.sum.dist("lazy_scripts_not_in_age_order");
                }
            }
        }
    }
    let nr = if thorough { 3000 } else { 300 };
    for k in 0..nr {
        let mut r = Rng::new(cx.rng.next());
        let th = *r.pick(&[LAZY_NEW, 0, 1, 3, 8, 32, LAZY_DEFAULT, LAZY_UNLIMITED, 64]);
        if k % 5 == 4 {
            // random ages in any order
            let mut script = vec![];
            for _ in 0..r.range(1, 160) {
                if r.chance(7, 8) { script.push((0, r.below(60))); } else { script.push((*r.pick(&[1u64, 1, 2, 3]), r.below(64))); }
            }
            lazy_case(cx, th, &script);
            cx.sum.dist("lazy_scripts_not_in_age_order");
            continue;
        }
        let mut age = r.below(5);
        let mut script = vec![];
        for _ in 0..r.range(1, 120) {
            if r.chance(5, 6) { age += r.below(3); script.push((0, age)); }
            else {
                let c = if r.chance(1, 2) { age.saturating_sub(r.below(40)) } else { r.below(age + 3) };
                script.push((*r.pick(&[1u64, 1, 1, 2, 2, 3]), c));
            }
        }
        lazy_case(cx, th, &script);
    }
    // queues far beyond the thresholds (and beyond 2^16 entries), named by (kind, n, seed)
    for (i, &(th, kind, n)) in [(LAZY_NEW, "ramp", 70_000u64), (LAZY_UNLIMITED, "ramp", 70_000), (64, "steps", 70_000), (LAZY_DEFAULT, "steps", 20_000),
                                (1, "ramp", 3_000), (0, "steps", 3_000), (33, "ramp", 9_000)].iter().enumerate() {
        if !thorough && i >= 5 { break; }
        lazy_case_g(cx, th, &[], Some((kind, n, 0x1a27 + i as u64)));
    }
}

fn run_case(cx: &mut Ctx, c: &Value) {
    if c["cell"].as_str() == Some("long") {
        let bulk = c["bulk"].as_str().and_then(|x| x.parse::<u64>().ok()).or(c["bulk"].as_u64()).unwrap_or(u64::MAX - 1);
        long_case(cx, c["level"].as_u64().unwrap_or(3) as u8, c["n"].as_u64().unwrap_or(1000), c["seed"].as_u64().unwrap_or(0), bulk, c["shared"].as_bool().unwrap_or(false));
    } else if c["cell"].as_str() == Some("lazy") {
        let script: Vec<(u64, u64)> = c["script"].as_array().map(|a| a.iter().map(|x| (x[0].as_u64().unwrap_or(0), x[1].as_u64().unwrap_or(0))).collect()).unwrap_or_default();
        let th = c["threshold"].as_u64().unwrap_or(u64::MAX);
        match c["gen"]["kind"].as_str() {
            Some(kind) => lazy_case_g(cx, th, &[], Some((kind, c["gen"]["n"].as_u64().unwrap_or(0), c["gen"]["seed"].as_u64().unwrap_or(0)))),
            None => lazy_case(cx, th, &script),
        }
    } else if matches!(c["cell"].as_str(), Some("seq") | Some("seqx")) {
        let ops: Vec<SOp> = c["ops"].as_array().map(|a| a.iter().filter_map(SOp::parse).collect()).unwrap_or_default();
        cx.seq(&ops, c["leave"].as_bool().unwrap_or(false), true);
    } else {
        replay_conc(cx, c);
    }
}
