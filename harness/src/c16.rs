//! C16: version tokens - one writer at a time, nothing reclaimed while still visible.
//!
//! Cell `conc/L<level>`: 2-3 real threads run small programs of acquire / drop / return-to-cache /
//!   clear-cache / retire / reclaim against ONE TokenManager (and its VersionManager) under an explicit
//!   schedule.  Threads are parked at the `sched_point` hooks (cfg zipora_verif) placed before every
//!   shared access; a baton-passing scheduler lets exactly one thread run from one hook to the next.
//!   After every step the oracle below is evaluated on what the real code shows, and the whole run
//!   (point reached, current/min version, both counters after each step, result of every acquire) is
//!   also replayed by the Coq model on the same schedule.
//! Cell `seq`: one thread, several managers, tokens cached / dropped / managers dropped in any order.
//!
//! The oracle decides the property text directly (independent of the model):
//!   (i)   level 3: at most one writer token is held at any instant
//!   (ii)  min_version() <= version of every held (tracked) token; every item handed to the free
//!         callback by LazyFreeList::process_safe_items(min_version()) has age < every held version
//!   (iii) held <= counter <= held + cached + in-flight at every instant; counters are 0 at the end
//!   (iv)  no token release is aimed at a destroyed manager (registry hook), no panic, no hang
use crate::util::*;
use serde_json::{json, Value};
use std::cell::Cell;
use std::sync::{Arc, Condvar, Mutex};
use std::time::{Duration, Instant};
use zipora::fsa::token::TokenManager;
use zipora::fsa::verif_sched;
use zipora::fsa::version_sync::{
    ConcurrencyLevel, LazyFreeItem, LazyFreeList, ReaderToken, VersionManager, WriterToken,
};

const HEADER: &str = r#"From ZV.Common Require Import Base Run.
From ZV.C16 Require Import Model ModelSeq.
Open Scope N_scope.
Definition case_t : Type := (conc_case + seq_case)%type.
Definition ok (c : case_t) : bool :=
  match c with inl c => conc_ok true c | inr c => seq_ok c end.
"#;

// ------------------------------------------------------------------------------------------------
// operations
// ------------------------------------------------------------------------------------------------
#[derive(Clone, Copy, PartialEq, Debug)]
enum Op { AcqR, AcqW, TmAcqR, TmAcqW, Drop(usize), Ret(usize), Clear, Retire, Reclaim }

impl Op {
    fn name(&self) -> &'static str {
        match self {
            Op::AcqR => "AcqR", Op::AcqW => "AcqW", Op::TmAcqR => "TmAcqR", Op::TmAcqW => "TmAcqW",
            Op::Drop(_) => "Drop", Op::Ret(_) => "Ret", Op::Clear => "Clear", Op::Retire => "Retire", Op::Reclaim => "Reclaim",
        }
    }
    fn arg(&self) -> usize { match self { Op::Drop(i) | Op::Ret(i) => *i, _ => 0 } }
    fn parse(name: &str, arg: usize) -> Option<Op> {
        Some(match name {
            "AcqR" => Op::AcqR, "AcqW" => Op::AcqW, "TmAcqR" => Op::TmAcqR, "TmAcqW" => Op::TmAcqW,
            "Drop" => Op::Drop(arg), "Ret" => Op::Ret(arg), "Clear" => Op::Clear,
            "Retire" => Op::Retire, "Reclaim" => Op::Reclaim, _ => return None,
        })
    }
    fn coq(&self) -> String {
        match self { Op::Drop(i) => format!("Drop {}", i), Op::Ret(i) => format!("Ret {}", i), o => o.name().to_string() }
    }
}

fn level_of(l: u8) -> ConcurrencyLevel {
    match l {
        0 => ConcurrencyLevel::NoWriteReadOnly,
        1 => ConcurrencyLevel::SingleThreadStrict,
        2 => ConcurrencyLevel::SingleThreadShared,
        3 => ConcurrencyLevel::OneWriteMultiRead,
        _ => ConcurrencyLevel::MultiWriteMultiRead,
    }
}

enum Tok { R(ReaderToken), W(WriterToken) }
#[derive(Clone, Copy, Debug, PartialEq)]
struct TokInfo { kind: u8 /* 0 reader, 1 writer, 2 read-only */, version: u64, minv: u64, issuer: usize, handed_by: usize }
impl Tok {
    fn info(&self, issuer: usize) -> TokInfo {
        match self {
            Tok::R(t) => TokInfo { kind: if t.is_readonly() { 2 } else { 0 }, version: t.version(), minv: t.min_version(), issuer, handed_by: issuer },
            Tok::W(t) => TokInfo { kind: 1, version: t.version(), minv: t.min_version(), issuer, handed_by: issuer },
        }
    }
}

// ------------------------------------------------------------------------------------------------
// baton-passing scheduler over real threads
// ------------------------------------------------------------------------------------------------

#[derive(Default)]
struct ThRec {
    parked: Option<u32>,
    lock_target: usize,       // address of the mutex the thread is about to lock (0: not at a lock point)
    finished: bool,
    held: Vec<TokInfo>,
    cached: [Option<TokInfo>; 2],
    slack: [u64; 2],          // tokens in flight in the running operation (reader, writer)
    results: Vec<i128>,
    freed_now: Vec<u64>,      // ages handed to the free callback by the step just executed
    panic: Option<String>,
}

/// How the next thread is picked.
enum Chooser {
    /// follow `prefix`, then stay on the running thread while it can run (no further pre-emption)
    Prefix(Vec<usize>),
    /// stay with probability 1 - 1/den, else a random enabled thread
    Random(Rng, u64),
    /// follow a recorded schedule, skipping entries that cannot run; then as Prefix
    Replay(Vec<usize>, usize),
}
impl Chooser {
    fn choose(&mut self, step: usize, en: &[usize], last: Option<usize>) -> usize {
        let stay = |last: Option<usize>| match last { Some(l) if en.contains(&l) => l, _ => en[0] };
        match self {
            Chooser::Prefix(p) => if step < p.len() && en.contains(&p[step]) { p[step] } else { stay(last) },
            Chooser::Random(r, den) => match last {
                Some(l) if en.contains(&l) && !r.chance(1, *den) => l,
                _ => en[r.below(en.len() as u64) as usize],
            },
            Chooser::Replay(s, pos) => {
                while *pos < s.len() {
                    let t = s[*pos];
                    *pos += 1;
                    if en.contains(&t) { return t; }
                }
                stay(last)
            }
        }
    }
}

type Obs = (u32, u64, u64, u64, u64);

#[derive(Default)]
struct RunOut {
    sched: Vec<usize>,
    enabled: Vec<Vec<usize>>,
    trace: Vec<Obs>,
    results: Vec<Vec<i128>>,
    failures: Vec<String>,
    max_writers: u64,
    steps: usize,
}

/// The baton: exactly one controlled thread runs at a time.  The scheduling decision is taken by
/// whichever thread arrives at a schedule point, so a step that stays on the same thread costs no
/// context switch.
struct RunState {
    level: u8,
    th: Vec<ThRec>,
    handles: Vec<Option<std::thread::Thread>>,
    turn: Option<usize>,
    started: usize,
    go: bool,
    last: Option<usize>,
    chooser: Chooser,
    out: RunOut,
    done: bool,
    stuck: bool,
    abort: bool,
    progress: u64,
    vm: Arc<VersionManager>,
}
struct Ctl { m: Mutex<RunState>, cv: Condvar }

thread_local! { static TID: Cell<Option<usize>> = const { Cell::new(None) }; }
static CURRENT: Mutex<Option<Arc<Ctl>>> = Mutex::new(None);

fn block_forever() -> ! { loop { std::thread::park(); } }

impl RunState {
    /// Observation and oracle after thread `t` completed a step.
    fn record_step(&mut self, t: usize) {
        let vm = self.vm.clone();
        let point = if self.th[t].finished { 99 } else { self.th[t].parked.unwrap_or(98) };
        let (cur, min, ar, aw) = (vm.current_version(), vm.min_version(), vm.active_readers(), vm.active_writers());
        self.out.trace.push((point, cur, min, ar, aw));
        let step = self.out.steps;
        let mut held = [0u64; 2];
        let mut maybe = [0u64; 2];
        let mut fails: Vec<String> = vec![];
        for r in self.th.iter() {
            for h in &r.held { if h.kind < 2 { held[h.kind as usize] += 1; } }
            for c in r.cached.iter().flatten() { if c.kind < 2 { maybe[c.kind as usize] += 1; } }
            maybe[0] += r.slack[0];
            maybe[1] += r.slack[1];
        }
        if let Some(p) = &self.th[t].panic { fails.push(format!("panic in an operation of thread {}: {}", t, p)); }
        if held[1] > self.out.max_writers { self.out.max_writers = held[1]; }
        if self.level == 3 && held[1] > 1 {
            fails.push(format!("(i) {} writer tokens are held at once in OneWriteMultiRead (step {})", held[1], step));
        }
        for (ti, r) in self.th.iter().enumerate() {
            for h in &r.held {
                if h.kind < 2 && min > h.version {
                    fails.push(format!("(ii) min_version {} exceeds version {} of a token held by thread {} (step {})", min, h.version, ti, step));
                }
            }
        }
        for a in &self.th[t].freed_now {
            for (ti, r) in self.th.iter().enumerate() {
                for h in &r.held {
                    if h.kind < 2 && *a >= h.version {
                        fails.push(format!("(ii) item retired at version {} was handed to the free callback while thread {} holds a token of version {} (step {})", a, ti, h.version, step));
                    }
                }
            }
        }
        for (k, name, c) in [(0usize, "active_readers", ar), (1usize, "active_writers", aw)] {
            if c < held[k] || c > held[k] + maybe[k] {
                fails.push(format!("(iii) {} = {} but {} tokens are held and at most {} more are cached or in flight (step {})", name, c, held[k], maybe[k], step));
            }
        }
        self.out.failures.extend(fails);
    }

    /// Picks the thread that performs the next step; None when the run is over (or stuck).
    fn schedule_next(&mut self) -> Option<usize> {
        let mut en = vec![];
        let mut all_done = true;
        for (t, r) in self.th.iter().enumerate() {
            if r.finished { continue; }
            all_done = false;
            if r.parked.is_some() {
                // a thread about to lock can run iff the real mutex is free right now (every other
                // thread is parked, so this cannot change before the thread is resumed)
                if r.lock_target != 0 && !unsafe { verif_sched::mutex_is_free(r.lock_target) } { continue; }
                en.push(t);
            }
        }
        if all_done { return None; }
        if en.is_empty() {
            self.out.failures.push("deadlock: every unfinished thread is waiting for token_chain_mutex".to_string());
            self.stuck = true;
            return None;
        }
        if self.out.steps >= 4000 || self.out.failures.len() > 6 {
            if self.out.failures.is_empty() { self.out.failures.push("run does not terminate within 4000 steps".into()); }
            self.stuck = true;
            return None;
        }
        let mut t = self.chooser.choose(self.out.steps, &en, self.last);
        if !en.contains(&t) { t = en[0]; }
        self.out.sched.push(t);
        self.out.enabled.push(en);
        self.out.steps += 1;
        self.last = Some(t);
        self.progress += 1;
        Some(t)
    }
}

fn wait_turn(ctl: &Ctl, me: usize) {
    loop {
        {
            let g = ctl.m.lock().unwrap_or_else(|e| e.into_inner());
            if g.abort { drop(g); block_forever(); }
            if g.turn == Some(me) { return; }
        }
        std::thread::park();
    }
}

/// Thread `me` reached schedule point `id` (None: it finished its program).
fn arrive(ctl: &Ctl, me: usize, id: Option<u32>) {
    let mut g = ctl.m.lock().unwrap_or_else(|e| e.into_inner());
    match id {
        Some(p) => { g.th[me].parked = Some(p); g.th[me].lock_target = verif_sched::lock_target(); }
        None => { g.th[me].finished = true; g.th[me].parked = None; g.th[me].lock_target = 0; }
    }
    if !g.go {
        // start-up: report and wait for the first grant
        g.started += 1;
        ctl.cv.notify_all();
        drop(g);
        if id.is_some() { wait_turn(ctl, me); }
        return;
    }
    g.record_step(me);
    match g.schedule_next() {
        Some(t) if t == me => {}
        Some(t) => {
            g.turn = Some(t);
            let h = g.handles[t].clone();
            drop(g);
            if let Some(h) = h { h.unpark(); }
            if id.is_some() { wait_turn(ctl, me); }
        }
        None => {
            g.turn = None;
            g.done = true;
            ctl.cv.notify_all();
            drop(g);
            if id.is_some() { block_forever(); }
        }
    }
}

fn hook(id: u32) {
    let t = match TID.try_with(|c| c.get()) { Ok(Some(t)) => t, _ => return };
    let ctl = CURRENT.lock().unwrap_or_else(|e| e.into_inner()).clone();
    if let Some(ctl) = ctl { arrive(&ctl, t, Some(id)); }
}

struct Shared {
    tm: Arc<TokenManager>,
    lazy: Mutex<LazyFreeList>,
}

fn next_op(prog: &[Op], pc: usize, held: usize, cached: &[Option<TokInfo>; 2]) -> Option<Op> {
    if pc < prog.len() { Some(prog[pc]) }
    else if held > 0 { Some(Op::Drop(0)) }
    else if cached[0].is_some() || cached[1].is_some() { Some(Op::Clear) }
    else { None }
}

fn runner(t: usize, ctl: Arc<Ctl>, sh: Arc<Shared>, prog: Vec<Op>) {
    TID.with(|c| c.set(Some(t)));
    {
        let mut g = ctl.m.lock().unwrap_or_else(|e| e.into_inner());
        g.handles[t] = Some(std::thread::current());
    }
    let mut held: Vec<(Tok, TokInfo)> = vec![];
    let mut cached: [Option<TokInfo>; 2] = [None, None];
    let mut pc = 0usize;
    let upd = |ctl: &Ctl, f: &mut dyn FnMut(&mut ThRec)| {
        let mut g = ctl.m.lock().unwrap_or_else(|e| e.into_inner());
        f(&mut g.th[t]);
    };
    loop {
        let op = match next_op(&prog, pc, held.len(), &cached) { Some(o) => o, None => break };
        arrive(&ctl, t, Some(0));
        let vm = sh.tm.version_manager().clone();
        let r = guarded(|| {
            match op {
                Op::AcqR | Op::AcqW | Op::TmAcqR | Op::TmAcqW => {
                    let w = matches!(op, Op::AcqW | Op::TmAcqW);
                    let via_cache = matches!(op, Op::TmAcqR | Op::TmAcqW);
                    upd(&ctl, &mut |r| { r.slack = [0, 0]; r.slack[w as usize] = 1; r.freed_now.clear(); });
                    let hits0 = { let st = sh.tm.thread_cache_stats(); st.reader_cache_hits + st.writer_cache_hits };
                    let got: Option<Tok> = if w {
                        (if via_cache { sh.tm.acquire_writer_token() } else { vm.acquire_writer_token() }).ok().map(Tok::W)
                    } else {
                        (if via_cache { sh.tm.acquire_reader_token() } else { vm.acquire_reader_token() }).ok().map(Tok::R)
                    };
                    let hits1 = { let st = sh.tm.thread_cache_stats(); st.reader_cache_hits + st.writer_cache_hits };
                    if via_cache && hits1 > hits0 { cached[w as usize] = None; }   // the cached token was handed out
                    let c2 = cached;
                    match got {
                        Some(tok) => {
                            let inf = tok.info(0);
                            held.push((tok, inf));
                            let hi: Vec<TokInfo> = held.iter().map(|x| x.1).collect();
                            upd(&ctl, &mut |r| { r.held = hi.clone(); r.cached = c2; r.slack = [0, 0];
                                                 r.results.push(inf.version as i128); r.results.push(inf.minv as i128); });
                        }
                        None => upd(&ctl, &mut |r| { r.cached = c2; r.slack = [0, 0]; r.results.push(-1); r.results.push(-1); }),
                    }
                }
                Op::Drop(i) => {
                    if i < held.len() {
                        let (tok, inf) = held.remove(i);
                        let hi: Vec<TokInfo> = held.iter().map(|x| x.1).collect();
                        upd(&ctl, &mut |r| { r.held = hi.clone(); r.slack = [0, 0]; r.freed_now.clear();
                                             if inf.kind < 2 { r.slack[inf.kind as usize] = 1; } });
                        drop(tok);
                    }
                    upd(&ctl, &mut |r| { r.slack = [0, 0]; r.freed_now.clear(); });
                }
                Op::Ret(i) => {
                    if i < held.len() {
                        let (tok, inf) = held.remove(i);
                        let slot = if inf.kind == 1 { 1 } else { 0 };
                        let old = cached[slot];
                        cached[slot] = Some(inf);
                        let hi: Vec<TokInfo> = held.iter().map(|x| x.1).collect();
                        let c2 = cached;
                        upd(&ctl, &mut |r| { r.held = hi.clone(); r.cached = c2; r.slack = [0, 0]; r.freed_now.clear();
                                             if let Some(o) = old { if o.kind < 2 { r.slack[o.kind as usize] = 1; } } });
                        match tok { Tok::R(x) => sh.tm.return_reader_token(x), Tok::W(x) => sh.tm.return_writer_token(x) }
                    }
                    upd(&ctl, &mut |r| { r.slack = [0, 0]; r.freed_now.clear(); });
                }
                Op::Clear => {
                    let old = cached;
                    cached = [None, None];
                    upd(&ctl, &mut |r| { r.cached = [None, None]; r.slack = [0, 0]; r.freed_now.clear();
                                         for o in old.iter().flatten() { if o.kind < 2 { r.slack[o.kind as usize] += 1; } } });
                    sh.tm.clear_thread_cache();
                    upd(&ctl, &mut |r| { r.slack = [0, 0]; });
                }
                Op::Retire => {
                    let age = vm.current_version();
                    sh.lazy.lock().unwrap().push(LazyFreeItem::new(age, 0, 0));
                    upd(&ctl, &mut |r| { r.freed_now.clear(); });
                }
                Op::Reclaim => {
                    let m = vm.min_version();
                    let mut freed: Vec<u64> = vec![];
                    sh.lazy.lock().unwrap().process_safe_items(m, |it| freed.push(it.age));
                    upd(&ctl, &mut |r| {
                        r.results.push(1000 + freed.len() as i128);
                        for a in &freed { r.results.push(*a as i128); }
                        r.freed_now = freed.clone();
                    });
                }
            }
        });
        if let Err(p) = r {
            upd(&ctl, &mut |r| { r.panic = Some(p.clone()); });
            break;
        }
        if pc < prog.len() { pc += 1; }
    }
    // (after a panic whatever is still owned is released outside the schedule)
    TID.with(|c| c.set(None));
    drop(held);
    arrive(&ctl, t, None);
}

/// Runs `progs` on real threads against a fresh TokenManager of `level` under the chooser's schedule.
/// Returns what the code showed and what the oracle says.
fn run_conc(level: u8, progs: &[Vec<Op>], chooser: Chooser) -> RunOut {
    let n = progs.len();
    let sh = Arc::new(Shared { tm: Arc::new(TokenManager::new(level_of(level))), lazy: Mutex::new(LazyFreeList::new()) });
    let vm = sh.tm.version_manager().clone();
    let ctl = Arc::new(Ctl {
        m: Mutex::new(RunState {
            level, th: (0..n).map(|_| ThRec::default()).collect(), handles: vec![None; n], turn: None, started: 0, go: false,
            last: None, chooser, out: RunOut::default(), done: false, stuck: false, abort: false, progress: 0, vm: vm.clone(),
        }),
        cv: Condvar::new(),
    });
    *CURRENT.lock().unwrap_or_else(|e| e.into_inner()) = Some(ctl.clone());
    verif_sched::set_sched_hook(Some(Arc::new(hook)));
    let dangling0 = verif_sched::dangling_releases();
    let mut handles = vec![];
    for t in 0..n {
        let (c, s, p) = (ctl.clone(), sh.clone(), progs[t].clone());
        handles.push(std::thread::spawn(move || runner(t, c, s, p)));
    }
    let mut hung = false;
    {
        // wait for every thread to reach its first point, then hand out the baton
        let mut g = ctl.m.lock().unwrap_or_else(|e| e.into_inner());
        let start = Instant::now();
        while g.started < n {
            let (g2, _) = ctl.cv.wait_timeout(g, Duration::from_millis(500)).unwrap_or_else(|e| e.into_inner());
            g = g2;
            if start.elapsed() > Duration::from_secs(60) { hung = true; break; }
        }
        if !hung {
            g.go = true;
            match g.schedule_next() {
                Some(t) => {
                    g.turn = Some(t);
                    let h = g.handles[t].clone();
                    drop(g);
                    if let Some(h) = h { h.unpark(); }
                }
                None => { g.done = true; }
            }
        }
    }
    if !hung {
        let mut g = ctl.m.lock().unwrap_or_else(|e| e.into_inner());
        let mut seen = g.progress;
        let mut since = Instant::now();
        while !g.done {
            let (g2, _) = ctl.cv.wait_timeout(g, Duration::from_millis(500)).unwrap_or_else(|e| e.into_inner());
            g = g2;
            if g.progress != seen { seen = g.progress; since = Instant::now(); }
            else if since.elapsed() > Duration::from_secs(30) {
                let who = g.last;
                g.out.failures.push(format!("thread {:?} did not reach its next schedule point within 30 s (blocked outside the modelled points)", who));
                hung = true;
                break;
            }
        }
        if g.stuck { hung = true; }
    }
    let mut out;
    if hung {
        // abandon the threads: they stay parked for ever
        let mut g = ctl.m.lock().unwrap_or_else(|e| e.into_inner());
        g.abort = true;
        out = std::mem::take(&mut g.out);
        out.results = g.th.iter().map(|r| r.results.clone()).collect();
        drop(g);
        if out.failures.is_empty() { out.failures.push("threads did not start".into()); }
    } else {
        for h in handles { let _ = h.join(); }
        let mut g = ctl.m.lock().unwrap_or_else(|e| e.into_inner());
        out = std::mem::take(&mut g.out);
        out.results = g.th.iter().map(|r| r.results.clone()).collect();
        let clean = g.th.iter().all(|r| r.panic.is_none());
        if clean && (vm.active_readers() != 0 || vm.active_writers() != 0) {
            out.failures.push(format!("(iii) at quiescence active_readers = {}, active_writers = {}", vm.active_readers(), vm.active_writers()));
        }
    }
    if verif_sched::dangling_releases() != dangling0 {
        out.failures.push("(iv) a token release was aimed at a destroyed manager".into());
    }
    verif_sched::set_sched_hook(None);
    *CURRENT.lock().unwrap_or_else(|e| e.into_inner()) = None;
    out.failures.dedup();
    out
}

// ------------------------------------------------------------------------------------------------
// cases
// ------------------------------------------------------------------------------------------------
fn conc_case_json(level: u8, progs: &[Vec<Op>], sched: &[usize]) -> Value {
    let mut ops = vec![];
    for (t, p) in progs.iter().enumerate() {
        for o in p { ops.push(json!([t, o.name(), o.arg()])); }
    }
    json!({"cell": format!("conc/L{}", level), "level": level, "threads": progs.len(), "ops": ops, "sched": sched})
}

fn coq_conc(level: u8, progs: &[Vec<Op>], o: &RunOut) -> String {
    let ps: Vec<String> = progs.iter().map(|p| format!("[{}]", p.iter().map(|x| x.coq()).collect::<Vec<_>>().join("; "))).collect();
    let sched: Vec<String> = o.sched.iter().map(|t| format!("{}%nat", t)).collect();
    let tr: Vec<String> = o.trace.iter().map(|x| format!("({}, {}, {}, {}, {})", x.0, x.1, x.2, x.3, x.4)).collect();
    let rs: Vec<String> = o.results.iter().map(|r| coq_z_list(r.iter().cloned())).collect();
    format!("inl ({}%N, [{}], [{}], [{}]%N, [{}])", level, ps.join("; "), sched.join("; "), tr.join("; "), rs.join("; "))
}

struct Ctx {
    sum: Summary,
    shards: CoqShards,
    coq_budget: usize,
    rng: Rng,
    runs: u64,
}

impl Ctx {
    /// One controlled run; bookkeeping, oracle verdict, optional emission to Coq.
    fn conc(&mut self, level: u8, progs: &[Vec<Op>], chooser: Chooser, to_coq: bool) -> RunOut {
        let o = run_conc(level, progs, chooser);
        self.runs += 1;
        let cell = format!("conc/L{}", level);
        let cj = conc_case_json(level, progs, &o.sched);
        let switches = o.sched.windows(2).filter(|w| w[0] != w[1]).count();
        self.sum.eval(&cell, &cj.to_string(), switches >= 2 && level >= 1);
        self.sum.dist_max("max_steps_in_a_run", o.steps as u64);
        self.sum.dist_max("max_context_switches_in_a_run", switches as u64);
        if o.max_writers >= 1 { self.sum.dist("runs_with_a_writer_token_held"); }
        if o.results.iter().any(|r| r.contains(&-1)) { self.sum.dist("runs_with_a_refused_writer"); }
        if o.results.iter().flatten().any(|&x| x > 1000 && x < 2000) { self.sum.dist("runs_where_reclaim_freed_items"); }
        for f in &o.failures {
            self.sum.fail(&cell, None, cj.clone(), f);
        }
        if (to_coq || !o.failures.is_empty()) && self.shards.len() < self.coq_budget && !o.failures.iter().any(|f| f.contains("deadlock") || f.contains("did not") || f.contains("panic")) {
            let mut c = cj.clone();
            c["impl_trace"] = json!(o.trace.iter().map(|x| vec![x.0 as u64, x.1, x.2, x.3, x.4]).collect::<Vec<_>>());
            c["impl_results"] = json!(o.results.iter().map(|r| r.iter().map(|x| x.to_string()).collect::<Vec<_>>()).collect::<Vec<_>>());
            self.shards.push(coq_conc(level, progs, &o), c);
        }
        o
    }

    /// All schedules of `progs` with at most `max_pre` pre-emptions (None = all), up to `budget` runs.
    fn explore(&mut self, level: u8, progs: &[Vec<Op>], max_pre: Option<usize>, budget: usize, coq_every: usize) -> usize {
        let mut stack: Vec<Vec<usize>> = vec![vec![]];
        let mut runs = 0usize;
        while let Some(prefix) = stack.pop() {
            if runs >= budget { self.sum.dist("explorations_cut_by_budget"); break; }
            let pl = prefix.len();
            let o = self.conc(level, progs, Chooser::Prefix(prefix), coq_every > 0 && runs % coq_every == 0);
            runs += 1;
            // pre-emptions along the executed schedule
            let mut pre = vec![0usize; o.sched.len() + 1];
            for j in 0..o.sched.len() {
                let p = if j > 0 && o.sched[j] != o.sched[j - 1] && o.enabled[j].contains(&o.sched[j - 1]) { 1 } else { 0 };
                pre[j + 1] = pre[j] + p;
            }
            for i in pl..o.sched.len() {
                for &a in &o.enabled[i] {
                    if a == o.sched[i] { continue; }
                    let extra = if i > 0 && a != o.sched[i - 1] && o.enabled[i].contains(&o.sched[i - 1]) { 1 } else { 0 };
                    if let Some(mp) = max_pre { if pre[i] + extra > mp { continue; } }
                    let mut p = o.sched[..i].to_vec();
                    p.push(a);
                    stack.push(p);
                }
            }
        }
        runs
    }
}

fn parse_ops(c: &Value, threads: usize) -> Vec<Vec<Op>> {
    let mut progs = vec![vec![]; threads];
    if let Some(a) = c["ops"].as_array() {
        for e in a {
            let t = e[0].as_u64().unwrap_or(0) as usize;
            let name = e[1].as_str().unwrap_or("");
            let arg = e[2].as_u64().unwrap_or(0) as usize;
            if let (true, Some(op)) = (t < threads, Op::parse(name, arg)) { progs[t].push(op); }
        }
    }
    progs
}

fn replay_conc(cx: &mut Ctx, c: &Value) {
    let level = c["level"].as_u64().unwrap_or(3) as u8;
    let threads = (c["threads"].as_u64().unwrap_or(2) as usize).clamp(1, 4);
    let progs = parse_ops(c, threads);
    let sched: Vec<usize> = c["sched"].as_array().map(|a| a.iter().map(|x| x.as_u64().unwrap_or(0) as usize).collect()).unwrap_or_default();
    // follow the recorded schedule where it is still executable (a shrunk case may skip entries)
    cx.conc(level, &progs, Chooser::Replay(sched, 0), true);
}

// ------------------------------------------------------------------------------------------------
// sequential histories over several managers
// ------------------------------------------------------------------------------------------------
#[derive(Clone, Copy, PartialEq, Debug)]
enum SOp { NewTm(u8), NewVm(u8), AcqR(usize), AcqW(usize), TmAcqR(usize), TmAcqW(usize), Ret(usize, usize), Drop(usize), Clear, DropMgr(usize) }
impl SOp {
    fn json(&self) -> Value {
        match *self {
            SOp::NewTm(l) => json!(["NewTm", l, 0]), SOp::NewVm(l) => json!(["NewVm", l, 0]),
            SOp::AcqR(m) => json!(["AcqR", m, 0]), SOp::AcqW(m) => json!(["AcqW", m, 0]),
            SOp::TmAcqR(m) => json!(["TmAcqR", m, 0]), SOp::TmAcqW(m) => json!(["TmAcqW", m, 0]),
            SOp::Ret(i, m) => json!(["Ret", i, m]), SOp::Drop(i) => json!(["Drop", i, 0]),
            SOp::Clear => json!(["Clear", 0, 0]), SOp::DropMgr(m) => json!(["DropMgr", m, 0]),
        }
    }
    fn parse(e: &Value) -> Option<SOp> {
        let a = e[1].as_u64().unwrap_or(0) as usize;
        let b = e[2].as_u64().unwrap_or(0) as usize;
        Some(match e[0].as_str()? {
            "NewTm" => SOp::NewTm(a as u8), "NewVm" => SOp::NewVm(a as u8),
            "AcqR" => SOp::AcqR(a), "AcqW" => SOp::AcqW(a), "TmAcqR" => SOp::TmAcqR(a), "TmAcqW" => SOp::TmAcqW(a),
            "Ret" => SOp::Ret(a, b), "Drop" => SOp::Drop(a), "Clear" => SOp::Clear, "DropMgr" => SOp::DropMgr(a),
            _ => return None,
        })
    }
    fn coq(&self) -> String {
        match *self {
            SOp::NewTm(l) => format!("SNew true {}", l), SOp::NewVm(l) => format!("SNew false {}", l),
            SOp::AcqR(m) => format!("SAcq false KR {}%nat", m), SOp::AcqW(m) => format!("SAcq false KW {}%nat", m),
            SOp::TmAcqR(m) => format!("SAcq true KR {}%nat", m), SOp::TmAcqW(m) => format!("SAcq true KW {}%nat", m),
            SOp::Ret(i, _) => format!("SRet {}%nat", i), SOp::Drop(i) => format!("SDrop {}%nat", i),
            SOp::Clear => "SClear".into(), SOp::DropMgr(m) => format!("SDropMgr {}%nat", m),
        }
    }
}

enum Mgr { Tm(TokenManager), Vm(Box<VersionManager>) }
impl Mgr {
    fn vm(&self) -> &VersionManager { match self { Mgr::Tm(t) => t.version_manager(), Mgr::Vm(v) => v } }
}

struct SeqOut { failures: Vec<(Option<&'static str>, String)>, obs: Vec<Vec<i128>>, dangling_shadow: bool, cross_shadow: bool }

/// Runs a sequential history on a fresh thread (fresh thread-local cache).
fn run_seq(ops: &[SOp], leave: bool) -> SeqOut {
    let ops = ops.to_vec();
    let d_before = verif_sched::dangling_releases();
    let h = std::thread::spawn(move || {
        let mut out = SeqOut { failures: vec![], obs: vec![], dangling_shadow: false, cross_shadow: false };
        let mut mgrs: Vec<Option<Mgr>> = vec![];
        let mut levels: Vec<u8> = vec![];
        let mut held: Vec<(Tok, TokInfo)> = vec![];
        let mut cached: [Option<TokInfo>; 2] = [None, None];
        let d0 = verif_sched::dangling_releases();
        let mut seen_dangling = 0u64;
        let helper = TokenManager::new(ConcurrencyLevel::SingleThreadStrict);
        let nops = ops.len();
        // epilogue: release what is still owned, then the managers
        let mut all: Vec<Option<SOp>> = ops.iter().cloned().map(Some).collect();
        all.push(None);
        for (step, op) in all.into_iter().enumerate() {
            let mut o: Vec<i128> = vec![];
            let r = guarded(|| {
                let alive = |m: usize, mgrs: &Vec<Option<Mgr>>| -> Option<usize> {
                    if mgrs.is_empty() { return None; }
                    let m = m % mgrs.len();
                    if mgrs[m].is_some() { Some(m) } else { None }
                };
                match op {
                    Some(SOp::NewTm(l)) => { mgrs.push(Some(Mgr::Tm(TokenManager::new(level_of(l))))); levels.push(l.min(4)); }
                    Some(SOp::NewVm(l)) => { mgrs.push(Some(Mgr::Vm(Box::new(VersionManager::new(level_of(l)))))); levels.push(l.min(4)); }
                    Some(SOp::AcqR(m)) | Some(SOp::AcqW(m)) | Some(SOp::TmAcqR(m)) | Some(SOp::TmAcqW(m)) => {
                        if let Some(m) = alive(m, &mgrs) {
                            let w = matches!(op, Some(SOp::AcqW(_)) | Some(SOp::TmAcqW(_)));
                            let mut via = matches!(op, Some(SOp::TmAcqR(_)) | Some(SOp::TmAcqW(_)));
                            let mg = mgrs[m].as_ref().unwrap();
                            if let Mgr::Vm(_) = mg { via = false; }
                            let slot = w as usize;
                            let hits0 = { let st = helper.thread_cache_stats(); st.reader_cache_hits + st.writer_cache_hits };
                            let got: Option<Tok> = match (mg, via, w) {
                                (Mgr::Tm(t), true, false) => t.acquire_reader_token().ok().map(Tok::R),
                                (Mgr::Tm(t), true, true) => t.acquire_writer_token().ok().map(Tok::W),
                                (_, _, false) => mg.vm().acquire_reader_token().ok().map(Tok::R),
                                (_, _, true) => mg.vm().acquire_writer_token().ok().map(Tok::W),
                            };
                            let hits1 = { let st = helper.thread_cache_stats(); st.reader_cache_hits + st.writer_cache_hits };
                            // a cache hit hands out the cached token (whoever issued it)
                            let from_cache: Option<TokInfo> = if hits1 > hits0 { cached[slot].take() } else { None };
                            match got {
                                Some(tok) => {
                                    let mut inf = tok.info(m);
                                    if let Some(c) = from_cache {
                                        inf.issuer = c.issuer;
                                        if c.issuer != m { out.cross_shadow = true; }
                                    }
                                    inf.handed_by = m;
                                    // a manager that synchronises (any level but NoWriteReadOnly) counts every token it hands out and
                                    // keeps min_version at or below its version; a read-only token (no manager state, version 0, never
                                    // counted, never released) handed out by such a manager is a live token the manager cannot see
                                    if inf.kind == 2 && levels[m] != 0 {
                                        out.failures.push((None, format!("(ii)/(iii) step {}: manager {} (level {}) handed out a read-only token of version {} that it neither counts nor protects (min_version {})", step, m, levels[m], inf.version, mg.vm().min_version())));
                                    }
                                    o.push(inf.version as i128);
                                    held.push((tok, inf));
                                }
                                None => o.push(-1),
                            }
                        }
                    }
                    Some(SOp::Ret(i, m)) => {
                        if i < held.len() {
                            let tm: &TokenManager = match alive(m, &mgrs).and_then(|m| mgrs[m].as_ref()) { Some(Mgr::Tm(t)) => t, _ => &helper };
                            let (tok, inf) = held.remove(i);
                            let slot = if inf.kind == 1 { 1 } else { 0 };
                            if let Some(old) = cached[slot] { if old.kind < 2 && mgrs[old.issuer].is_none() { out.dangling_shadow = true; } }
                            cached[slot] = Some(inf);
                            match tok { Tok::R(x) => tm.return_reader_token(x), Tok::W(x) => tm.return_writer_token(x) }
                        }
                    }
                    Some(SOp::Drop(i)) => {
                        if i < held.len() {
                            let (tok, inf) = held.remove(i);
                            if inf.kind < 2 && mgrs[inf.issuer].is_none() { out.dangling_shadow = true; }
                            drop(tok);
                        }
                    }
                    Some(SOp::Clear) => {
                        for c in cached.iter().flatten() { if c.kind < 2 && mgrs[c.issuer].is_none() { out.dangling_shadow = true; } }
                        cached = [None, None];
                        helper.clear_thread_cache();
                    }
                    Some(SOp::DropMgr(m)) => {
                        if let Some(m) = alive(m, &mgrs) { mgrs[m] = None; }
                    }
                    None => {
                        for (_, inf) in held.iter() { if inf.kind < 2 && mgrs[inf.issuer].is_none() { out.dangling_shadow = true; } }
                        for c in cached.iter().flatten() { if c.kind < 2 && mgrs[c.issuer].is_none() { out.dangling_shadow = true; } }
                        held.clear();
                        if !leave {
                            cached = [None, None];
                            helper.clear_thread_cache();
                        }
                    }
                }
            });
            if let Err(p) = r { out.failures.push((None, format!("panic at step {}: {}", step, p))); break; }
            // (iv)
            let d = verif_sched::dangling_releases() - d0;
            if d > seen_dangling {
                seen_dangling = d;
                out.failures.push((None, format!("(iv) step {}: a token was released after the manager that issued it had been destroyed (the release dereferences a dangling pointer)", step)));
            }
            // (i), (iii) per live manager, at this operation boundary
            for (m, mg) in mgrs.iter().enumerate() {
                let mg = match mg { Some(x) => x, None => { o.push(-2); continue; } };
                let vm = mg.vm();
                let (cur, min, ar, aw) = (vm.current_version(), vm.min_version(), vm.active_readers(), vm.active_writers());
                o.extend_from_slice(&[cur as i128, min as i128, ar as i128, aw as i128]);
                let mut handed = [0u64; 2];
                let mut maybe = [0u64; 2];
                for (_, h) in held.iter() {
                    if h.handed_by == m && h.kind < 2 {
                        handed[h.kind as usize] += 1;
                        if h.issuer == m && min > h.version {
                            out.failures.push((None, format!("(ii) step {}: manager {} min_version {} exceeds held version {}", step, m, min, h.version)));
                        }
                    }
                }
                for c in cached.iter().flatten() { if c.kind < 2 { maybe[c.kind as usize] += 1; } }
                let cross = held.iter().any(|(_, h)| h.handed_by == m && h.issuer != m);
                let cls: Option<&'static str> = None;
                let _ = cross;
                if levels[m] == 3 && handed[1] > 1 {
                    out.failures.push((cls, format!("(i) step {}: manager {} (OneWriteMultiRead) has handed out {} writer tokens that are all still held", step, m, handed[1])));
                }
                for (k, name, c) in [(0usize, "active_readers", ar), (1usize, "active_writers", aw)] {
                    if c < handed[k] || c > handed[k] + maybe[k] + held.iter().filter(|(_, h)| h.issuer == m && h.handed_by != m && h.kind as usize == k).count() as u64 {
                        out.failures.push((cls, format!("(iii) step {}: manager {} reports {} = {} but {} tokens handed out by it are held (at most {} more cached)", step, m, name, c, handed[k], maybe[k])));
                    }
                }
                if step == nops && !leave && (ar != 0 || aw != 0) {
                    out.failures.push((None, format!("(iii) manager {} at quiescence: active_readers = {}, active_writers = {}", m, ar, aw)));
                }
            }
            out.obs.push(o);
            if out.failures.len() > 6 { break; }
        }
        drop(held);
        if !leave { helper.clear_thread_cache(); }
        drop(mgrs);
        // with `leave`, tokens still in the thread-local cache are released by its destructor at thread
        // exit, after every manager of the history is gone
        (out, verif_sched::dangling_releases())
    });
    match h.join() {
        Ok((mut o, d_in)) => {
            if verif_sched::dangling_releases() != d_in {
                o.failures.push((None, "(iv) at thread exit a cached token was released after the manager that issued it had been destroyed".into()));
            }
            let _ = d_before;
            o
        }
        Err(_) => SeqOut { failures: vec![(None, "history thread panicked".into())], obs: vec![], dangling_shadow: false, cross_shadow: false },
    }
}

fn seq_case_json(ops: &[SOp], leave: bool) -> Value {
    json!({"cell": "seq", "leave": leave, "ops": ops.iter().map(|o| o.json()).collect::<Vec<_>>()})
}

impl Ctx {
    fn seq(&mut self, ops: &[SOp], leave: bool, to_coq: bool) {
        let o = run_seq(ops, leave);
        let cj = seq_case_json(ops, leave);
        if leave { self.sum.dist("seq_histories_leaving_tokens_to_the_thread_exit_destructor"); }
        let nm = ops.iter().filter(|x| matches!(x, SOp::NewTm(_) | SOp::NewVm(_))).count();
        self.sum.eval("seq", &cj.to_string(), nm >= 2 && ops.len() >= 5);
        if o.dangling_shadow { self.sum.dist("seq_histories_releasing_after_manager_drop"); }
        if o.cross_shadow { self.sum.dist("seq_histories_with_cache_hit_across_managers"); }
        for (cls, f) in &o.failures {
            self.sum.fail("seq", *cls, cj.clone(), f);
        }
        if (to_coq || !o.failures.is_empty()) && self.shards.len() < self.coq_budget && !o.failures.iter().any(|f| f.1.contains("panic")) {
            let mut c = cj.clone();
            c["impl_obs"] = json!(o.obs.iter().map(|r| r.iter().map(|x| x.to_string()).collect::<Vec<_>>()).collect::<Vec<_>>());
            let term = format!("inr ({}, [{}], [{}])", coq_bool(leave),
                ops.iter().map(|x| x.coq()).collect::<Vec<_>>().join("; "),
                o.obs.iter().map(|r| coq_z_list(r.iter().cloned())).collect::<Vec<_>>().join("; "));
            self.shards.push(term, c);
        }
    }
}

fn rand_seq(r: &mut Rng) -> Vec<SOp> {
    let mut ops = vec![];
    let nm = r.range(1, 3) as usize;
    let lv = |r: &mut Rng| *r.pick(&[3u8, 3, 4, 2, 1, 0]);
    ops.push(if r.chance(3, 4) { SOp::NewTm(lv(r)) } else { SOp::NewVm(lv(r)) });
    let n = r.range(3, 12);
    let mut made = 1;
    for _ in 0..n {
        let m = r.below(made as u64) as usize;
        let op = match r.below(14) {
            0 | 1 => SOp::TmAcqR(m), 2 | 3 => SOp::TmAcqW(m), 4 => SOp::AcqR(m), 5 => SOp::AcqW(m),
            6 | 7 => SOp::Ret(r.below(3) as usize, m), 8 | 9 => SOp::Drop(r.below(3) as usize),
            10 => SOp::Clear,
            11 => SOp::DropMgr(m),
            _ => if made < nm { made += 1; if r.chance(3, 4) { SOp::NewTm(lv(r)) } else { SOp::NewVm(lv(r)) } } else { SOp::TmAcqW(m) },
        };
        ops.push(op);
    }
    ops
}

// ------------------------------------------------------------------------------------------------
// generators for the concurrent cell
// ------------------------------------------------------------------------------------------------
fn fixed_programs() -> Vec<(&'static str, Vec<Vec<Op>>, Option<usize>)> {
    use Op::*;
    vec![
        // two writers race for admission: every interleaving
        ("w|w", vec![vec![AcqW], vec![AcqW]], None),
        ("r|w", vec![vec![AcqR], vec![AcqW]], None),
        ("wd|wd", vec![vec![AcqW, Drop(0)], vec![AcqW, Drop(0)]], Some(2)),
        // a release racing with acquisitions: min_version must not overtake
        ("rrdd|rd", vec![vec![AcqR, AcqR, Drop(0), Drop(0)], vec![AcqR, Drop(0)]], Some(2)),
        ("rd|rr", vec![vec![AcqR, Drop(0)], vec![AcqR, AcqR]], Some(3)),
        ("rd|wd", vec![vec![AcqR, Drop(0)], vec![AcqW, Drop(0)]], Some(2)),
        ("rd|rd|rd", vec![vec![AcqR, Drop(0)], vec![AcqR, Drop(0)], vec![AcqR, Drop(0)]], Some(2)),
        ("w|w|w", vec![vec![AcqW], vec![AcqW], vec![AcqW]], Some(2)),
        // retire / reclaim against a reader
        ("w ret d rec|rd", vec![vec![AcqW, Retire, Drop(0), Reclaim], vec![AcqR, Reclaim, Drop(0)]], Some(2)),
        ("rd retire reclaim|r r", vec![vec![AcqR, Drop(0), Retire, Reclaim], vec![AcqR, AcqR]], Some(2)),
        // thread cache
        ("tm w ret w|tm w d", vec![vec![TmAcqW, Ret(0), TmAcqW, Ret(0), Clear], vec![TmAcqW, Drop(0)]], Some(2)),
        ("tm r ret r ret|r d", vec![vec![TmAcqR, Ret(0), AcqR, Ret(0)], vec![TmAcqR, Drop(0)]], Some(2)),
    ]
}

fn rand_prog(r: &mut Rng, len: usize, cache: bool) -> Vec<Op> {
    let mut p = vec![];
    let mut holding = 0usize;
    for _ in 0..len {
        let c = r.below(if cache { 12 } else { 8 });
        let op = match c {
            0 | 1 => { holding += 1; Op::AcqR }
            2 | 3 => { holding += 1; Op::AcqW }
            4 | 5 => if holding > 0 { holding -= 1; Op::Drop(r.below(holding as u64 + 1) as usize) } else { holding += 1; Op::AcqR },
            6 => Op::Retire,
            7 => Op::Reclaim,
            8 => { holding += 1; Op::TmAcqR }
            9 => { holding += 1; Op::TmAcqW }
            10 => if holding > 0 { holding -= 1; Op::Ret(r.below(holding as u64 + 1) as usize) } else { Op::Clear },
            _ => Op::Clear,
        };
        p.push(op);
    }
    p
}

pub fn run(args: &Args) {
    let mut cx = Ctx {
        sum: Summary::new("C16", "real threads parked at schedule hooks before every shared access of acquire/release/try_advance; all schedules with a bounded number of pre-emptions (all schedules for the single-operation races) of fixed 2-3 thread programs at every ConcurrencyLevel, random programs under random schedules, sequential histories over 1-3 managers with cached tokens and manager drops; a concurrent run is non-trivial when it has >= 2 context switches at a level that tracks versions, a sequential one when it has >= 2 managers and >= 5 operations; distinct = distinct (programs, executed schedule)"),
        shards: CoqShards::new(HEADER, 300),
        coq_budget: if args.thorough { 6000 } else { 1200 },
        rng: Rng::new(args.seed),
        runs: 0,
    };
    for l in 0..5u8 { cx.sum.cell_status(&format!("conc/L{}", l), "M+S"); }
    cx.sum.cell_status("seq", "M+S");
    if let Some(f) = &args.replay {
        let txt = std::fs::read_to_string(f).expect("replay file");
        let v: Value = serde_json::from_str(&txt).expect("replay json");
        let c = if v.get("case").is_some() { v["case"].clone() } else { v };
        run_case(&mut cx, &c);
        let sh = cx.shards.write(&args.out);
        cx.sum.write(&args.out, sh);
        return;
    }
    let t0 = Instant::now();
    // 1. corpus
    if let Ok(rd) = std::fs::read_dir("corpus/C16") {
        let mut files: Vec<_> = rd.filter_map(|e| e.ok()).map(|e| e.path()).filter(|p| p.extension().map_or(false, |e| e == "json")).collect();
        files.sort();
        for p in files {
            if let Ok(txt) = std::fs::read_to_string(&p) {
                if let Ok(v) = serde_json::from_str::<Value>(&txt) {
                    let c = if v.get("case").is_some() { v["case"].clone() } else { v };
                    run_case(&mut cx, &c);
                    cx.sum.dist("corpus_cases");
                }
            }
        }
    }
    // 2. enumerated schedules of fixed programs at every level
    let total_coq = cx.coq_budget;
    cx.coq_budget = total_coq * 5 / 12;
    let per_prog = if args.thorough { 15000 } else { 1500 };
    for (name, progs, bound) in fixed_programs() {
        for level in [3u8, 4, 2, 1, 0] {
            let bound = match (bound, args.thorough) { (Some(b), true) => Some(b + 1), (b, _) => b };
            let n = cx.explore(level, &progs, bound, per_prog, if args.thorough { 40 } else { 30 });
            cx.sum.dist_max(&format!("schedules[{}]L{}", name, level), n as u64);
        }
    }
    cx.sum.sample(json!({"kind": "enumerated schedules", "programs": fixed_programs().iter().map(|x| x.0).collect::<Vec<_>>()}));
    // 3. random programs, random schedules
    cx.coq_budget = total_coq * 9 / 12;
    let nrand = if args.thorough { 400000 } else { 8000 };
    // the random phases also stop on a wall-clock budget (every case is still derived from the seed
    // in order, so a failing case replays from its replay file whatever the machine speed was)
    let (t_rand, t_seq) = if args.thorough { (1000u64, 1300u64) } else { (70u64, 95u64) };
    for k in 0..nrand {
        if t0.elapsed().as_secs() > t_rand { cx.sum.dist("random_phase_cut_by_time"); break; }
        let mut r = Rng::new(cx.rng.next());
        let level = *r.pick(&[3u8, 3, 3, 4, 4, 2, 1, 0]);
        let nt = if r.chance(1, 3) { 3 } else { 2 };
        let cache = r.chance(1, 3);
        let progs: Vec<Vec<Op>> = (0..nt).map(|_| { let len = r.range(1, 4) as usize; rand_prog(&mut r, len, cache) }).collect();
        // switch probability per step: mostly rare switches (few pre-emptions), sometimes frantic
        let den = *r.pick(&[2u64, 4, 8, 8, 16]);
        let o = cx.conc(level, &progs, Chooser::Random(Rng::new(r.next()), den), k % 10 == 0);
        if k < 3 { cx.sum.sample(json!({"kind": "random", "case": conc_case_json(level, &progs, &o.sched)})); }
    }
    // 4. sequential histories over several managers
    cx.coq_budget = total_coq;
    // 4a. every history of a fixed length over two OneWriteMultiRead TokenManagers and the alphabet
    //     {acquire reader/writer through the cache on either manager, return / drop the oldest held
    //      token, clear the cache, drop either manager}
    {
        let alphabet = [SOp::TmAcqR(0), SOp::TmAcqR(1), SOp::TmAcqW(0), SOp::TmAcqW(1), SOp::Ret(0, 0), SOp::Drop(0),
                        SOp::Clear, SOp::DropMgr(0), SOp::DropMgr(1)];
        let len = if args.thorough { 5 } else { 4 };
        let total = alphabet.len().pow(len as u32);
        for code in 0..total {
            let mut ops = vec![SOp::NewTm(3), SOp::NewTm(3)];
            let mut c = code;
            for _ in 0..len { ops.push(alphabet[c % alphabet.len()]); c /= alphabet.len(); }
            cx.seq(&ops, code % 3 == 0, code % 97 == 0);
        }
        cx.sum.dist_max("enumerated_sequential_histories", total as u64);
    }
    // 4b. two TokenManagers of EVERY pair of concurrency levels (the thread-local token cache is shared by all managers of a
    //     thread; read-only managers hand out tokens that carry no manager state): every history of a fixed length over
    //     {acquire reader / writer through the cache on either manager, return or drop the oldest held token}
    {
        let alphabet = [SOp::TmAcqR(0), SOp::TmAcqW(0), SOp::TmAcqR(1), SOp::TmAcqW(1), SOp::Ret(0, 0), SOp::Drop(0)];
        let len = if args.thorough { 5 } else { 4 };
        let total = alphabet.len().pow(len as u32);
        for l1 in 0..5u8 { for l2 in 0..5u8 {
            if l1 == 3 && l2 == 3 { continue; } // covered by 4a
            for code in 0..total {
                let mut ops = vec![SOp::NewTm(l1), SOp::NewTm(l2)];
                let mut c = code;
                for _ in 0..len { ops.push(alphabet[c % alphabet.len()]); c /= alphabet.len(); }
                cx.seq(&ops, code % 3 == 0, code % 211 == 0);
            }
        } }
        cx.sum.dist_max("enumerated_cross_level_histories", (24 * total) as u64);
    }
    // 4c. the lazy free list on its own: queues longer than one and two bulk thresholds, reclaimed at every cut point
    lazy_cells(&mut cx, args.thorough);
    let nseq = if args.thorough { 300000 } else { 5000 };
    for k in 0..nseq {
        if t0.elapsed().as_secs() > t_seq { cx.sum.dist("sequential_phase_cut_by_time"); break; }
        let mut r = Rng::new(cx.rng.next());
        let ops = rand_seq(&mut r);
        let leave = r.chance(1, 4);
        cx.seq(&ops, leave, k % 10 == 0);
        if k < 2 { cx.sum.sample(seq_case_json(&ops, leave)); }
    }
    cx.sum.dist_max("controlled_runs", cx.runs);
    cx.sum.dist_max("harness_wall_ms", t0.elapsed().as_millis() as u64);
    let sh = cx.shards.write(&args.out);
    cx.sum.write(&args.out, sh);
}

/// LazyFreeList alone (oracle-only cell): items are pushed with non-decreasing ages (they are retired at the current version),
/// `process_safe_items(min_version)` may hand an item to the free callback only if its age is below `min_version` - i.e. no
/// token of that version or older can still see it -, hands them out oldest first, loses none and reports how many it freed.
fn lazy_case(cx: &mut Ctx, threshold: u64, script: &[(u64, u64)]) {
    let cell = "lazy_free_list";
    let cj = json!({"cell": "lazy", "threshold": threshold, "script": script.iter().map(|(a, b)| json!([a, b])).collect::<Vec<_>>()});
    cx.sum.eval(cell, &cj.to_string(), script.len() >= 3);
    let r = guarded(|| -> Option<String> {
        let mut l = if threshold == u64::MAX { LazyFreeList::new() } else { LazyFreeList::with_bulk_threshold(threshold as usize) };
        let mut shadow: std::collections::VecDeque<(u64, u32)> = Default::default();
        let mut next_id = 0u32;
        for (step, &(op, v)) in script.iter().enumerate() {
            if op == 0 {
                l.push(LazyFreeItem::new(v, next_id, 8)); shadow.push_back((v, next_id)); next_id += 1;
            } else {
                let mut freed: Vec<(u64, u32)> = vec![];
                let n = l.process_safe_items(v, |it| freed.push((it.age, it.memory_offset)));
                if n != freed.len() { return Some(format!("step {}: process_safe_items({}) returned {} but freed {} items", step, v, n, freed.len())); }
                for f in &freed {
                    if f.0 >= v { return Some(format!("step {}: item of age {} was freed although min_version is {} (a token of version {} may still see it)", step, f.0, v, v)); }
                    match shadow.pop_front() { Some(x) if x == *f => {}, other => return Some(format!("step {}: freed item {:?} is not the oldest queued item {:?}", step, f, other)) }
                }
            }
            if l.len() != shadow.len() || l.is_empty() != shadow.is_empty() { return Some(format!("step {}: len() = {} but {} items are queued", step, l.len(), shadow.len())); }
        }
        // drain: with no version left to protect them, repeated processing must eventually free everything, in order
        let mut rounds = 0;
        while !shadow.is_empty() && rounds < 10_000 {
            let mut freed: Vec<(u64, u32)> = vec![];
            l.process_safe_items(u64::MAX, |it| freed.push((it.age, it.memory_offset)));
            if freed.is_empty() { return Some(format!("drain: {} items are queued, none can be seen any more, yet nothing is freed", shadow.len())); }
            for f in &freed { match shadow.pop_front() { Some(x) if x == *f => {}, other => return Some(format!("drain: freed item {:?} is not the oldest queued item {:?}", f, other)) } }
            rounds += 1;
        }
        if !l.is_empty() { return Some("drain: the list is not empty at the end".into()); }
        None
    });
    match r {
        Err(p) => cx.sum.fail(cell, None, cj, &format!("panicked: {}", p)),
        Ok(Some(m)) => cx.sum.fail(cell, None, cj, &m),
        Ok(None) => {}
    }
}
fn lazy_cells(cx: &mut Ctx, thorough: bool) {
    cx.sum.cell_status("lazy_free_list", "S-only");
    for &th in &[u64::MAX, 0, 1, 2, 5, 32] {
        let t = if th == u64::MAX { 32 } else { th.max(1) } as u64;
        for &n in &[0u64, 1, t - 1 + (t == 1) as u64, t, t + 1, 2 * t - 1, 2 * t, 2 * t + 1, 3 * t + 7] {
            for step in [0u64, 1, 2] {
                // ages 10, 10+step, ...; one reclaim at each interesting cut, then more pushes and a second reclaim
                let ages: Vec<u64> = (0..n).map(|i| 10 + i * step).collect();
                let mut cuts: Vec<u64> = vec![0, 10, 11];
                for &i in &[0u64, t.saturating_sub(1), t, n.saturating_sub(t), n.saturating_sub(1)] { if (i as usize) < ages.len() { let a = ages[i as usize]; cuts.extend([a, a + 1]); } }
                cuts.push(u64::MAX);
                cuts.sort(); cuts.dedup();
                for (k, &c) in cuts.iter().enumerate() {
                    if !thorough && k % 2 == 1 && n > 2 * t { continue; }
                    let mut script: Vec<(u64, u64)> = ages.iter().map(|&a| (0, a)).collect();
                    script.push((1, c));
                    let last = ages.last().copied().unwrap_or(10);
                    script.extend((0..3).map(|j| (0, last + j)));
                    script.push((1, c.saturating_add(1)));
                    lazy_case(cx, th, &script);
                }
            }
        }
    }
    let nr = if thorough { 3000 } else { 300 };
    for _ in 0..nr {
        let mut r = Rng::new(cx.rng.next());
        let th = *r.pick(&[u64::MAX, 0, 1, 3, 8, 32]);
        let mut age = r.below(5);
        let mut script = vec![];
        for _ in 0..r.range(1, 120) {
            if r.chance(5, 6) { age += r.below(3); script.push((0, age)); }
            else { let c = if r.chance(1, 2) { age.saturating_sub(r.below(40)) } else { r.below(age + 3) }; script.push((1, c)); }
        }
        lazy_case(cx, th, &script);
    }
}

fn run_case(cx: &mut Ctx, c: &Value) {
    if c["cell"].as_str() == Some("lazy") {
        let script: Vec<(u64, u64)> = c["script"].as_array().map(|a| a.iter().map(|x| (x[0].as_u64().unwrap_or(0), x[1].as_u64().unwrap_or(0))).collect()).unwrap_or_default();
        lazy_case(cx, c["threshold"].as_u64().unwrap_or(u64::MAX), &script);
    } else if c["cell"].as_str() == Some("seq") {
        let ops: Vec<SOp> = c["ops"].as_array().map(|a| a.iter().filter_map(SOp::parse).collect()).unwrap_or_default();
        cx.seq(&ops, c["leave"].as_bool().unwrap_or(false), true);
    } else {
        replay_conc(cx, c);
    }
}
