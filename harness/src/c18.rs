//! C18: every accepted task runs exactly once; ordered collections keep their order.
//! M+S cells (Coq mechanism models, coq/C18/Model*.v): WorkStealingQueue histories, WorkStealingExecutor::submit, hook-driven
//! executor histories (with is_idle / queue-length observers), single-worker execution order with the counters;
//! FiberPool::spawn histories (semaphore), parallel_map / parallel_for_each / parallel_reduce (result, execution order,
//! call trace, statistics), concurrency::{parallel_map, join_all, parallel_reduce}, spawn_batch; Pipeline::process_batch / execute_single /
//! execute_two_stage (error identities, statistics), execute_stream (join loop), BatchCollector (also against the real clock);
//! the yielding loops of fiber_yield.rs, FiberIoUtils::batch_process and the `buffered` window of concurrent_with_yield /
//! process_files_parallel, AsyncMemoryBlobStore histories with put_batch / get_batch (c18_yield.rs).
//! S-only cells (direct oracle): the running executor on tokio runtimes, one queue under OS threads, BatchCollector with its
//! background checker on two threads.
use crate::util::*;
use serde_json::{json, Value};
use std::future::Future;
use std::pin::Pin;
use std::sync::atomic::{AtomicU32, Ordering};
use std::sync::Arc;
use std::time::{Duration, Instant};
use zipora::concurrency::async_blob_store::{AsyncBlobStore, AsyncMemoryBlobStore};
use zipora::concurrency::fiber_aio::FiberIoUtils;
use zipora::concurrency::fiber_pool::{FiberPool, FiberPoolConfig};
use zipora::concurrency::fiber_yield::{CooperativeUtils, YieldingIterator};
use zipora::concurrency::pipeline::{
    BatchCollector, BatchMapStage, MapStage, Pipeline, PipelineConfig, PipelineStage,
};
use zipora::concurrency::work_stealing::{ClosureTask, Task, WorkStealingExecutor, WorkStealingQueue};
use zipora::error::{Result as ZResult, ZiporaError};

/// `true` once the repository carries the pop_local repair (the model then uses the repaired pop_local).
const MODEL_FIXED: &str = "true";

fn header() -> String {
    format!(
        r#"From ZV.Common Require Import Base Run.
From ZV.C18 Require Import Model ModelCases.
Open Scope N_scope.
Definition case_t : Type := N * N * N * list Z * list Z.
Definition ok (c : case_t) : bool :=
  let '(kind, a, b, ops, expect) := c in eqb_lz (run_case2 {} kind a b ops) expect.
"#,
        MODEL_FIXED
    )
}

/// number of Coq case kinds (see coq/C18/ModelCases.v)
const NK: usize = 25;

struct Ctx {
    sum: Summary,
    shards: CoqShards,
    /// Coq evaluation budget per case kind (queue, submit, map, reduce, collector, ...)
    budget: [usize; NK],
    used: [usize; NK],
    rng: Rng,
    thorough: bool,
    /// how task objects are built in the queue / executor cells (recorded as "tk" in the case): 0 = the harness's own `Task`
    /// implementation, 1 = the library's `ClosureTask` (with_priority / with_stealable / with_estimated_duration), 2 = as 1, and
    /// tasks of priority 0 that may be stolen go through `submit_closure` where the cell has an executor
    tk: u8,
    /// objects that live as long as the run and are used by many cases (c18_wide.rs)
    objs: std::rc::Rc<wide::Objs>,
}

impl Ctx {
    fn coq(&mut self, kind: u32, a: u64, b: u64, ops: &[i64], obs: &[i64], case: &Value, force: bool) {
        // kinds 9 and 11 are the runs of kinds 2 and 3 compared with both models: same budget
        let k = match kind { 9 | 12 => 2, 11 => 3, 14 => 7, 16 => 6, 17 => 5, k => (k as usize).min(NK - 1) };
        if !force && self.used[k] >= self.budget[k] { return; }
        self.used[k] += 1;
        let term = format!(
            "({}, {}, {}, {}, {})",
            kind, a, b,
            coq_z_list(ops.iter().map(|&x| x as i128)),
            coq_z_list(obs.iter().map(|&x| x as i128))
        );
        let mut cj = case.clone();
        cj["impl_obs"] = json!(obs);
        self.shards.push(term, cj);
    }
}

// ---------------------------------------------------------------------------------------------
// tasks
// ---------------------------------------------------------------------------------------------

/// op code of a task: 1000 + 2*priority + stealable + 10000*behaviour
/// behaviour 0 = returns at once, 1 = yields once, 2 = sleeps 1 ms, 3 = returns Err, 4 = yields 3 times,
/// 5 = submits a child task (id = n + own id) to the same executor from inside the worker,
/// 6 = counts itself, then panics (inside the future), 7 = counts itself, then panics in the synchronous part of `execute`
/// (before a future exists)
fn code_prio(c: i64) -> u8 { (((c % 10000) - 1000) / 2) as u8 }
fn code_steal(c: i64) -> bool { ((c % 10000) - 1000) % 2 == 1 }
fn code_beh(c: i64) -> u8 { (c / 10000) as u8 }
fn is_task_code(c: i64) -> bool { c % 10000 >= 1000 && c % 10000 < 1512 && c >= 0 && c < 80000 }

struct CountTask {
    id: usize,
    prio: u8,
    steal: bool,
    beh: u8,
    counters: Arc<Vec<AtomicU32>>,
    /// for behaviour 5: the executor, the number of parent tasks, and the child's submit outcome (1 accepted, 2 rejected)
    nest: Option<(Arc<WorkStealingExecutor>, usize, Arc<Vec<AtomicU32>>)>,
}
impl Task for CountTask {
    fn execute(self: Box<Self>) -> Pin<Box<dyn Future<Output = ZResult<()>> + Send>> {
        if self.beh == 7 { self.counters[self.id].fetch_add(1, Ordering::SeqCst); panic!("task panicked before returning its future"); }
        Box::pin(async move {
            match self.beh {
                1 => tokio::task::yield_now().await,
                2 => tokio::time::sleep(Duration::from_millis(1)).await,
                4 => { for _ in 0..3 { tokio::task::yield_now().await; } }
                _ => {}
            }
            if self.beh == 5 {
                if let Some((ex, n, child)) = &self.nest {
                    let t = CountTask { id: n + self.id, prio: self.prio, steal: self.steal, beh: 0, counters: self.counters.clone(), nest: None };
                    let ok = ex.submit(Box::new(t)).is_ok();
                    child[self.id].store(if ok { 1 } else { 2 }, Ordering::SeqCst);
                }
            }
            self.counters[self.id].fetch_add(1, Ordering::SeqCst);
            if self.beh == 6 { panic!("task panicked"); }
            if self.beh == 3 { Err(ZiporaError::configuration("task failed")) } else { Ok(()) }
        })
    }
    fn priority(&self) -> u8 { self.prio }
    fn is_stealable(&self) -> bool { self.steal }
    // the identity of the task, readable after it comes back out of a queue
    fn estimated_duration(&self) -> Duration { Duration::from_nanos(self.id as u64) }
}
fn mk_task(tk: u8, id: usize, code: i64, counters: &Arc<Vec<AtomicU32>>) -> Box<dyn Task> {
    wrap(tk, id, CountTask { id, prio: code_prio(code), steal: code_steal(code), beh: code_beh(code), counters: counters.clone(), nest: None })
}
/// the task object as the cell's task kind wants it: the task itself, or the library's ClosureTask around it (the closure is the
/// synchronous part of `execute`), carrying the same priority, stealability and - as its estimated duration - identity
fn wrap<T: Task>(tk: u8, id: usize, t: T) -> Box<dyn Task> {
    if tk == 0 { return Box::new(t); }
    let (p, s) = (t.priority(), t.is_stealable());
    Box::new(ClosureTask::new(move || Box::new(t).execute()).with_priority(p).with_stealable(s).with_estimated_duration(Duration::from_nanos(id as u64)))
}
fn submit_k<T: Task>(ex: &WorkStealingExecutor, tk: u8, id: usize, t: T) -> ZResult<()> {
    if tk == 2 && t.priority() == 0 && t.is_stealable() { ex.submit_closure(move || Box::new(t).execute()) } else { ex.submit(wrap(tk.min(1), id, t)) }
}
fn task_id(t: &Box<dyn Task>) -> i64 { t.estimated_duration().as_nanos() as i64 }

fn rand_code(r: &mut Rng, prio_mix: u64, beh_mix: bool) -> i64 {
    let prio = match prio_mix {
        0 => 0,
        1 => r.below(2),
        2 => r.below(4),
        _ => *r.pick(&[0u64, 1, 2, 127, 254, 255]),
    };
    let steal = if r.chance(3, 4) { 1 } else { 0 };
    let beh = if beh_mix { *r.pick(&[0u64, 0, 0, 0, 1, 2, 3, 4, 5, 0, 1, 2, 3, 4, 5, 6, 7]) } else { 0 };
    (1000 + 2 * prio + steal + 10000 * beh) as i64
}

fn with_rt<T>(threads: usize, f: impl Future<Output = T>) -> T {
    let rt = if threads == 0 {
        tokio::runtime::Builder::new_current_thread().enable_all().build().unwrap()
    } else {
        tokio::runtime::Builder::new_multi_thread().worker_threads(threads).enable_all().build().unwrap()
    };
    let r = rt.block_on(f);
    rt.shutdown_timeout(Duration::from_millis(200));
    r
}

// ---------------------------------------------------------------------------------------------
// cell: WorkStealingQueue histories (M+S)
// ---------------------------------------------------------------------------------------------

/// ops: task code = push_local, 1 = pop_local, 2 = steal, 3 = balance, 4 = len
fn queue_case(cx: &mut Ctx, cap: usize, variant: u64, ops: &[i64], force: bool) {
    let cell = "WorkStealingQueue";
    let tk = cx.tk.min(1);
    let case = json!({"cell": cell, "kind": 0, "cap": cap, "variant": variant, "tk": tk, "ops": ops});
    let npush = ops.iter().filter(|&&o| o >= 1000).count();
    cx.sum.eval(cell, &format!("q {} {} {} {:?}", cap, variant, tk, ops), npush >= 2 && ops.iter().any(|&o| o == 2 || o == 3));
    let counters: Arc<Vec<AtomicU32>> = Arc::new((0..npush + 1).map(|_| AtomicU32::new(0)).collect());
    let r = guarded(|| {
        let q = WorkStealingQueue::new(0, cap);
        let mut obs: Vec<i64> = vec![];
        let mut inside: Vec<bool> = vec![false; npush];
        let mut out_count: Vec<u32> = vec![0; npush];
        let mut problems: Vec<String> = vec![];
        let mut next = 0usize;
        let take = |t: Option<Box<dyn Task>>, inside: &mut Vec<bool>, out_count: &mut Vec<u32>, problems: &mut Vec<String>| -> i64 {
            match t {
                None => -1,
                Some(t) => {
                    let id = task_id(&t);
                    if id < 0 || id as usize >= inside.len() { problems.push(format!("unknown task {} came out", id)); }
                    else {
                        let i = id as usize;
                        out_count[i] += 1;
                        if !inside[i] { problems.push(format!("task {} came out but was not inside (came out {} times)", i, out_count[i])); }
                        inside[i] = false;
                    }
                    id
                }
            }
        };
        for &o in ops {
            if o >= 1000 {
                let ok = q.push_local(mk_task(tk, next, o, &counters)).is_ok();
                if ok { inside[next] = true; }
                obs.push(if ok { 1 } else { 0 });
                next += 1;
            } else if o == 1 {
                let t = q.pop_local();
                obs.push(take(t, &mut inside, &mut out_count, &mut problems));
            } else if o == 2 {
                let t = q.steal();
                obs.push(take(t, &mut inside, &mut out_count, &mut problems));
            } else if o == 3 {
                q.balance();
            } else {
                let n = q.len();
                let want = inside.iter().filter(|&&b| b).count();
                if n != want { problems.push(format!("len() = {} but {} tasks are inside", n, want)); }
                if q.is_empty() != (want == 0) { problems.push(format!("is_empty() = {} but {} tasks are inside", q.is_empty(), want)); }
                obs.push(n as i64);
            }
        }
        obs.push(-7);
        let bound = npush + 2;
        if variant == 0 {
            for _ in 0..bound { let t = q.steal(); let v = take(t, &mut inside, &mut out_count, &mut problems); if v < 0 { break; } obs.push(v); }
            obs.push(-1);
            for _ in 0..bound { let t = q.pop_local(); let v = take(t, &mut inside, &mut out_count, &mut problems); if v < 0 { break; } obs.push(v); }
            obs.push(-1);
            obs.push(q.len() as i64);
        } else {
            for _ in 0..bound { let t = q.pop_local(); let v = take(t, &mut inside, &mut out_count, &mut problems); if v < 0 { break; } obs.push(v); }
            obs.push(-1);
            obs.push(q.len() as i64);
            for _ in 0..bound { let t = q.steal(); let v = take(t, &mut inside, &mut out_count, &mut problems); if v < 0 { break; } obs.push(v); }
            obs.push(-1);
            obs.push(q.len() as i64);
        }
        // whatever pop_local and steal cannot reach any more is lost to every worker
        let lost: Vec<usize> = (0..npush).filter(|&i| inside[i]).collect();
        if !lost.is_empty() { problems.push(format!("tasks {:?} were accepted but neither pop_local nor steal returns them", lost)); }
        if q.len() != lost.len() { problems.push(format!("final len() = {} with {} tasks unaccounted", q.len(), lost.len())); }
        (obs, problems)
    });
    match r {
        Err(p) => cx.sum.fail(cell, None, case, &format!("queue operation panicked: {}", p)),
        Ok((obs, problems)) => {
            let codes: Vec<i64> = ops.iter().map(|&o| if o >= 1000 { o % 10000 } else { o }).collect();
            cx.coq(0, cap as u64, variant, &codes, &obs, &case, force);
            if let Some(p) = problems.first() { cx.sum.fail(cell, None, case, p); }
        }
    }
}

// ---------------------------------------------------------------------------------------------
// cell: one queue hammered by real threads (S-only): the owner pushes / pops / balances, thieves steal
// ---------------------------------------------------------------------------------------------
fn queue_threads_case(cx: &mut Ctx, cap: usize, thieves: usize, codes: &[i64], balance_every: usize) {
    let cell = "WorkStealingQueue/threads";
    let tk = cx.tk.min(1);
    let case = json!({"cell": "qthreads", "kind": 15, "cap": cap, "thieves": thieves, "balance_every": balance_every, "tk": tk, "ops": codes});
    cx.sum.eval(cell, &format!("qt {} {} {} {} {:?}", cap, thieves, balance_every, tk, codes), codes.len() >= 2);
    cx.sum.cell_status(cell, "S-only");
    let n = codes.len();
    let counters: Arc<Vec<AtomicU32>> = Arc::new((0..n + 1).map(|_| AtomicU32::new(0)).collect());
    let cv = codes.to_vec();
    let r = guarded(|| {
        let q = Arc::new(WorkStealingQueue::new(0, cap));
        let stop = Arc::new(std::sync::atomic::AtomicBool::new(false));
        let mut hs = vec![];
        for _ in 0..thieves {
            let q = q.clone();
            let stop = stop.clone();
            hs.push(std::thread::spawn(move || {
                let mut got: Vec<i64> = vec![];
                loop {
                    match q.steal() { Some(t) => got.push(task_id(&t)), None => { if stop.load(Ordering::SeqCst) { break; } std::thread::yield_now(); } }
                }
                got
            }));
        }
        let mut accepted = vec![false; n];
        let mut owner: Vec<i64> = vec![];
        for (i, &c) in cv.iter().enumerate() {
            accepted[i] = q.push_local(mk_task(tk, i, c, &counters)).is_ok();
            if balance_every > 0 && i % balance_every == balance_every - 1 { q.balance(); }
            if i % 3 == 2 { if let Some(t) = q.pop_local() { owner.push(task_id(&t)); } }
        }
        // the owner drains what is left for it, then the thieves are told to finish
        while let Some(t) = q.pop_local() { owner.push(task_id(&t)); }
        stop.store(true, Ordering::SeqCst);
        let mut all = owner;
        for h in hs { all.extend(h.join().unwrap_or_default()); }
        while let Some(t) = q.steal() { all.push(task_id(&t)); }
        while let Some(t) = q.pop_local() { all.push(task_id(&t)); }
        (accepted, all, q.len())
    });
    match r {
        Err(p) => cx.sum.fail(cell, None, case, &format!("panicked: {}", p)),
        Ok((accepted, all, left)) => {
            let mut seen = vec![0u32; n];
            let mut unknown = 0;
            for id in all { if id >= 0 && (id as usize) < n { seen[id as usize] += 1; } else { unknown += 1; } }
            let bad: Vec<usize> = (0..n).filter(|&i| (accepted[i] && seen[i] != 1) || (!accepted[i] && seen[i] != 0)).collect();
            if !bad.is_empty() || unknown > 0 || left != 0 {
                cx.sum.fail(cell, None, case, &format!("tasks {:?} did not come out exactly once (unknown ids {}, final len {})", &bad[..bad.len().min(8)], unknown, left));
            }
        }
    }
}

// ---------------------------------------------------------------------------------------------
// cell: the running executor (S-only) + submit history (M+S when deterministic)
// ---------------------------------------------------------------------------------------------

const STALL_MS: u64 = 2000;

struct ExecOutcome {
    accept: Vec<bool>,
    queued_after_submit: usize,
    idle_after_submit: bool,
    counts: Vec<u32>,
    stalled: bool,
    idle_reached: bool,
    total_executed: u64,
    queued_end: usize,
    err: Option<String>,
}

/// mode 0: submit everything at once before the workers are polled (current-thread) / as fast as possible;
/// mode 1: let the workers go idle first, then submit; mode 2: idle first and yield between submissions;
/// mode 3: the workers have been idle for 120 ms (past their spin phase, deep in the sleep back-off);
/// mode 4: two waves - the second half is submitted after the first half has drained and the executor went idle
async fn exec_body(nw: usize, cap: usize, mode: u64, codes: Vec<i64>, tk: u8) -> ExecOutcome {
    let n = codes.len();
    // ids 0..n are the submitted tasks, n..2n the children that behaviour-5 tasks submit from inside a worker
    let counters: Arc<Vec<AtomicU32>> = Arc::new((0..2 * n + 1).map(|_| AtomicU32::new(0)).collect());
    let child: Arc<Vec<AtomicU32>> = Arc::new((0..n + 1).map(|_| AtomicU32::new(0)).collect());
    let mut out = ExecOutcome { accept: vec![], queued_after_submit: 0, idle_after_submit: false, counts: vec![], stalled: false,
                                idle_reached: false, total_executed: 0, queued_end: 0, err: None };
    let ex = match WorkStealingExecutor::new(nw, cap) {
        Ok(e) => e,
        Err(e) => { out.err = Some(format!("new({}, {}) failed: {:?}", nw, cap, e)); return out; }
    };
    if mode >= 1 { tokio::time::sleep(Duration::from_millis(if mode == 3 { 120 } else { 3 })).await; }
    for (i, &c) in codes.iter().enumerate() {
        if mode == 4 && i == n / 2 && i > 0 {
            // let the first wave drain (bounded), then go on
            let t0 = Instant::now();
            while t0.elapsed() < Duration::from_millis(400) {
                if (0..i).all(|k| !out.accept[k] || counters[k].load(Ordering::SeqCst) >= 1) && ex.is_idle() { break; }
                tokio::time::sleep(Duration::from_micros(300)).await;
            }
            tokio::time::sleep(Duration::from_millis(2)).await;
        }
        let t = CountTask { id: i, prio: code_prio(c), steal: code_steal(c), beh: code_beh(c), counters: counters.clone(),
                            nest: if code_beh(c) == 5 { Some((ex.clone(), n, child.clone())) } else { None } };
        out.accept.push(submit_k(&ex, tk, i, t).is_ok());
        if mode == 2 && i % 3 == 2 { tokio::task::yield_now().await; }
    }
    out.queued_after_submit = ex.total_queued();
    out.idle_after_submit = ex.is_idle();
    let accept0 = out.accept.clone();
    // outstanding = accepted tasks that have not run yet + accepted children that have not run yet
    let outstanding = |c: &Arc<Vec<AtomicU32>>| -> (usize, u64) {
        let mut o = 0usize;
        let mut progress = 0u64;
        for i in 0..n {
            let ran = c[i].load(Ordering::SeqCst);
            progress += ran as u64;
            if accept0[i] && ran == 0 { o += 1; }
            if child[i].load(Ordering::SeqCst) == 1 { let r2 = c[n + i].load(Ordering::SeqCst); progress += r2 as u64; if r2 == 0 { o += 1; } }
        }
        (o, progress)
    };
    let mut last = outstanding(&counters).1;
    let mut last_change = Instant::now();
    let mut polls_since = 0u64;
    loop {
        let (o, p) = outstanding(&counters);
        if o == 0 { break; }
        if p != last { last = p; last_change = Instant::now(); polls_since = 0; }
        polls_since += 1;
        if last_change.elapsed() > Duration::from_millis(STALL_MS) && polls_since > 100 { out.stalled = true; break; }
        tokio::time::sleep(Duration::from_micros(300)).await;
    }
    // the executor must report idle once the last task has finished
    let t0 = Instant::now();
    while t0.elapsed() < Duration::from_millis(if out.stalled { 5 } else { 3000 }) {
        if ex.is_idle() { out.idle_reached = true; break; }
        tokio::time::sleep(Duration::from_micros(300)).await;
    }
    // leave room for a second execution of some task to show up
    tokio::time::sleep(Duration::from_millis(2)).await;
    for i in 0..n { out.accept.push(child[i].load(Ordering::SeqCst) == 1); }
    out.counts = (0..2 * n).map(|i| counters[i].load(Ordering::SeqCst)).collect();
    out.total_executed = ex.stats().total_executed;
    out.queued_end = ex.total_queued();
    let _ = ex.shutdown().await;
    out
}

fn exec_case(cx: &mut Ctx, nw: usize, cap: usize, rt: usize, mode: u64, codes: &[i64], force: bool) {
    let cell = format!("WorkStealingExecutor/{}", if rt == 0 { "current_thread".to_string() } else { format!("multi_thread({})", rt) });
    let tk = cx.tk;
    let case = json!({"cell": "executor", "kind": 10, "nw": nw, "cap": cap, "rt": rt, "mode": mode, "tk": tk, "ops": codes});
    cx.sum.eval(&cell, &format!("x {} {} {} {} {} {:?}", nw, cap, rt, mode, tk, codes), codes.len() >= 2);
    cx.sum.cell_status(&cell, "S-only");
    cx.sum.dist(&format!("exec_workers={}", nw));
    cx.sum.dist(&format!("exec_tasks_vs_capacity={}", if codes.len() < nw * cap { "below" } else if codes.len() == nw * cap { "equal" } else { "above" }));
    let cv = codes.to_vec();
    let r = guarded(|| with_rt(rt, exec_body(nw, cap, mode, cv, tk)));
    match r {
        Err(p) => cx.sum.fail(&cell, None, case, &format!("executor panicked: {}", p)),
        Ok(o) => {
            if let Some(e) = &o.err { cx.sum.fail(&cell, None, case, e); return; }
            if rt == 0 && mode == 0 {
                // deterministic: the workers have not been polled while we submitted
                let mut obs: Vec<i64> = o.accept[..codes.len()].iter().map(|&b| if b { 1 } else { 0 }).collect();
                obs.push(o.queued_after_submit as i64);
                obs.push(if o.idle_after_submit { 1 } else { 0 });
                let stripped: Vec<i64> = codes.iter().map(|&c| c % 10000).collect();
                let mut cj = case.clone();
                cj["kind"] = json!(1);
                cx.sum.cell_status("WorkStealingExecutor::submit", "M+S");
                cx.sum.eval("WorkStealingExecutor::submit", &format!("s {} {} {:?}", nw, cap, stripped), codes.len() > cap);
                cx.coq(1, nw as u64, cap as u64, &stripped, &obs, &cj, force);
            }
            let n = o.accept.len(); // the submitted tasks followed by the children of behaviour-5 tasks
            let accepted = o.accept.iter().filter(|&&b| b).count();
            let never: Vec<usize> = (0..n).filter(|&i| o.accept[i] && o.counts[i] == 0).collect();
            let twice: Vec<usize> = (0..n).filter(|&i| o.counts[i] > 1).collect();
            let ghost: Vec<usize> = (0..n).filter(|&i| !o.accept[i] && o.counts[i] > 0).collect();
            if !never.is_empty() {
                cx.sum.fail(&cell, None, case, &format!("{} of {} accepted tasks never ran (no progress for {} ms; total_queued = {}, total_executed = {}); first ids {:?}",
                    never.len(), accepted, STALL_MS, o.queued_end, o.total_executed, &never[..never.len().min(8)]));
            } else if !twice.is_empty() {
                cx.sum.fail(&cell, None, case, &format!("tasks {:?} ran more than once", &twice[..twice.len().min(8)]));
            } else if !ghost.is_empty() {
                cx.sum.fail(&cell, None, case, &format!("tasks {:?} were rejected by submit but ran", &ghost[..ghost.len().min(8)]));
            } else if !o.idle_reached {
                cx.sum.fail(&cell, None, case, &format!("all tasks finished but is_idle() stayed false (total_queued = {})", o.queued_end));
            } else if o.total_executed != accepted as u64 {
                cx.sum.fail(&cell, None, case, &format!("stats().total_executed = {} after {} accepted tasks ran", o.total_executed, accepted));
            }
        }
    }
}

// ---------------------------------------------------------------------------------------------
// cell: executor histories through the verification hook (M+S): the real submit / find_task / balance
// of a paused executor in an interleaving chosen by the harness
// ---------------------------------------------------------------------------------------------

/// If the repository under test does not carry the `hook:` commit these defaults are picked up
/// (inherent methods win over trait methods), and the cell reports itself as skipped.
trait HookFallback {
    fn verif_new_paused(_nw: usize, _cap: usize) -> ZResult<Arc<WorkStealingExecutor>> { Err(ZiporaError::configuration("hook missing")) }
    fn verif_find_task(&self, _w: usize) -> Option<Box<dyn Task>> { None }
    fn verif_balance(&self, _w: usize) {}
    fn verif_queue_lens(&self, _w: usize) -> (usize, usize, usize) { (usize::MAX, 0, 0) }
}
impl HookFallback for WorkStealingExecutor {}

/// ops: task code = submit, 10+w = find_task of worker w, 30+w = balance of worker w, 5 = total_queued,
/// 6 = is_idle, 40+w = (local, steal, global) queue lengths seen from worker w (where did submit put the task?)
fn hist_case(cx: &mut Ctx, nw: usize, cap: usize, ops: &[i64], force: bool) {
    let cell = "WorkStealingExecutor/history (hook)";
    let tk = cx.tk;
    let case = json!({"cell": "hist", "kind": 6, "nw": nw, "cap": cap, "tk": tk, "ops": ops});
    let nsub = ops.iter().filter(|&&o| o >= 1000).count();
    let r = guarded(|| {
        let ex = match WorkStealingExecutor::verif_new_paused(nw, cap) { Ok(e) => e, Err(_) => return None };
        let counters: Arc<Vec<AtomicU32>> = Arc::new((0..nsub + 1).map(|_| AtomicU32::new(0)).collect());
        // task kind 2: a task that went in through submit_closure carries no identity; whatever find_task hands out is run at
        // once (tasks of these histories return at their first poll) and recognised by the counter it bumps
        let ran_before: std::cell::RefCell<Vec<u32>> = std::cell::RefCell::new(vec![0; nsub + 1]);
        let c2 = counters.clone();
        let ident = |t: &mut Option<Box<dyn Task>>| -> i64 {
            if tk != 2 { return t.as_ref().map(task_id).unwrap_or(-1); }
            let fut = match guarded(|| t.take().unwrap().execute()) { Ok(f) => f, Err(_) => return -3 };
            let _ = with_rt(0, fut);
            let mut prev = ran_before.borrow_mut();
            let mut id = -2;
            for i in 0..prev.len() { let now = c2[i].load(Ordering::SeqCst); if now != prev[i] { if id == -2 { id = i as i64; } prev[i] = now; } }
            id
        };
        let mut obs: Vec<i64> = vec![];
        let mut xobs: Vec<i64> = vec![]; // the same history as the fine-grained model sees it (with the observer ops 6 and 40+w)
        let mut accepted = vec![false; nsub];
        let mut out = vec![0u32; nsub];
        let mut problems: Vec<String> = vec![];
        let mut next = 0usize;
        let took = |t: Option<Box<dyn Task>>, out: &mut Vec<u32>, problems: &mut Vec<String>| -> i64 {
            match t { None => -1, some => { let mut some = some; let id = ident(&mut some); if id >= 0 && (id as usize) < out.len() { out[id as usize] += 1; } else { problems.push(format!("unknown task {} (-2: the task that find_task handed out ran no submitted body when executed, -3: its execute() panicked)", id)); } id } }
        };
        for &o in ops {
            if o >= 1000 {
                let ok = submit_k(&ex, tk, next, CountTask { id: next, prio: code_prio(o), steal: code_steal(o), beh: code_beh(o), counters: counters.clone(), nest: None }).is_ok();
                accepted[next] = ok;
                obs.push(if ok { 1 } else { 0 });
                xobs.push(if ok { 1 } else { 0 });
                next += 1;
            } else if o >= 40 {
                let (l, s, g) = ex.verif_queue_lens(((o - 40) as usize).min(nw - 1));
                if l == usize::MAX { xobs.push(-1); } else { xobs.push(l as i64); xobs.push(s as i64); xobs.push(g as i64); }
            } else if o >= 30 { ex.verif_balance(((o - 30) as usize).min(nw - 1)); }
            else if o >= 10 { let t = ex.verif_find_task(((o - 10) as usize).min(nw - 1)); let v = took(t, &mut out, &mut problems); obs.push(v); xobs.push(v); }
            else if o == 6 { xobs.push(if ex.is_idle() { 1 } else { 0 }); }
            else { let q = ex.total_queued() as i64; obs.push(q); xobs.push(q); }
        }
        xobs.push(-7);
        xobs.push(ex.total_queued() as i64);
        xobs.push(if ex.is_idle() { 1 } else { 0 });
        xobs.push(accepted.iter().filter(|&&b| b).count() as i64);
        xobs.push(accepted.iter().filter(|&&b| !b).count() as i64);
        obs.push(-7);
        // every worker keeps asking for work until a whole pass finds nothing
        for _ in 0..(nsub + 2) {
            let mut any = false;
            for w in 0..nw { let t = ex.verif_find_task(w); let v = took(t, &mut out, &mut problems); if v >= 0 { obs.push(v); any = true; } }
            if !any { break; }
        }
        obs.push(-7);
        let left = ex.total_queued();
        obs.push(left as i64);
        for i in 0..nsub {
            if accepted[i] && out[i] == 0 { problems.push(format!("task {} was accepted but no worker's find_task ever returns it (total_queued = {}, is_idle = {})", i, left, ex.is_idle())); break; }
            if out[i] > 1 { problems.push(format!("task {} was handed out {} times", i, out[i])); break; }
            if !accepted[i] && out[i] > 0 { problems.push(format!("task {} was rejected by submit but handed out", i)); break; }
        }
        if problems.is_empty() && (left != 0 || !ex.is_idle()) { problems.push(format!("all tasks handed out but total_queued = {} / is_idle = {}", left, ex.is_idle())); }
        obs.push(-8);
        obs.extend_from_slice(&xobs);
        Some((obs, problems))
    });
    match r {
        Err(p) => { cx.sum.eval(cell, &format!("h {} {} {} {:?}", nw, cap, tk, ops), true); cx.sum.fail(cell, None, case, &format!("panicked: {}", p)) }
        Ok(None) => { cx.sum.dist("hook_missing_history_cell_skipped"); }
        Ok(Some((obs, problems))) => {
            cx.sum.eval(cell, &format!("h {} {} {} {:?}", nw, cap, tk, ops), nsub >= 2 && ops.iter().any(|&o| (10..1000).contains(&o)));
            let stripped: Vec<i64> = ops.iter().map(|&o| if o >= 1000 { o % 10000 } else { o }).collect();
            // the old model on the history without the observer ops, then the fine-grained executor model on all of it
            cx.coq(16, nw as u64, cap as u64, &stripped, &obs, &case, force);
            if let Some(p) = problems.first() { cx.sum.fail(cell, None, case, p); }
        }
    }
}

fn enumerate_hist(cx: &mut Ctx, len: usize, alphabet: &[i64], nw: usize, cap: usize, stride: usize) {
    let k = alphabet.len();
    let total = k.pow(len as u32);
    let mut idx = 0usize;
    while idx < total {
        let mut ops = Vec::with_capacity(len);
        let mut x = idx;
        for _ in 0..len { ops.push(alphabet[x % k]); x /= k; }
        if ops[0] >= 1000 { hist_case(cx, nw, cap, &ops, false); }
        idx += stride;
    }
}

/// One worker, current-thread runtime, tasks that return at once, everything submitted before the worker is
/// first polled: the execution order is then a function of the code alone (priority order of the local
/// queue, the periodic balance, the global overflow) and is compared with the model's worker loop.
struct OrderTask { id: usize, prio: u8, steal: bool, log: Arc<std::sync::Mutex<Vec<usize>>> }
impl Task for OrderTask {
    fn execute(self: Box<Self>) -> Pin<Box<dyn Future<Output = ZResult<()>> + Send>> {
        Box::pin(async move { self.log.lock().unwrap().push(self.id); Ok(()) })
    }
    fn priority(&self) -> u8 { self.prio }
    fn is_stealable(&self) -> bool { self.steal }
}
fn order_case(cx: &mut Ctx, cap: usize, codes: &[i64], force: bool) {
    let cell = "WorkStealingExecutor/worker_loop order (1 worker)";
    let tk = cx.tk;
    let case = json!({"cell": "order", "kind": 5, "cap": cap, "tk": tk, "ops": codes});
    cx.sum.eval(cell, &format!("o {} {} {:?}", cap, tk, codes), codes.len() >= 2);
    let cv: Vec<i64> = codes.iter().map(|c| c % 10000).collect();
    let n = cv.len();
    let cv2 = cv.clone();
    let r = guarded(|| with_rt(0, async move {
        let log = Arc::new(std::sync::Mutex::new(Vec::new()));
        let ex = match WorkStealingExecutor::new(1, cap) { Ok(e) => e, Err(_) => return None };
        let mut accept = vec![];
        for (i, &c) in cv2.iter().enumerate() {
            accept.push(submit_k(&ex, tk, i, OrderTask { id: i, prio: code_prio(c), steal: code_steal(c), log: log.clone() }).is_ok());
        }
        let want = accept.iter().filter(|&&b| b).count();
        let t0 = Instant::now();
        let mut last = 0usize;
        let mut last_change = Instant::now();
        loop {
            let d = log.lock().unwrap().len();
            if d >= want { break; }
            if d != last { last = d; last_change = Instant::now(); }
            if last_change.elapsed() > Duration::from_millis(STALL_MS) || t0.elapsed() > Duration::from_secs(20) { break; }
            tokio::time::sleep(Duration::from_micros(300)).await;
        }
        tokio::time::sleep(Duration::from_millis(1)).await;
        let order = log.lock().unwrap().clone();
        let queued = ex.total_queued();
        // the statistics once the worker has come to rest: total_executed, active_tasks, is_idle
        let t1 = Instant::now();
        while !(ex.is_idle() && ex.stats().total_executed as usize >= order.len()) && t1.elapsed() < Duration::from_millis(500) { tokio::time::sleep(Duration::from_micros(300)).await; }
        let st = ex.stats();
        let fin = vec![ex.total_queued() as i64, st.total_executed as i64, st.active_tasks as i64, if ex.is_idle() { 1 } else { 0 }];
        let _ = ex.shutdown().await;
        Some((accept, order, queued, fin))
    }));
    match r {
        Err(p) => cx.sum.fail(cell, None, case, &format!("panicked: {}", p)),
        Ok(None) => cx.sum.fail(cell, None, case, "executor creation failed"),
        Ok(Some((accept, order, queued, fin))) => {
            let mut obs: Vec<i64> = accept.iter().map(|&b| if b { 1 } else { 0 }).collect();
            obs.push(-7);
            obs.extend(order.iter().map(|&i| i as i64));
            obs.push(-7);
            obs.push(queued as i64);
            // ... and the same run against the worker loop as a sequence of atomic steps, with the counters
            obs.push(-8);
            obs.extend(accept.iter().map(|&b| if b { 1 } else { 0 }));
            obs.push(-7);
            obs.extend(order.iter().map(|&i| i as i64));
            obs.push(-7);
            obs.extend_from_slice(&fin);
            cx.coq(17, cap as u64, 0, &cv, &obs, &case, force);
            let mut seen = vec![0u32; n];
            for &i in &order { if i < n { seen[i] += 1; } }
            let bad: Vec<usize> = (0..n).filter(|&i| (accept[i] && seen[i] != 1) || (!accept[i] && seen[i] != 0)).collect();
            if !bad.is_empty() {
                cx.sum.fail(cell, None, case, &format!("tasks {:?} did not run exactly once (execution order {:?}, total_queued = {})", &bad[..bad.len().min(8)], &order[..order.len().min(16)], queued));
            }
        }
    }
}

// ---------------------------------------------------------------------------------------------
// ordered collections
// ---------------------------------------------------------------------------------------------

/// the stage function shared with the model: fails on x = 13 (mod 16), else 3x+1;
/// x = 29 (mod 64) panics when `panics` is allowed (oracle only)
fn stage(x: i64) -> ZResult<i64> {
    if x.rem_euclid(16) == 13 { Err(ZiporaError::invalid_data("stage failed")) } else { Ok(3 * x + 1) }
}
fn stage_p(x: i64) -> ZResult<i64> {
    if x.rem_euclid(64) == 30 { panic!("stage panicked") }
    stage(x)
}
fn seq_map(xs: &[i64], panics: bool) -> Option<Vec<i64>> {
    let mut v = vec![];
    for &x in xs {
        if x.rem_euclid(16) == 13 || (panics && x.rem_euclid(64) == 30) { return None; }
        v.push(3 * x + 1);
    }
    Some(v)
}
fn obs_opt(r: &Option<Vec<i64>>) -> Vec<i64> {
    match r { Some(v) => { let mut o = vec![1]; o.extend_from_slice(v); o } None => vec![0] }
}
const HANG: Duration = Duration::from_secs(8);
/// a limit of zero that makes a call wait for ever is detected faster
fn hang_for(limit: usize) -> Duration { if limit == 0 { Duration::from_millis(700) } else { HANG } }

fn rand_items(r: &mut Rng, n: usize, fail: u64) -> Vec<i64> {
    // fail: 0 = no failing item, 1 = exactly one somewhere, 2 = random values
    let mut v: Vec<i64> = (0..n).map(|_| { let mut x = r.below(2000) as i64 - 1000; if x.rem_euclid(16) == 13 { x += 1; } if x.rem_euclid(64) == 30 { x += 1; } x }).collect();
    if fail == 1 && n > 0 { let i = r.below(n as u64) as usize; v[i] = 16 * (r.below(50) as i64) + 13; }
    if fail == 2 { for x in v.iter_mut() { if r.chance(1, 12) { *x = 16 * (r.below(50) as i64) + 13; } } }
    v
}

type Log = Arc<std::sync::Mutex<Vec<usize>>>;
fn new_log() -> Log { Arc::new(std::sync::Mutex::new(Vec::new())) }
fn pool_cfg(max_fibers: usize, max_workers: usize) -> FiberPoolConfig {
    FiberPoolConfig { max_fibers, initial_workers: 1, max_workers, queue_capacity: 16, idle_timeout: Duration::from_secs(1) }
}
/// total_spawned, active_fibers, completed, failed, and the number of free permits as far as the public API
/// shows it: `shutdown()` returns once all `max_fibers` permits are free (-1: it did not within 2 s)
async fn pool_stats(pool: &FiberPool, max_fibers: usize) -> Vec<i64> {
    let st = pool.stats();
    let free = match tokio::time::timeout(Duration::from_secs(2), pool.shutdown()).await { Ok(Ok(())) => max_fibers as i64, _ => -1 };
    vec![st.total_spawned as i64, st.active_fibers as i64, st.completed as i64, st.failed as i64, free]
}
/// parallel_map / parallel_for_each return at the first error while later fibers are still owed their one
/// execution: wait (bounded) until `n` bodies have started, then let them finish
async fn wait_bodies(log: &Log, n: usize) {
    let t0 = Instant::now();
    while log.lock().unwrap().len() < n && t0.elapsed() < Duration::from_secs(3) { tokio::time::sleep(Duration::from_micros(300)).await; }
    for _ in 0..8 { tokio::task::yield_now().await; }
    tokio::time::sleep(Duration::from_millis(1)).await;
}
fn visit_problem(log: &[usize], n: usize) -> Option<String> {
    let mut seen = vec![0u32; n];
    for &i in log { if i < n { seen[i] += 1; } else { return Some(format!("a body ran for the unknown item {}", i)); } }
    if seen.iter().any(|&c| c != 1) { Some(format!("visit counts {:?} (every item must be processed exactly once)", seen)) } else { None }
}

/// which: 0 FiberPool::parallel_map, 1 concurrency::parallel_map, 2 join_all over spawn, 3 FiberPool::spawn_batch + await
fn pmap_case(cx: &mut Ctx, which: u64, rt: usize, max_fibers: usize, xs: &[i64], panics: bool, force: bool) {
    let cell = ["FiberPool::parallel_map", "concurrency::parallel_map", "concurrency::join_all", "FiberPool::spawn_batch"][which as usize];
    let case = json!({"cell": "pmap", "kind": 2, "which": which, "rt": rt, "max_fibers": max_fibers, "panics": panics, "ops": xs});
    cx.sum.eval(cell, &format!("pm {} {} {} {} {:?}", which, rt, max_fibers, panics, xs), xs.len() >= 2);
    cx.sum.dist(&format!("pmap_len_vs_fibers={}", if xs.len() < max_fibers { "below" } else if xs.len() == max_fibers { "equal" } else { "above" }));
    let xv = xs.to_vec();
    let log = new_log();
    let stats: Arc<std::sync::Mutex<Vec<i64>>> = Arc::new(std::sync::Mutex::new(vec![]));
    let (lg, stc) = (log.clone(), stats.clone());
    let r = guarded(|| with_rt(rt, async move {
        tokio::time::timeout(hang_for(max_fibers), async move {
            let f = move |x: i64| if panics { stage_p(x) } else { stage(x) };
            match which {
                0 => {
                    let pool = FiberPool::new(pool_cfg(max_fibers, 2))?;
                    let n = xv.len();
                    let items: Vec<(usize, i64)> = xv.into_iter().enumerate().collect();
                    let l2 = lg.clone();
                    let res = pool.parallel_map(items, move |(i, x): (usize, i64)| { l2.lock().unwrap().push(i); f(x) }).await;
                    wait_bodies(&lg, n).await;
                    *stc.lock().unwrap() = pool_stats(&pool, max_fibers).await;
                    res
                }
                1 => zipora::concurrency::parallel_map(xv, f).await,
                2 => {
                    let hs: Vec<_> = xv.into_iter().map(|x| zipora::concurrency::spawn(async move { f(x) })).collect();
                    zipora::concurrency::join_all(hs).await
                }
                _ => {
                    let pool = FiberPool::new(pool_cfg(max_fibers, 2))?;
                    let hs = pool.spawn_batch(xv.into_iter().map(|x| async move { f(x) }));
                    let mut out = vec![];
                    let mut err = None;
                    for h in hs { match h.await { Ok(v) => out.push(v), Err(e) => { if err.is_none() { err = Some(e); } } } }
                    match err { Some(e) => Err(e), None => Ok(out) }
                }
            }
        }).await
    }));
    // a pool that admits no fiber at all must be refused at construction (an error, not a hang)
    let want = if max_fibers == 0 && (which == 0 || which == 3) { None } else { seq_map(xs, panics) };
    match r {
        Err(p) => cx.sum.fail(cell, None, case, &format!("panicked: {}", p)),
        Ok(Err(_)) => cx.sum.fail(cell, None, case, "did not return (8 s; 0.7 s when the limit is 0)"),
        Ok(Ok(res)) => {
            let got = res.ok();
            let order: Vec<usize> = log.lock().unwrap().clone();
            let st: Vec<i64> = stats.lock().unwrap().clone();
            if which == 0 && rt == 0 && max_fibers > 0 && st.len() == 5 {
                // current-thread runtime: the order in which the bodies run and the statistics are deterministic too;
                // compared with the FiberPool state machine (and, without panics, with the result-collection model as before)
                let mut obs: Vec<i64> = vec![];
                if !panics { obs.extend(obs_opt(&got)); obs.push(-8); }
                obs.extend(obs_opt(&got));
                obs.push(-7);
                obs.extend(order.iter().map(|&i| i as i64));
                obs.push(-7);
                obs.extend_from_slice(&st);
                let mut cj = case.clone();
                cj["kind"] = json!(9);
                cx.coq(9, max_fibers as u64, if panics { 1 } else { 0 }, xs, &obs, &cj, force);
            } else if !panics && !(max_fibers == 0 && (which == 0 || which == 3)) { cx.coq(2, 0, 0, xs, &obs_opt(&got), &case, force); }
            if got != want {
                cx.sum.fail(cell, None, case, &format!("returned {:?}, applying the function in input order gives {:?}", got, want));
            } else if which == 0 && max_fibers > 0 {
                if let Some(p) = visit_problem(&order, xs.len()) { cx.sum.fail(cell, None, case, &p); }
            }
        }
    }
}

fn foreach_case(cx: &mut Ctx, rt: usize, max_fibers: usize, xs: &[i64], force: bool) {
    let cell = "FiberPool::parallel_for_each";
    let case = json!({"cell": "foreach", "kind": 10, "rt": rt, "max_fibers": max_fibers, "ops": xs});
    cx.sum.eval(cell, &format!("fe {} {} {:?}", rt, max_fibers, xs), xs.len() >= 2);
    let n = xs.len();
    let log = new_log();
    let items: Vec<(usize, i64)> = xs.iter().cloned().enumerate().collect();
    let lg = log.clone();
    let r = guarded(|| with_rt(rt, async move {
        tokio::time::timeout(hang_for(max_fibers), async move {
            let pool = FiberPool::new(pool_cfg(max_fibers, 2))?;
            let l2 = lg.clone();
            let res = pool.parallel_for_each(items, move |(i, x): (usize, i64)| { l2.lock().unwrap().push(i); stage(x).map(|_| ()) }).await;
            // parallel_for_each returns at the first error; the other fibers are still owed their one execution
            let t0 = Instant::now();
            loop {
                let st = pool.stats();
                if st.completed + st.failed >= st.total_spawned || t0.elapsed() > Duration::from_secs(3) { break; }
                tokio::time::sleep(Duration::from_micros(300)).await;
            }
            Ok::<_, ZiporaError>((res.is_ok(), pool_stats(&pool, max_fibers).await))
        }).await
    }));
    let want_ok = seq_map(xs, false).is_some();
    match r {
        Err(p) => cx.sum.fail(cell, None, case, &format!("panicked: {}", p)),
        Ok(Err(_)) => cx.sum.fail(cell, None, case, "did not return (8 s; 0.7 s when the limit is 0)"),
        Ok(Ok(Err(e))) => cx.sum.fail(cell, None, case, &format!("pool error {:?}", e)),
        Ok(Ok(Ok((ok, st)))) => {
            let order: Vec<usize> = log.lock().unwrap().clone();
            if rt == 0 {
                let mut obs: Vec<i64> = vec![if ok { 1 } else { 0 }, -7];
                obs.extend(order.iter().map(|&i| i as i64));
                obs.push(-7);
                obs.extend_from_slice(&st);
                cx.coq(10, max_fibers as u64, 0, xs, &obs, &case, force);
            }
            let (spawned, active, finished, free) = (st[0], st[1], st[2] + st[3], st[4]);
            if ok != want_ok { cx.sum.fail(cell, None, case, &format!("returned ok={} but sequential application gives ok={}", ok, want_ok)); }
            else if let Some(p) = visit_problem(&order, n) { cx.sum.fail(cell, None, case, &p); }
            else if spawned != n as i64 || finished != n as i64 || active != 0 || free < 0 {
                cx.sum.fail(cell, None, case, &format!("3 s after the call: spawned {} finished {} active {} (shutdown() returned: {}) for {} items", spawned, finished, active, free >= 0, n));
            }
        }
    }
}

/// A FiberPool history (M+S): `codes[i]` is what the body of fiber i does once its gate opens (0 = Ok(100+i),
/// 1 = Err, 2 = panic); all fibers are spawned with `spawn_batch` on a current-thread runtime, then the harness
/// opens the gates in the order `gates` (missing ones are appended) and lets the runtime settle after each.
/// Observed after the spawn and after every gate: active_fibers, completed, failed, which handles are finished;
/// at the end what every handle yields, the order in which the bodies ran, the statistics.
fn pool_hist_case(cx: &mut Ctx, max_fibers: usize, codes: &[i64], gates_in: &[i64], force: bool) {
    let cell = "FiberPool::spawn (semaphore history)";
    let n = codes.len();
    let mut gates: Vec<i64> = gates_in.iter().cloned().filter(|&g| g >= 0 && (g as usize) < n).collect();
    for i in 0..n { if !gates.contains(&(i as i64)) { gates.push(i as i64); } }
    let case = json!({"cell": "poolhist", "kind": 8, "max_fibers": max_fibers, "ops": codes, "gates": gates});
    cx.sum.eval(cell, &format!("ph {} {:?} {:?}", max_fibers, codes, gates), n >= 2);
    cx.sum.dist(&format!("poolhist_fibers_vs_permits={}", if n < max_fibers { "below" } else if n == max_fibers { "equal" } else { "above" }));
    let cv = codes.to_vec();
    let gv = gates.clone();
    let log = new_log();
    let lg = log.clone();
    let r = guarded(|| with_rt(0, async move {
        tokio::time::timeout(HANG, async move {
            let pool = FiberPool::new(pool_cfg(max_fibers, 2))?;
            let mut txs: Vec<Option<tokio::sync::oneshot::Sender<()>>> = vec![];
            let mut futs = vec![];
            for (i, &c) in cv.iter().enumerate() {
                let (tx, rx) = tokio::sync::oneshot::channel::<()>();
                txs.push(Some(tx));
                let l2 = lg.clone();
                futs.push(async move {
                    let _ = rx.await;
                    l2.lock().unwrap().push(i);
                    match c { 0 => Ok(100 + i as i64), 1 => Err(ZiporaError::invalid_data("body failed")), _ => panic!("body panicked") }
                });
            }
            let hs = pool.spawn_batch(futs);
            let rounds = 3 * n + 8;
            let look = |pool: &FiberPool, hs: &Vec<zipora::concurrency::FiberHandle<i64>>| -> Vec<i64> {
                let st = pool.stats();
                let mut bits = 0i64;
                for (i, h) in hs.iter().enumerate() { if h.is_finished() { bits |= 1 << i; } }
                vec![st.active_fibers as i64, st.completed as i64, st.failed as i64, bits]
            };
            let mut obs: Vec<i64> = vec![];
            for _ in 0..rounds { tokio::task::yield_now().await; }
            obs.extend(look(&pool, &hs));
            for &g in &gv {
                if let Some(tx) = txs[g as usize].take() { let _ = tx.send(()); }
                for _ in 0..rounds { tokio::task::yield_now().await; }
                obs.extend(look(&pool, &hs));
            }
            obs.push(-7);
            let mut results: Vec<i64> = vec![];
            for h in hs {
                if h.is_finished() { results.push(match h.await { Ok(v) => v, Err(_) => -1 }); } else { results.push(-9); }
            }
            obs.extend_from_slice(&results);
            obs.push(-7);
            let order: Vec<usize> = lg.lock().unwrap().clone();
            obs.extend(order.iter().map(|&i| i as i64));
            obs.push(-7);
            let st = pool_stats(&pool, max_fibers).await;
            obs.extend_from_slice(&st);
            Ok::<_, ZiporaError>((obs, results, order, st))
        }).await
    }));
    match r {
        Err(p) => cx.sum.fail(cell, None, case, &format!("panicked: {}", p)),
        Ok(Err(_)) => cx.sum.fail(cell, None, case, "did not return (8 s)"),
        Ok(Ok(Err(e))) => cx.sum.fail(cell, None, case, &format!("pool error {:?}", e)),
        Ok(Ok(Ok((obs, results, order, st)))) => {
            let mut ops: Vec<i64> = codes.to_vec();
            ops.extend_from_slice(&gates);
            cx.coq(8, max_fibers as u64, n as u64, &ops, &obs, &case, force);
            // the property: every spawned fiber ran exactly once and its handle yields its own result
            let want: Vec<i64> = codes.iter().enumerate().map(|(i, &c)| if c == 0 { 100 + i as i64 } else { -1 }).collect();
            if let Some(p) = visit_problem(&order, n) { cx.sum.fail(cell, None, case, &format!("all gates open, but {}", p)); }
            else if results != want { cx.sum.fail(cell, None, case, &format!("the handles yield {:?} (-1 = error, -9 = never finished), want {:?}", results, want)); }
            else if st[0] != n as i64 || st[4] < 0 { cx.sum.fail(cell, None, case, &format!("{} fibers: total_spawned = {}, shutdown() returned: {}", n, st[0], st[4] >= 0)); }
        }
    }
}

/// which: 0 FiberPool::parallel_reduce (max_workers = mw), 1 concurrency::parallel_reduce
fn reduce_case(cx: &mut Ctx, which: u64, rt: usize, mw: usize, xs: &[i64], force: bool) {
    let cell = ["FiberPool::parallel_reduce", "concurrency::parallel_reduce"][which as usize];
    let case = json!({"cell": "reduce", "kind": 3, "which": which, "rt": rt, "mw": mw, "ops": xs});
    cx.sum.eval(cell, &format!("rd {} {} {} {:?}", which, rt, mw, xs), xs.len() >= 2);
    let items: Vec<Vec<i64>> = xs.iter().map(|&x| vec![x]).collect();
    let max_fibers = [4usize, 1, 2][mw % 3];
    // the accumulator length at every call of the function: shows how the input was cut into chunks
    let trace = new_log();
    let stats: Arc<std::sync::Mutex<Vec<i64>>> = Arc::new(std::sync::Mutex::new(vec![]));
    let (tr, stc) = (trace.clone(), stats.clone());
    let r = guarded(|| with_rt(rt, async move {
        tokio::time::timeout(hang_for(mw), async move {
            // concatenation: associative with identity [], not commutative - any reordering or loss shows
            let f = move |mut a: Vec<i64>, b: Vec<i64>| -> ZResult<Vec<i64>> {
                tr.lock().unwrap().push(a.len());
                if b.iter().any(|x| x.rem_euclid(16) == 13) { return Err(ZiporaError::invalid_data("reduce failed")); }
                a.extend(b);
                Ok(a)
            };
            if which == 0 {
                let pool = FiberPool::new(pool_cfg(max_fibers, mw))?;
                let res = pool.parallel_reduce(items, vec![], f).await;
                let t0 = Instant::now();
                loop {
                    let st = pool.stats();
                    if st.completed + st.failed >= st.total_spawned || t0.elapsed() > Duration::from_secs(3) { break; }
                    tokio::time::sleep(Duration::from_micros(300)).await;
                }
                *stc.lock().unwrap() = pool_stats(&pool, max_fibers).await;
                res
            } else {
                zipora::concurrency::parallel_reduce(items, vec![], f).await
            }
        }).await
    }));
    let want: Option<Vec<i64>> = if xs.iter().any(|x| x.rem_euclid(16) == 13) { None } else { Some(xs.to_vec()) };
    match r {
        Err(p) => cx.sum.fail(cell, None, case, &format!("panicked: {}", p)),
        Ok(Err(_)) => cx.sum.fail(cell, None, case, "did not return (8 s; 0.7 s when the limit is 0)"),
        Ok(Ok(res)) => {
            let got = res.ok();
            let st: Vec<i64> = stats.lock().unwrap().clone();
            if which == 0 {
                let k = std::cmp::max(1, xs.len() / mw.max(1));
                if rt == 0 && st.len() == 5 {
                    // the result-collection model with the chunk size computed here, as before, then the FiberPool model,
                    // which derives the chunking from (len, max_workers) itself: result, call trace, statistics
                    let mut obs: Vec<i64> = obs_opt(&got);
                    obs.push(-8);
                    obs.extend(obs_opt(&got));
                    obs.push(-7);
                    obs.extend(trace.lock().unwrap().iter().map(|&l| l as i64));
                    obs.push(-7);
                    obs.extend_from_slice(&st);
                    let mut cj = case.clone();
                    cj["kind"] = json!(11);
                    cx.coq(11, mw as u64, (k * 1000 + max_fibers) as u64, xs, &obs, &cj, force);
                } else {
                    cx.coq(3, k as u64, 0, xs, &obs_opt(&got), &case, force);
                }
            } else if rt == 0 {
                // concurrency::parallel_reduce: chunk_size = ceil(len / num_cpus::get()); FiberPoolConfig::default() reports the same number
                let ncpu = FiberPoolConfig::default().initial_workers.max(1);
                let mut obs: Vec<i64> = obs_opt(&got);
                obs.push(-7);
                obs.extend(trace.lock().unwrap().iter().map(|&l| l as i64));
                let mut cj = case.clone();
                cj["kind"] = json!(18);
                cx.coq(18, ncpu as u64, 0, xs, &obs, &cj, force);
            }
            if got != want { cx.sum.fail(cell, None, case, &format!("returned {:?}, the sequential fold gives {:?}", got, want)); }
        }
    }
}

/// A stage whose items may fail (x = 13 mod 16) or take far longer than the stage timeout (x = 7 mod 32)
struct SlowStage { batching: bool }
impl PipelineStage<i64, i64> for SlowStage {
    fn process(&self, x: i64) -> Pin<Box<dyn Future<Output = ZResult<i64>> + Send + '_>> {
        Box::pin(async move {
            if x.rem_euclid(32) == 7 { tokio::time::sleep(Duration::from_millis(400)).await; }
            stage(x)
        })
    }
    fn name(&self) -> &str { "slow" }
    fn supports_batching(&self) -> bool { self.batching }
}
/// A stage that declares room for several items at once and whose items really suspend, for a number of polls that depends on
/// the item (so that later items can finish before earlier ones): the batch result must still be in input order
struct ConcStage { conc: usize }
impl PipelineStage<i64, i64> for ConcStage {
    fn process(&self, x: i64) -> Pin<Box<dyn Future<Output = ZResult<i64>> + Send + '_>> {
        Box::pin(async move {
            for _ in 0..(4 - x.rem_euclid(5)) { tokio::task::yield_now().await; }
            stage(x)
        })
    }
    fn name(&self) -> &str { "conc" }
    fn max_concurrency(&self) -> usize { self.conc }
}
/// A stage every item of which really suspends for 30 ms - far inside the 500 ms stage timeout of its cases, while a batch of
/// twenty takes longer than the timeout in total: the stage timeout is per item ("Timeout for individual stage processing"),
/// so the batch result is still the stage applied in input order
struct PacedStage { batching: bool }
impl PipelineStage<i64, i64> for PacedStage {
    fn process(&self, x: i64) -> Pin<Box<dyn Future<Output = ZResult<i64>> + Send + '_>> {
        Box::pin(async move { tokio::time::sleep(Duration::from_millis(30)).await; stage(x) })
    }
    fn name(&self) -> &str { "paced" }
    fn supports_batching(&self) -> bool { self.batching }
}
fn seq_map_slow(xs: &[i64]) -> Option<Vec<i64>> {
    if xs.iter().any(|x| x.rem_euclid(32) == 7) { return None; }
    seq_map(xs, false)
}

/// the identity of an error the pipeline returns: 1 the stage's own error, 2 "stage timeout", 3 "batch processing
/// timeout", 4 a panicked stage task (join error), 5 "no stages provided", 9 anything else
fn err_code(e: &ZiporaError) -> i64 {
    let m = format!("{:?}", e);
    if m.contains("batch processing timeout") { 3 } else if m.contains("stage timeout") { 2 } else if m.contains("stage task failed") { 4 }
    else if m.contains("no stages") { 5 } else if m.contains("stage failed") { 1 } else { 9 }
}

/// which: 0 MapStage, 1 BatchMapStage without batch fn, 2 BatchMapStage with batch fn, 3 SlowStage (timeouts), 4 SlowStage with default process_batch
fn batch_case(cx: &mut Ctx, which: u64, enable_batching: bool, xs: &[i64], force: bool) {
    let cell = "Pipeline::process_batch";
    let case = json!({"cell": "process_batch", "kind": 12, "which": which, "batching": enable_batching, "ops": xs});
    cx.sum.eval(cell, &format!("pb {} {} {:?}", which, enable_batching, xs), xs.len() >= 2);
    let xv = xs.to_vec();
    let r = guarded(|| with_rt(0, async move {
        tokio::time::timeout(HANG, async move {
            let mut cfg = PipelineConfig::default();
            cfg.enable_batching = enable_batching;
            if which == 3 || which == 4 { cfg.stage_timeout = Duration::from_millis(8); }
            if which == 9 { cfg.stage_timeout = Duration::from_millis(500); }
            let p = Pipeline::new(cfg);
            type Fb = fn(Vec<i64>) -> ZResult<Vec<i64>>;
            let res = match which {
                0 => p.process_batch(MapStage::new("m".to_string(), stage), xv).await,
                1 => p.process_batch(BatchMapStage::<fn(i64) -> ZResult<i64>, Fb>::new("bm".to_string(), stage), xv).await,
                2 => p.process_batch(BatchMapStage::with_batch_support("bb".to_string(), stage,
                        |b: Vec<i64>| -> ZResult<Vec<i64>> { b.into_iter().map(stage).collect() }), xv).await,
                3 => p.process_batch(SlowStage { batching: false }, xv).await,
                4 => p.process_batch(SlowStage { batching: true }, xv).await,
                9 => p.process_batch(PacedStage { batching: false }, xv).await,
                w => p.process_batch(ConcStage { conc: [2usize, 4, 8, 64][(w as usize - 5) % 4] }, xv).await,
            };
            let st = p.stats().await;
            (res, st.items_in_flight as i64, st.total_processed as i64)
        }).await
    }));
    let want = if which == 3 || which == 4 { seq_map_slow(xs) } else { seq_map(xs, false) };
    match r {
        Err(p) => cx.sum.fail(cell, None, case, &format!("panicked: {}", p)),
        Ok(Err(_)) => cx.sum.fail(cell, None, case, "did not return (8 s; 0.7 s when the limit is 0)"),
        Ok(Ok((res, in_flight, processed))) => {
            // the model of process_batch as written: the result with the identity of the error (the first failing item's own
            // error, the per-item or the whole-batch timeout) and the statistics; for the stages without timeouts preceded
            // by the result-collection model as before
            let path = if enable_batching && (which == 2 || which == 4) { 1 } else { 0 };
            let mut obs: Vec<i64> = vec![];
            let got = res.as_ref().ok().cloned();
            if which < 3 { obs.extend(obs_opt(&got)); obs.push(-8); }
            match &res { Ok(v) => { obs.push(1); obs.extend_from_slice(v); } Err(e) => { obs.push(0); obs.push(err_code(e)); } }
            obs.push(-7);
            obs.push(in_flight);
            obs.push(processed);
            // (the stages with declared concurrency, which >= 5, are oracle-only)
            if which < 5 { cx.coq(12, path, (if which >= 3 { 1 } else { 0 }) + (if which < 3 { 2 } else { 0 }), xs, &obs, &case, force); }
            if got != want { cx.sum.fail(cell, None, case, &format!("returned {:?}, applying the stage in input order gives {:?}", got, want)); }
        }
    }
}

fn single_case(cx: &mut Ctx, xs: &[i64]) {
    let cell = "Pipeline::execute_single/two_stage";
    for &x in xs {
        let case = json!({"cell": "single", "kind": 13, "ops": [x]});
        cx.sum.eval(cell, &format!("sg {}", x), true);
        let r = guarded(|| with_rt(0, async move {
            tokio::time::timeout(HANG, async move {
                let mut cfg = PipelineConfig::default();
                cfg.stage_timeout = Duration::from_millis(8);
                let p = Pipeline::new(cfg);
                let a = p.execute_single(SlowStage { batching: false }, x).await;
                let b = p.execute_two_stage(SlowStage { batching: false }, MapStage::new("m".to_string(), stage), x).await;
                let st = p.stats().await;
                (a, b, st.items_in_flight as i64, st.total_processed as i64)
            }).await
        }));
        let w1 = seq_map_slow(&[x]).map(|v| v[0]);
        let w2 = w1.and_then(|y| stage(y).ok());
        match r {
            Err(p) => cx.sum.fail(cell, None, case, &format!("panicked: {}", p)),
            Ok(Err(_)) => cx.sum.fail(cell, None, case, "did not return (8 s; 0.7 s when the limit is 0)"),
            Ok(Ok((a, b, in_flight, processed))) => {
                let mut obs: Vec<i64> = vec![];
                for r in [&a, &b] { match r { Ok(v) => { obs.push(1); obs.push(*v); } Err(e) => { obs.push(0); obs.push(err_code(e)); } } }
                obs.push(-7);
                obs.push(in_flight);
                obs.push(processed);
                cx.coq(13, 0, 0, &[x], &obs, &case, true);
                let (a, b) = (a.ok(), b.ok());
                if a != w1 { cx.sum.fail(cell, None, case, &format!("execute_single returned {:?}, want {:?}", a, w1)); }
                else if b != w2 { cx.sum.fail(cell, None, case, &format!("execute_two_stage returned {:?}, want {:?}", b, w2)); }
            }
        }
    }
}

/// N items through k map stages over bounded channels; outputs must be the stage composition in input order,
/// and a failing item must surface as Err (with only a correct prefix delivered)
fn stream_case(cx: &mut Ctx, rt: usize, nstages: usize, buffer: usize, slow: bool, panics: bool, xs: &[i64]) {
    let cell = "Pipeline::execute_stream";
    let case = json!({"cell": "stream", "kind": 14, "rt": rt, "stages": nstages, "buffer": buffer, "slow": slow, "panics": panics, "ops": xs});
    cx.sum.eval(cell, &format!("st {} {} {} {} {} {:?}", rt, nstages, buffer, slow, panics, xs), xs.len() >= 2);
    let xv = xs.to_vec();
    let n = xs.len();
    let r = guarded(|| with_rt(rt, async move {
        tokio::time::timeout(hang_for(buffer), async move {
            let mut cfg = PipelineConfig::default();
            cfg.buffer_size = buffer;
            if slow { cfg.stage_timeout = Duration::from_millis(8); }
            let p = Pipeline::new(cfg);
            let stages: Vec<Box<dyn PipelineStage<i64, i64>>> = (0..nstages).map(|i| if slow && i == 0 {
                Box::new(SlowStage { batching: false }) as Box<dyn PipelineStage<i64, i64>>
            } else if panics {
                Box::new(MapStage::new("s".to_string(), stage_p)) as Box<dyn PipelineStage<i64, i64>>
            } else {
                Box::new(MapStage::new("s".to_string(), stage)) as Box<dyn PipelineStage<i64, i64>>
            }).collect();
            let (itx, irx) = tokio::sync::mpsc::channel::<i64>(buffer.max(1)); // the harness's own input channel
            let (otx, mut orx) = tokio::sync::mpsc::channel::<i64>(n + 4);
            let feeder = tokio::spawn(async move { for x in xv { if itx.send(x).await.is_err() { break; } } });
            let res = p.execute_stream(stages, irx, otx).await;
            let _ = feeder.await;
            let mut outs = vec![];
            while let Some(v) = orx.recv().await { outs.push(v); }
            (res.is_ok(), outs, res.err().map(|e| err_code(&e)).unwrap_or(0))
        }).await
    }));
    // expected: composition of the stages, item by item (the first stage times out on x = 7 mod 32 when slow)
    let through = |x: i64| -> Option<i64> {
        let mut v = x;
        for s in 0..nstages {
            if slow && s == 0 && v.rem_euclid(32) == 7 { return None; }
            if panics && !(slow && s == 0) && v.rem_euclid(64) == 30 { return None; }
            match stage(v) { Ok(y) => v = y, Err(_) => return None }
        }
        Some(v)
    };
    let mut want: Vec<i64> = vec![];
    let mut all_ok = true;
    for &x in xs { match through(x) { Some(v) => want.push(v), None => { all_ok = false; break; } } }
    match r {
        Err(p) => cx.sum.fail(cell, None, case, &format!("panicked: {}", p)),
        Ok(Err(_)) => cx.sum.fail(cell, None, case, "did not return (8 s; 0.7 s when the limit is 0)"),
        Ok(Ok((ok, outs, code))) => {
            // the verdict, and the output of a successful run, are schedule-independent: compare with the stream model as
            // before, then with the model that has the join loop and the error identities (the error returned must be the
            // error of the first failing item of some stage)
            let mut obs: Vec<i64> = vec![];
            if !panics { obs.push(if ok { 1 } else { 0 }); if ok { obs.extend_from_slice(&outs); } obs.push(-8); }
            obs.push(if ok { 1 } else { 0 });
            if ok { obs.extend_from_slice(&outs); } else { obs.push(code); }
            let mut ops: Vec<i64> = vec![code];
            ops.extend_from_slice(xs);
            cx.coq(14, nstages as u64, (if slow { 1 } else { 0 }) + (if panics { 2 } else { 0 }), &ops, &obs, &case, false);
            if all_ok {
                if !ok || outs != want { cx.sum.fail(cell, None, case, &format!("ok={} outputs {:?}, want {:?}", ok, outs, want)); }
            } else if ok {
                cx.sum.fail(cell, None, case, &format!("an item failed in a stage but execute_stream returned Ok(()) with {} of {} results", outs.len(), n));
            } else {
                // error surfaced: whatever was delivered must be a prefix of the correct output (possibly longer than `want`,
                // which stops at the first failing item only in input order - items before it are all there is)
                let full: Vec<Option<i64>> = xs.iter().map(|&x| through(x)).collect();
                let ok_prefix = outs.len() <= want.len() && outs[..] == want[..outs.len()];
                if !ok_prefix { cx.sum.fail(cell, None, case, &format!("error surfaced but delivered {:?} is not a prefix of {:?} (per item {:?})", outs, want, full)); }
            }
        }
    }
}

/// ops: 1000+x = add x, 1 = flush, 2 = check_timeout; timeout_zero: batch_timeout 0 (check flushes) or 1 h (never)
fn collector_case(cx: &mut Ctx, maxb: usize, timeout_zero: bool, ops: &[i64], force: bool) {
    let cell = "BatchCollector";
    let case = json!({"cell": "collector", "kind": 4, "maxb": maxb, "tz": timeout_zero, "ops": ops});
    cx.sum.eval(cell, &format!("bc {} {} {:?}", maxb, timeout_zero, ops), ops.len() >= 3);
    let opv = ops.to_vec();
    let r = guarded(|| with_rt(0, async move {
        tokio::time::timeout(HANG, async move {
            let c: BatchCollector<i64> = BatchCollector::new(maxb, if timeout_zero { Duration::from_millis(0) } else { Duration::from_secs(3600) });
            let mut batches: Vec<(i64, Vec<i64>)> = vec![];
            for &o in &opv {
                let b = if o >= 1000 { c.add(o - 1000).await } else if o == 1 { c.flush().await } else { c.check_timeout().await };
                if let Ok(Some(b)) = b { batches.push((o, b)); }
            }
            let rest = c.len().await;
            let tail = c.flush().await.ok().flatten().unwrap_or_default();
            (batches, rest, tail)
        }).await
    }));
    match r {
        Err(p) => cx.sum.fail(cell, None, case, &format!("panicked: {}", p)),
        Ok(Err(_)) => cx.sum.fail(cell, None, case, "did not return (8 s; 0.7 s when the limit is 0)"),
        Ok(Ok((batches, rest, tail))) => {
            let added: Vec<i64> = ops.iter().filter(|&&o| o >= 1000).map(|&o| o - 1000).collect();
            let mut flat: Vec<i64> = batches.iter().flat_map(|(_, b)| b.iter().cloned()).collect();
            flat.extend_from_slice(&tail);
            // model history: check_timeout with zero timeout acts as flush, with a long timeout as nothing
            let mops: Vec<i64> = ops.iter().filter_map(|&o| if o >= 1000 || o == 1 { Some(o) } else if timeout_zero { Some(1) } else { None }).collect();
            let mut obs: Vec<i64> = vec![];
            for (_, b) in &batches { obs.extend_from_slice(b); obs.push(-1); }
            obs.push(-2);
            obs.extend_from_slice(&tail);
            cx.coq(4, maxb as u64, 0, &mops, &obs, &case, force);
            if flat != added {
                cx.sum.fail(cell, None, case, &format!("batches {:?} + remainder {:?} are not the added items {:?} in order", batches, tail, added));
            } else if rest != tail.len() {
                cx.sum.fail(cell, None, case, &format!("len() = {} but the final flush returned {} items", rest, tail.len()));
            } else if batches.iter().any(|(_, b)| b.is_empty()) {
                cx.sum.fail(cell, None, case, "an empty batch was emitted");
            }
            // (batch sizes are compared through the model only: the property does not fix them)
        }
    }
}

const BC_TIMEOUT_MS: u64 = 25;
const BC_TICK_MS: u64 = 60;

/// BatchCollector against a real clock (M+S).  ops: 1000+x = add x, 1 = flush, 2 = check_timeout, 3 = wait 60 ms;
/// batch_timeout = 25 ms.  A check_timeout with no wait since the last flush must not fire, one after a wait must
/// (if the buffer is non-empty).  The Coq case is emitted only when the run was not stalled (a check within 12 ms
/// of the last flush when no wait lies in between), so that the model's clock is the real one up to the margins.
fn collector_clock_case(cx: &mut Ctx, maxb: usize, ops: &[i64], force: bool) {
    let cell = "BatchCollector (clock)";
    let case = json!({"cell": "collector_clock", "kind": 15, "maxb": maxb, "ops": ops});
    cx.sum.eval(cell, &format!("bt {} {:?}", maxb, ops), ops.len() >= 3);
    let opv = ops.to_vec();
    let r = guarded(|| with_rt(0, async move {
        tokio::time::timeout(HANG, async move {
            let c: BatchCollector<i64> = BatchCollector::new(maxb, Duration::from_millis(BC_TIMEOUT_MS));
            let mut since = Instant::now(); // the last flush as the harness saw it
            let mut waited = false;
            let mut stalled = false;
            let mut batches: Vec<(i64, Vec<i64>)> = vec![];
            for &o in &opv {
                if o == 3 { std::thread::sleep(Duration::from_millis(BC_TICK_MS)); waited = true; continue; }
                if o == 2 && !waited && since.elapsed() > Duration::from_millis(12) { stalled = true; }
                let b = if o >= 1000 { c.add(o - 1000).await } else if o == 1 { c.flush().await } else { c.check_timeout().await };
                if o == 2 && !waited && since.elapsed() > Duration::from_millis(12) { stalled = true; }
                if let Ok(Some(b)) = b { batches.push((if o >= 1000 { 1000 } else { o }, b)); since = Instant::now(); waited = false; }
            }
            let rest = c.len().await;
            let tail = c.flush().await.ok().flatten().unwrap_or_default();
            (batches, rest, tail, stalled)
        }).await
    }));
    match r {
        Err(p) => cx.sum.fail(cell, None, case, &format!("panicked: {}", p)),
        Ok(Err(_)) => cx.sum.fail(cell, None, case, "did not return (8 s)"),
        Ok(Ok((batches, rest, tail, stalled))) => {
            let added: Vec<i64> = ops.iter().filter(|&&o| o >= 1000).map(|&o| o - 1000).collect();
            let mut flat: Vec<i64> = batches.iter().flat_map(|(_, b)| b.iter().cloned()).collect();
            flat.extend_from_slice(&tail);
            if stalled { cx.sum.dist("collector_clock_case_stalled_not_compared"); } else {
                let mut obs: Vec<i64> = vec![];
                for (o, b) in &batches { obs.push(*o); obs.extend_from_slice(b); obs.push(-1); }
                obs.push(-2);
                obs.extend_from_slice(&tail);
                cx.coq(15, maxb as u64, BC_TIMEOUT_MS * 1000 + BC_TICK_MS, ops, &obs, &case, force);
            }
            if flat != added {
                cx.sum.fail(cell, None, case, &format!("batches {:?} + remainder {:?} are not the added items {:?} in order", batches, tail, added));
            } else if rest != tail.len() {
                cx.sum.fail(cell, None, case, &format!("len() = {} but the final flush returned {} items", rest, tail.len()));
            } else if batches.iter().any(|(_, b)| b.is_empty()) {
                cx.sum.fail(cell, None, case, "an empty batch was emitted");
            }
        }
    }
}

/// BatchCollector with its background timeout checker on a multi-thread runtime (S-only): one producer adds 0..n with
/// pauses, `start_timeout_checker` flushes concurrently (batch_timeout `timeout_ms`, 0 included).  Every batch (from add,
/// from the checker, the final flush) must be a run of consecutive items, the batches together must be exactly 0..n -
/// whatever the interleaving - and once the producer has stopped the checker must flush what is left in the buffer
/// (polled for up to 2 s): items that sit in the collector for ever have been accepted and never delivered.
fn collector_checker_case(cx: &mut Ctx, maxb: usize, n: usize, pause_every: usize, timeout_ms: u64) {
    let cell = "BatchCollector/timeout_checker (threads)";
    let case = json!({"cell": "collector_checker", "kind": 19, "maxb": maxb, "n": n, "pause_every": pause_every, "timeout_ms": timeout_ms, "ops": (0..n as i64).collect::<Vec<i64>>()});
    cx.sum.eval(cell, &format!("bk {} {} {} {}", maxb, n, pause_every, timeout_ms), n >= 2);
    cx.sum.cell_status(cell, "S-only");
    let r = guarded(|| with_rt(2, async move {
        tokio::time::timeout(HANG, async move {
            let c: BatchCollector<i64> = BatchCollector::new(maxb, Duration::from_millis(timeout_ms));
            let out: Arc<std::sync::Mutex<Vec<Vec<i64>>>> = Arc::new(std::sync::Mutex::new(vec![]));
            let o2 = out.clone();
            let h = c.start_timeout_checker(move |b: Vec<i64>| -> Pin<Box<dyn Future<Output = ()> + Send>> {
                let o3 = o2.clone();
                Box::pin(async move { o3.lock().unwrap().push(b); })
            });
            for i in 0..n as i64 {
                if let Ok(Some(b)) = c.add(i).await { out.lock().unwrap().push(b); }
                if pause_every > 0 && (i as usize) % pause_every == pause_every - 1 { tokio::time::sleep(Duration::from_millis(3)).await; }
            }
            // the producer is done: the checker owes us the rest of the buffer
            let t0 = Instant::now();
            while c.len().await > 0 && t0.elapsed() < Duration::from_secs(2) { tokio::time::sleep(Duration::from_millis(1)).await; }
            let stuck = c.len().await;
            tokio::time::sleep(Duration::from_millis(2)).await;
            h.abort();
            let _ = h.await;
            if let Ok(Some(b)) = c.flush().await { out.lock().unwrap().push(b); }
            let v = out.lock().unwrap().clone();
            (v, stuck)
        }).await
    }));
    match r {
        Err(p) => cx.sum.fail(cell, None, case, &format!("panicked: {}", p)),
        Ok(Err(_)) => cx.sum.fail(cell, None, case, "did not return (8 s)"),
        Ok(Ok((mut batches, stuck))) => {
            let broken = batches.iter().find(|b| b.is_empty() || b.windows(2).any(|w| w[1] != w[0] + 1)).cloned();
            batches.sort_by_key(|b| b.first().cloned().unwrap_or(-1));
            let flat: Vec<i64> = batches.iter().flat_map(|b| b.iter().cloned()).collect();
            let want: Vec<i64> = (0..n as i64).collect();
            if let Some(b) = broken { cx.sum.fail(cell, None, case, &format!("the batch {:?} is empty or not a run of consecutive items", b)); }
            else if flat != want { cx.sum.fail(cell, None, case, &format!("the batches {:?} are not the items 0..{} exactly once", batches, n)); }
            else if stuck > 0 { cx.sum.fail(cell, None, case, &format!("{} items were still in the buffer 2 s after the last add: the timeout checker (batch_timeout {} ms) never flushed them", stuck, timeout_ms)); }
        }
    }
}

/// which: 0 concurrent_with_yield, 1 process_vec_yielding, 2 run_with_yield, 3 YieldingIterator::for_each/collect,
/// 4 FiberIoUtils::batch_process, 5 FiberIoUtils::process_files_parallel, 6 AsyncMemoryBlobStore put_batch/get_batch
fn helper_case(cx: &mut Ctx, which: u64, rt: usize, limit: usize, xs: &[i64]) {
    let cell = ["CooperativeUtils::concurrent_with_yield", "CooperativeUtils::process_vec_yielding", "CooperativeUtils::run_with_yield",
                "YieldingIterator", "FiberIoUtils::batch_process", "FiberIoUtils::process_files_parallel", "AsyncMemoryBlobStore::put_batch/get_batch"][which as usize];
    let case = json!({"cell": "helper", "kind": 14, "which": which, "rt": rt, "limit": limit, "ops": xs});
    cx.sum.eval(cell, &format!("hp {} {} {} {:?}", which, rt, limit, xs), xs.len() >= 2);
    // all M+S since coq/C18/ModelYield.v / ModelStore.v (the Coq cases come from c18_yield.rs; this cell is their timing-based oracle)
    cx.sum.cell_status(cell, "M+S");
    let xv = xs.to_vec();
    let n = xs.len();
    let r = guarded(|| with_rt(rt, async move {
        tokio::time::timeout(hang_for(limit), async move {
            match which {
                0 => {
                    // later inputs finish earlier: completion order is the reverse of input order
                    let ops: Vec<_> = xv.iter().cloned().enumerate().map(|(i, x)| async move {
                        tokio::time::sleep(Duration::from_millis(((n - i) * 3) as u64)).await;
                        stage(x)
                    }).collect();
                    CooperativeUtils::concurrent_with_yield(ops, limit).await.ok()
                }
                1 => CooperativeUtils::process_vec_yielding(xv, limit, stage).await.ok(),
                2 => { let v = xv.clone(); CooperativeUtils::run_with_yield(n, limit, move |i| stage(v[i])).await.ok() }
                3 => {
                    let mut seen = vec![];
                    let mut failed = false;
                    let res = YieldingIterator::new(xv.clone().into_iter(), limit).for_each(|x| { match stage(x) { Ok(y) => { seen.push(y); Ok(()) } Err(e) => { failed = true; Err(e) } } }).await;
                    let col: Vec<i64> = YieldingIterator::new(xv.clone().into_iter(), limit).collect().await;
                    if col != xv { return Some(vec![i64::MIN]); }
                    match res { Ok(cnt) => { if cnt != seen.len() { return Some(vec![i64::MIN + 1]); } Some(seen) } Err(_) => { let _ = failed; None } }
                }
                4 => FiberIoUtils::batch_process(xv, limit, |b: Vec<i64>| -> Pin<Box<dyn Future<Output = ZResult<Vec<i64>>> + Send>> {
                        Box::pin(async move { b.into_iter().map(stage).collect() }) }).await.ok(),
                5 => {
                    let paths: Vec<String> = xv.iter().enumerate().map(|(i, x)| format!("{}:{}", i, x)).collect();
                    FiberIoUtils::process_files_parallel(paths, limit, move |p: String| -> Pin<Box<dyn Future<Output = ZResult<i64>> + Send>> {
                        Box::pin(async move {
                            let mut it = p.split(':');
                            let i: usize = it.next().unwrap().parse().unwrap();
                            let x: i64 = it.next().unwrap().parse().unwrap();
                            tokio::time::sleep(Duration::from_millis(((n - i) * 3) as u64)).await;
                            stage(x)
                        })
                    }).await.ok()
                }
                _ => {
                    let store = AsyncMemoryBlobStore::new();
                    let blobs: Vec<Vec<u8>> = xv.iter().map(|x| x.to_le_bytes().to_vec()).collect();
                    let refs: Vec<&[u8]> = blobs.iter().map(|b| b.as_slice()).collect();
                    let ids = match store.put_batch(refs).await { Ok(i) => i, Err(_) => return None };
                    if ids.len() != n { return Some(vec![i64::MIN]); }
                    let back = match store.get_batch(ids).await { Ok(b) => b, Err(_) => return None };
                    let mut out = vec![];
                    for b in back { if b.len() != 8 { return Some(vec![i64::MIN]); } out.push(3 * i64::from_le_bytes(b.try_into().unwrap()) + 1); }
                    Some(out)
                }
            }
        }).await
    }));
    let want = if which == 6 { Some(xs.iter().map(|x| 3 * x + 1).collect()) } else { seq_map(xs, false) };
    match r {
        Err(p) => cx.sum.fail(cell, None, case, &format!("panicked: {}", p)),
        Ok(Err(_)) => cx.sum.fail(cell, None, case, "did not return (8 s; 0.7 s when the limit is 0)"),
        Ok(Ok(got)) => {
            if got != want { cx.sum.fail(cell, None, case, &format!("returned {:?}, applying the function in input order gives {:?}", got, want)); }
        }
    }
}

#[path = "c18_wide.rs"]
mod wide;
#[path = "c18_yield.rs"]
mod ym;

// ---------------------------------------------------------------------------------------------
// replay
// ---------------------------------------------------------------------------------------------
fn ints(v: &Value) -> Vec<i64> { v.as_array().map(|a| a.iter().filter_map(|x| x.as_i64()).collect()).unwrap_or_default() }
fn u(v: &Value, d: u64) -> u64 { v.as_u64().unwrap_or(d) }

fn run_one(cx: &mut Ctx, c: &Value) {
    let ops = ints(&c["ops"]);
    cx.tk = u(&c["tk"], 0).min(2) as u8;
    if wide::run_one(cx, c) { return; }
    match c["cell"].as_str().unwrap_or("") {
        "WorkStealingQueue" => {
            let ops: Vec<i64> = ops.into_iter().filter(|&o| (1..=4).contains(&o) || is_task_code(o)).collect();
            queue_case(cx, u(&c["cap"], 8) as usize, u(&c["variant"], 0), &ops, true)
        }
        "qthreads" => {
            let ops: Vec<i64> = ops.into_iter().filter(|&o| is_task_code(o)).collect();
            queue_threads_case(cx, u(&c["cap"], 8) as usize, u(&c["thieves"], 2).max(1) as usize, &ops, u(&c["balance_every"], 4) as usize)
        }
        "executor" => {
            let ops: Vec<i64> = ops.into_iter().filter(|&o| is_task_code(o)).collect();
            exec_case(cx, u(&c["nw"], 1).max(1) as usize, u(&c["cap"], 8) as usize, u(&c["rt"], 0) as usize, u(&c["mode"], 0), &ops, true)
        }
        "hist" => {
            let nw = u(&c["nw"], 1).max(1) as usize;
            let ops: Vec<i64> = ops.into_iter().filter(|&o| is_task_code(o) || o == 5 || o == 6 || (10..10 + nw as i64).contains(&o) || (30..30 + nw as i64).contains(&o) || (40..40 + nw as i64).contains(&o)).collect();
            hist_case(cx, nw, u(&c["cap"], 2) as usize, &ops, true)
        }
        "order" => {
            let ops: Vec<i64> = ops.into_iter().filter(|&o| is_task_code(o)).collect();
            order_case(cx, u(&c["cap"], 8) as usize, &ops, true)
        }
        "pmap" => pmap_case(cx, u(&c["which"], 0).min(3), u(&c["rt"], 0) as usize, u(&c["max_fibers"], 4) as usize, &ops, c["panics"].as_bool().unwrap_or(false), true),
        "foreach" => foreach_case(cx, u(&c["rt"], 0) as usize, u(&c["max_fibers"], 4).max(1) as usize, &ops, true),
        "poolhist" => {
            let ops: Vec<i64> = ops.into_iter().filter(|&o| (0..=2).contains(&o)).take(14).collect();
            pool_hist_case(cx, u(&c["max_fibers"], 2).max(1) as usize, &ops, &ints(&c["gates"]), true)
        }
        "reduce" => reduce_case(cx, u(&c["which"], 0).min(1), u(&c["rt"], 0) as usize, u(&c["mw"], 2) as usize, &ops, true),
        "process_batch" => batch_case(cx, u(&c["which"], 0).min(9), c["batching"].as_bool().unwrap_or(false), &ops, true),
        "single" => single_case(cx, &ops),
        "stream" => stream_case(cx, u(&c["rt"], 0) as usize, u(&c["stages"], 1).max(1) as usize, u(&c["buffer"], 1) as usize, c["slow"].as_bool().unwrap_or(false),
                                c["panics"].as_bool().unwrap_or(false), &ops),
        "collector" => {
            let ops: Vec<i64> = ops.into_iter().filter(|&o| o >= 1000 || o == 1 || o == 2).collect();
            collector_case(cx, u(&c["maxb"], 2) as usize, c["tz"].as_bool().unwrap_or(false), &ops, true)
        }
        "collector_clock" => {
            let ops: Vec<i64> = ops.into_iter().filter(|&o| o >= 1000 || (1..=3).contains(&o)).collect();
            collector_clock_case(cx, u(&c["maxb"], 2).max(1) as usize, &ops, true)
        }
        "collector_checker" => collector_checker_case(cx, u(&c["maxb"], 2).max(1) as usize, ops.len(), u(&c["pause_every"], 3) as usize, u(&c["timeout_ms"], 2)),
        "yieldtrace" => ym::yield_trace_case(cx, match u(&c["which"], 1) { w @ (1 | 2 | 3 | 4 | 7 | 8 | 9 | 10 | 11) => w, _ => 1 }, u(&c["limit"], 1) as usize, &ops, true),
        "lifehist" => ym::life_hist_case(cx, u(&c["nw"], 1).clamp(1, 8) as usize, u(&c["cap"], 2) as usize, &ops, true),
        "fyhist" => ym::fy_hist_case(cx, u(&c["obj"], 0).min(1), u(&c["param"], 1) as usize, &ops, true),
        "storehist" => ym::store_case(cx, u(&c["preset"], 0).min(2), &ops, true),
        "buffered" => ym::buffered_case(cx, if u(&c["which"], 0) == 0 { 0 } else { 5 }, u(&c["limit"], 1) as usize, &ops, &ints(&c["gates"]), true),
        "helper" => helper_case(cx, u(&c["which"], 0).min(6), u(&c["rt"], 0) as usize, u(&c["limit"], 1) as usize, &ops),
        _ => {}
    }
}

// ---------------------------------------------------------------------------------------------
// generation
// ---------------------------------------------------------------------------------------------

/// all op sequences of the given length over a small alphabet, in a fixed order
fn enumerate_queue(cx: &mut Ctx, len: usize, alphabet: &[i64], cap: usize, stride: usize) {
    let k = alphabet.len();
    let total = k.pow(len as u32);
    let mut idx = 0usize;
    while idx < total {
        let mut ops = Vec::with_capacity(len);
        let mut x = idx;
        for _ in 0..len { ops.push(alphabet[x % k]); x /= k; }
        // sequences that start with a removal from the empty queue only repeat shorter ones
        if ops[0] >= 1000 { queue_case(cx, cap, (idx % 2) as u64, &ops, false); }
        idx += stride;
    }
}

pub fn run(args: &Args) {
    let mut cx = Ctx {
        sum: Summary::new("C18", "corpus; all WorkStealingQueue histories of <= 6 operations over push(prio 0/1, stealable or not)/pop_local/steal/balance + random histories around the capacity; the running executor with 1, 2, 3, 4 workers on current-thread and multi-thread runtimes, task counts around workers*capacity, around the global overflow and around the balance trigger (100 executed), mixed priorities/stealability/task behaviour (incl. tasks that fail, that panic, and that submit children from inside a worker), workers busy / idle / idle for 120 ms when the tasks arrive, a second wave after a complete drain; executor histories through the paused-executor hook (all interleavings of submit/find_task/balance of small shape for 1 and 2 workers + random ones for 1..4 workers); FiberPool histories (1..9 gated bodies that succeed, fail or panic, max_fibers 1..n+1, random gate orders); executor histories with is_idle and queue-length observers around the capacity; parallel_map/for_each/reduce, process_batch, execute_single/two_stage, execute_stream (also with panicking stages), BatchCollector (also against the real clock and with its background checker on two threads) and the yield/aio helpers on vectors of length 0..40 with and without failing, panicking and timed-out items, concurrency limits, batch sizes and yield intervals 0, 1, 2, around the input length and beyond; oracle breadth (c18_wide.rs, oracle only): the same queue / hook-history / executor cells with the library's ClosureTask and submit_closure as the task type and with a Task that keeps the trait's default methods, 64 workers and queues of 2^16 / 2^20 slots, executor lifecycles (2-4 waves, statistics at rest, shutdown, submissions after it), the process-wide executor (init_concurrency) shared by all its cases, histories of 3-13 different operations on one FiberPool (5 presets incl. FiberPoolBuilder and FiberPool::default; map / for_each / reduce / spawn_batch / spawn + abort / shutdown, failing and panicking items, unit / String / byte items), on one Pipeline (6 presets incl. PipelineBuilder with every setter, zeros and Duration::MAX; MapStage / BatchMapStage with max_concurrency / FilterStage / suspending and slow stages, execute_single / two_stage / stream with a concurrent consumer / zero stages, the stages' own process_batch) and on one blob store (memory presets, file store, compressed wrappers: put_batch / put / remove / get_batch in permuted order, with duplicates and with a missing id), BatchCollector over unit / u8 / String items with batch limits 0, 1, usize::MAX, inputs of 15..300 items around the yield budget and of 100..65537 items (described by which / n / seed) around the batch size 100, the buffer 1000, the in-flight limit 10000, 4096, 2^16 and multiples of the CPU count through 17 entry points, histories on the yield points for 7 budget configurations, real files around 64 KiB and 256 KiB through FiberAio, spawn_blocking / Fiber / abort. A case is non-trivial when it has >= 2 tasks/items (queue histories: >= 2 pushes and a steal or balance); distinct = distinct canonical case text"),
        shards: CoqShards::new(&header(), 300),
        budget: {
            let mut b = [0usize; NK];
            let base: [usize; 8] = if args.thorough { [5000, 600, 1200, 1200, 1200, 600, 4000, 1200] } else { [400, 60, 150, 120, 120, 60, 400, 120] };
            b[..8].copy_from_slice(&base);
            // 8 pool history, 9 FiberPool::parallel_map, 10 parallel_for_each, 11 FiberPool::parallel_reduce
            // (9 and 11 count against the budgets of kinds 2 and 3: the same runs, compared with both models)
            let more: [usize; 4] = if args.thorough { [1500, 0, 400, 0] } else { [60, 0, 40, 0] };
            b[8..12].copy_from_slice(&more);
            // 12 process_batch (budget of kind 2), 13 execute_single/two_stage, 14 execute_stream (budget of kind 7), 15 BatchCollector with a clock
            b[2] += 20;
            b[13] = 100;
            b[15] = if args.thorough { 200 } else { 24 };
            b[18] = if args.thorough { 200 } else { 24 }; // concurrency::parallel_reduce
            b[19] = if args.thorough { 900 } else { 70 }; // yielding loops driven by hand
            b[20] = if args.thorough { 600 } else { 60 }; // buffered(max_concurrent) over gated operations
            b[21] = if args.thorough { 300 } else { 50 }; // AsyncMemoryBlobStore histories
            b[22] = if args.thorough { 400 } else { 60 }; // executor histories with shutdown (hook)
            b[23] = if args.thorough { 200 } else { 30 }; // FiberYield / YieldPoint histories
            b
        },
        used: [0; NK],
        rng: Rng::new(args.seed),
        thorough: args.thorough,
        tk: 0,
        objs: std::rc::Rc::new(wide::Objs::new()),
    };
    for c in ["WorkStealingQueue", "WorkStealingExecutor::submit", "FiberPool::parallel_map", "concurrency::parallel_map", "concurrency::join_all",
              "FiberPool::spawn_batch", "FiberPool::parallel_reduce", "FiberPool::parallel_for_each", "Pipeline::process_batch", "BatchCollector",
              "WorkStealingExecutor/worker_loop order (1 worker)", "WorkStealingExecutor/history (hook)", "Pipeline::execute_stream",
              "FiberPool::spawn (semaphore history)", "Pipeline::execute_single/two_stage", "BatchCollector (clock)"] {
        cx.sum.cell_status(c, "M+S");
    }
    cx.sum.cell_status("concurrency::parallel_reduce", "M+S");
    if let Some(f) = &args.replay {
        let txt = std::fs::read_to_string(f).expect("replay file");
        let v: Value = serde_json::from_str(&txt).expect("replay json");
        let c = if v.get("case").is_some() { v["case"].clone() } else { v };
        run_one(&mut cx, &c);
        let sh = cx.shards.write(&args.out);
        cx.sum.write(&args.out, sh);
        return;
    }
    // 1. corpus
    if let Ok(rd) = std::fs::read_dir("corpus/C18") {
        let mut files: Vec<_> = rd.filter_map(|e| e.ok()).map(|e| e.path()).collect();
        files.sort();
        for p in files {
            if let Ok(txt) = std::fs::read_to_string(&p) {
                if let Ok(v) = serde_json::from_str::<Value>(&txt) {
                    let c = if v.get("case").is_some() { v["case"].clone() } else { v };
                    run_one(&mut cx, &c);
                    cx.sum.dist("corpus_cases");
                }
            }
        }
    }
    let thorough = args.thorough;

    // 2. queue histories: enumerated, then random around the capacity
    {
        // push(prio 0, stealable), push(prio 1, stealable), push(prio 0, pinned), pop_local, steal, balance
        let alpha = [1001i64, 1003, 1000, 1, 2, 3];
        for len in 1..=4 { enumerate_queue(&mut cx, len, &alpha, 3, 1); }
        enumerate_queue(&mut cx, 5, &alpha, 3, if thorough { 1 } else { 7 });
        enumerate_queue(&mut cx, 6, &alpha, 4, if thorough { 1 } else { 61 });
        let nrand = if thorough { 50000 } else { 1500 };
        for k in 0..nrand {
            let mut r = cx.rng.clone();
            let cap = *r.pick(&[0usize, 1, 2, 3, 4, 6, 8, 16]);
            let len = r.range(1, if k % 10 == 0 { 60 } else { 24 }) as usize;
            let prio_mix = r.below(4);
            let push_bias = r.range(3, 8);
            let ops: Vec<i64> = (0..len).map(|_| {
                if r.below(10) < push_bias { rand_code(&mut r, prio_mix, false) } else { *r.pick(&[1i64, 1, 2, 2, 3, 3, 4]) }
            }).collect();
            let variant = r.below(2);
            cx.rng = r;
            if k < 3 { cx.sum.sample(json!({"cell": "WorkStealingQueue", "cap": cap, "ops": ops})); }
            queue_case(&mut cx, cap, variant, &ops, false);
        }
    }

    // 2b. one queue under real threads
    {
        let nq = if thorough { 400 } else { 40 };
        for _ in 0..nq {
            let mut r = cx.rng.clone();
            let cap = *r.pick(&[1usize, 2, 4, 8, 64, 1024]);
            let thieves = *r.pick(&[1usize, 2, 3]);
            let n = r.range(2, 600) as usize;
            let prio_mix = r.below(4);
            let codes: Vec<i64> = (0..n).map(|_| rand_code(&mut r, prio_mix, false)).collect();
            let be = *r.pick(&[0usize, 1, 2, 5, 16]);
            cx.rng = r;
            queue_threads_case(&mut cx, cap, thieves, &codes, be);
        }
    }

    // 3. the running executor
    {
        let rts: &[usize] = &[0, 1, 2, 4];
        // 3a. boundary grid: workers x capacity x task count around workers*capacity, idle or not
        for &nw in &[1usize, 2, 3, 4] {
            for &cap in &[0usize, 1, 2, 4, 8] {
                let base = nw * cap;
                let mut counts = vec![base.saturating_sub(1), base, base + 1, 3 * base + 2];
                counts.sort(); counts.dedup();
                for &n in &counts {
                    if n == 0 { continue; }
                    for mode in 0..3u64 {
                        let mut r = cx.rng.clone();
                        let rt = if nw == 1 && mode < 2 { 0 } else { *r.pick(rts) };
                        let prio_mix = r.below(4);
                        let codes: Vec<i64> = (0..n).map(|_| rand_code(&mut r, prio_mix, true)).collect();
                        cx.rng = r;
                        if !thorough && nw >= 3 && mode == 2 && cap >= 4 { continue; }
                        exec_case(&mut cx, nw, cap, rt, mode, &codes, false);
                    }
                }
            }
        }
        // 3b. around the balance trigger: total_executed % 100 == 0 while many tasks are still queued
        for &(nw, cap, n) in &[(1usize, 256usize, 99usize), (1, 256, 100), (1, 256, 101), (1, 256, 230), (1, 64, 150), (2, 256, 230), (4, 64, 250), (1, 512, 420)] {
            for mode in 0..2u64 {
                for &rt in &[0usize, 2] {
                    let mut r = cx.rng.clone();
                    let prio_mix = r.below(3);
                    let beh = r.chance(1, 2);
                    let codes: Vec<i64> = (0..n).map(|_| rand_code(&mut r, prio_mix, beh)).collect();
                    cx.rng = r;
                    exec_case(&mut cx, nw, cap, rt, mode, &codes, false);
                }
            }
        }
        // 3c. the global overflow limit (10000): one worker, tiny local queue
        for &(nw, cap, n) in &[(1usize, 1usize, 10003usize), (2, 0, 10001)] {
            let codes: Vec<i64> = (0..n).map(|i| 1001 + if i % 4096 == 7 { 2 } else { 0 }).collect();
            exec_case(&mut cx, nw, cap, 0, 0, &codes, true);
            if !thorough { break; }
        }
        // 3c'. long-idle workers and a second wave after a complete drain
        for &(nw, cap, rt) in &[(1usize, 4usize, 0usize), (2, 2, 2), (1, 64, 2), (4, 1, 4)] {
            for mode in 3..5u64 {
                let mut r = cx.rng.clone();
                let n = if mode == 4 { 2 * (nw * cap + 3) } else { nw * cap + 2 };
                let codes: Vec<i64> = (0..n).map(|_| rand_code(&mut r, 2, true)).collect();
                cx.rng = r;
                exec_case(&mut cx, nw, cap, rt, mode, &codes, false);
            }
        }
        // 3d. random configurations
        let nrand = if thorough { 1500 } else { 60 };
        for k in 0..nrand {
            let mut r = cx.rng.clone();
            let nw = *r.pick(&[1usize, 1, 2, 3, 4, 8]);
            let cap = *r.pick(&[0usize, 1, 2, 3, 5, 8, 16, 64]);
            let n = match r.below(4) { 0 => r.range(1, 12) as usize, 1 => (nw * cap + r.below(3) as usize).max(1), 2 => r.range(90, 130) as usize, _ => r.range(1, 60) as usize };
            let rt = *r.pick(rts);
            let mode = r.below(3);
            let prio_mix = r.below(4);
            let codes: Vec<i64> = (0..n).map(|_| rand_code(&mut r, prio_mix, true)).collect();
            cx.rng = r;
            if k < 2 { cx.sum.sample(json!({"cell": "executor", "nw": nw, "cap": cap, "rt": rt, "mode": mode, "ops": codes})); }
            exec_case(&mut cx, nw, cap, rt, mode, &codes, false);
        }
    }

    // 3f. executor histories through the hook: every interleaving of submit / find_task / balance of small shape
    {
        // submit(p0 stealable), submit(p1 stealable), submit(p0 pinned), find 0, find 1, balance 0, balance 1
        let alpha2 = [1001i64, 1003, 1000, 10, 11, 30, 31];
        for len in 1..=3 { enumerate_hist(&mut cx, len, &alpha2, 2, 2, 1); }
        enumerate_hist(&mut cx, 4, &alpha2, 2, 2, if thorough { 1 } else { 3 });
        enumerate_hist(&mut cx, 5, &alpha2, 2, 3, if thorough { 1 } else { 23 });
        enumerate_hist(&mut cx, 6, &alpha2, 2, 3, if thorough { 5 } else { 211 });
        // one worker: submit x3, find, balance
        let alpha1 = [1001i64, 1003, 1000, 10, 30];
        for len in 1..=5 { enumerate_hist(&mut cx, len, &alpha1, 1, 4, 1); }
        enumerate_hist(&mut cx, 7, &alpha1, 1, 8, if thorough { 1 } else { 97 });
        // admission made visible: after every submission the (local, steal, global) lengths of the worker it went to and
        // is_idle(); around the capacity, so that the spill to the global queue and the round-robin choice show
        let nadm = if thorough { 400 } else { 30 };
        for k in 0..nadm {
            let mut r = cx.rng.clone();
            let nw = *r.pick(&[1usize, 2, 2, 3, 4]);
            let cap = *r.pick(&[0usize, 1, 1, 2, 3]);
            let nsub = nw * cap + r.range(1, 4) as usize;
            let prio_mix = r.below(3);
            let mut ops: Vec<i64> = vec![];
            for i in 0..nsub {
                ops.push(rand_code(&mut r, prio_mix, false));
                ops.push(40 + (i % nw) as i64);
                if r.chance(1, 3) { ops.push(6); }
                if r.chance(1, 4) { ops.push(10 + r.below(nw as u64) as i64); ops.push(6); }
                if r.chance(1, 6) { ops.push(30 + r.below(nw as u64) as i64); ops.push(40 + r.below(nw as u64) as i64); }
            }
            // take everything out again: is_idle() turns true with the last find_task although the harness, like a worker
            // between find_task and active_tasks += 1, still holds the tasks
            for _ in 0..(nsub + 1) { for w in 0..nw { ops.push(10 + w as i64); ops.push(6); } }
            cx.rng = r;
            if k < 1 { cx.sum.sample(json!({"cell": "hist", "nw": nw, "cap": cap, "ops": ops})); }
            hist_case(&mut cx, nw, cap, &ops, true);
        }
        let nrand = if thorough { 30000 } else { 1200 };
        for k in 0..nrand {
            let mut r = cx.rng.clone();
            let nw = *r.pick(&[1usize, 1, 2, 2, 3, 4]);
            let cap = *r.pick(&[0usize, 1, 2, 3, 4, 8, 16]);
            let len = r.range(1, if k % 8 == 0 { 80 } else { 30 }) as usize;
            let prio_mix = r.below(4);
            let sub_bias = r.range(3, 8);
            let ops: Vec<i64> = (0..len).map(|_| {
                if r.below(10) < sub_bias { rand_code(&mut r, prio_mix, false) }
                else { match r.below(9) { 0..=3 => 10 + r.below(nw as u64) as i64, 4 | 5 => 30 + r.below(nw as u64) as i64, 6 => 5, 7 => 6, _ => 40 + r.below(nw as u64) as i64 } }
            }).collect();
            cx.rng = r;
            if k < 2 { cx.sum.sample(json!({"cell": "hist", "nw": nw, "cap": cap, "ops": ops})); }
            hist_case(&mut cx, nw, cap, &ops, false);
        }
    }

    // 3e. single-worker execution order against the model's worker loop
    {
        let norder = if thorough { 500 } else { 56 };
        for k in 0..norder {
            let mut r = cx.rng.clone();
            let cap = *r.pick(&[0usize, 1, 2, 4, 8, 64, 256]);
            let n = match k % 4 { 0 => r.range(1, 12) as usize, 1 => cap + r.below(4) as usize, 2 => r.range(95, 130) as usize, _ => r.range(180, 260) as usize };
            let prio_mix = r.below(4);
            let codes: Vec<i64> = (0..n.max(1)).map(|_| rand_code(&mut r, prio_mix, false)).collect();
            cx.rng = r;
            order_case(&mut cx, cap, &codes, false);
        }
    }

    // 4. parallel_map / for_each / reduce
    {
        let lens: Vec<usize> = if thorough { (0..=40).collect() } else { vec![0, 1, 2, 3, 4, 5, 7, 8, 9, 16, 33] };
        for &n in &lens {
            for fail in 0..3u64 {
                let mut r = cx.rng.clone();
                let xs = rand_items(&mut r, n, fail);
                let rt = *r.pick(&[0usize, 2, 4]);
                let mf = *r.pick(&[1usize, 2, n.max(2) - 1, n.max(1), n + 1]);
                cx.rng = r;
                for which in 0..4u64 { pmap_case(&mut cx, which, rt, mf.max(1), &xs, false, false); }
                if n == 3 { pmap_case(&mut cx, 0, rt, 0, &xs, false, false); pmap_case(&mut cx, 3, rt, 0, &xs, false, false); }
                foreach_case(&mut cx, rt, mf.max(1), &xs, false);
                if rt != 0 { foreach_case(&mut cx, 0, mf.max(1), &xs, false); }
                for &mw in &[0usize, 1, 2, 3, n.max(2) - 1, n.max(1), n + 1, 100] { reduce_case(&mut cx, 0, rt, mw, &xs, false); }
                reduce_case(&mut cx, 1, rt, 1, &xs, false);
                if rt != 0 { reduce_case(&mut cx, 1, 0, 1, &xs, false); }
                if fail == 0 && n > 0 {
                    // a panicking item is a join error: it must surface as Err
                    let mut ys = xs.clone();
                    let i = (n * 2 / 3).min(n - 1);
                    ys[i] = 64 * (i as i64) + 30;
                    for which in 0..4u64 { pmap_case(&mut cx, which, rt, mf.max(1), &ys, true, false); }
                }
            }
        }
    }

    // 4b. FiberPool histories: the semaphore under a schedule chosen by the harness
    {
        let nph = if thorough { 1500 } else { 50 };
        for k in 0..nph {
            let mut r = cx.rng.clone();
            let n = if k < 4 { k + 1 } else { r.range(2, 9) as usize };
            let mf = *r.pick(&[1usize, 1, 2, 2, 3, n.max(2) - 1, n, n + 1]);
            let bad = r.below(3); // 0: no failing body, 1: some fail, 2: fail and panic
            let codes: Vec<i64> = (0..n).map(|_| if bad >= 1 && r.chance(1, 3) { if bad == 2 && r.chance(1, 2) { 2 } else { 1 } } else { 0 }).collect();
            // a random order of the gates (Fisher-Yates), sometimes opening a gate of a fiber that is still waiting first
            let mut gates: Vec<i64> = (0..n as i64).collect();
            for i in (1..n).rev() { let j = r.below(i as u64 + 1) as usize; gates.swap(i, j); }
            cx.rng = r;
            if k < 2 { cx.sum.sample(json!({"cell": "poolhist", "max_fibers": mf, "ops": codes, "gates": gates})); }
            pool_hist_case(&mut cx, mf.max(1), &codes, &gates, false);
        }
    }

    // 5. pipeline
    {
        let lens: Vec<usize> = if thorough { (0..=24).collect() } else { vec![0, 1, 2, 3, 5, 8, 13] };
        for &n in &lens {
            for fail in 0..3u64 {
                let mut r = cx.rng.clone();
                let xs = rand_items(&mut r, n, fail);
                cx.rng = r;
                for which in 0..3u64 { for &b in &[false, true] { batch_case(&mut cx, which, b, &xs, false); } }
                for which in 5..9u64 { batch_case(&mut cx, which, which % 2 == 0, &xs, false); }
                for &rt in &[0usize, 2] {
                    for &(st, buf) in &[(1usize, 1usize), (2, 1), (3, 2), (2, 64), (2, 0)] { stream_case(&mut cx, rt, st, buf, false, false, &xs); }
                }
            }
        }
        // twenty items of 30 ms each under a 500 ms stage timeout: no single item is late, the batch as a whole takes longer
        {
            let mut r = cx.rng.clone();
            let mut xs = rand_items(&mut r, 20, 0);
            for x in xs.iter_mut() { if x.rem_euclid(16) == 13 { *x += 1; } }
            cx.rng = r;
            batch_case(&mut cx, 9, false, &xs, false);
            batch_case(&mut cx, 9, true, &xs, false);
        }
        // timed-out items (each costs the stage timeout, so only a few)
        for &n in &[1usize, 3, 6] {
            let mut r = cx.rng.clone();
            let mut xs = rand_items(&mut r, n, 0);
            for x in xs.iter_mut() { if x.rem_euclid(32) == 7 { *x += 1; } }
            let i = r.below(n as u64) as usize;
            cx.rng = r;
            batch_case(&mut cx, 3, false, &xs, false);
            batch_case(&mut cx, 4, true, &xs, false);
            xs[i] = 32 * (i as i64) + 7;
            batch_case(&mut cx, 3, false, &xs, false);
            batch_case(&mut cx, 4, true, &xs, false);
            batch_case(&mut cx, 4, false, &xs, false);
            stream_case(&mut cx, 0, 2, 2, true, false, &xs);
            stream_case(&mut cx, 2, 1, 1, true, false, &xs);
            // a panicking stage function: the stage task dies, execute_stream must return Err (a join error)
            let mut ys = xs.clone();
            ys[i] = 64 * (i as i64) + 30;
            stream_case(&mut cx, 0, 2, 2, false, true, &ys);
            stream_case(&mut cx, 2, 3, 1, false, true, &ys);
        }
        single_case(&mut cx, &[5, 13, 7, 39, -3, 4]);
        // BatchCollector histories
        let ncoll = if thorough { 4000 } else { 250 };
        for _ in 0..ncoll {
            let mut r = cx.rng.clone();
            let maxb = *r.pick(&[1usize, 2, 3, 4, 7]);
            let len = r.range(0, 20) as usize;
            let ops: Vec<i64> = (0..len).map(|i| if r.chance(3, 4) { 1000 + i as i64 } else { *r.pick(&[1i64, 2]) }).collect();
            let tz = r.chance(1, 2);
            cx.rng = r;
            collector_case(&mut cx, maxb, tz, &ops, false);
        }
        // BatchCollector against the real clock: check_timeout before and after the batch timeout has passed
        let nclock = if thorough { 200 } else { 20 };
        for k in 0..nclock {
            let mut r = cx.rng.clone();
            let maxb = *r.pick(&[2usize, 3, 4, 7]);
            let len = r.range(3, 12) as usize;
            let mut ticks = 0;
            let mut ops: Vec<i64> = (0..len).map(|i| match r.below(8) {
                0..=3 => 1000 + i as i64,
                4 | 5 => 2,
                6 => 1,
                _ => { if ticks < 2 { ticks += 1; 3 } else { 2 } }
            }).collect();
            if k % 3 == 0 { ops.extend_from_slice(&[1000 + len as i64, 2, 3, 2, 2]); }
            cx.rng = r;
            if k < 1 { cx.sum.sample(json!({"cell": "collector_clock", "maxb": maxb, "ops": ops})); }
            collector_clock_case(&mut cx, maxb, &ops, false);
        }
        // ... and with its background checker on two threads
        let nchk = if thorough { 60 } else { 8 };
        for _ in 0..nchk {
            let mut r = cx.rng.clone();
            let maxb = *r.pick(&[2usize, 3, 5, 64]);
            let n = r.range(2, 60) as usize;
            let pe = *r.pick(&[0usize, 1, 2, 3, 7]);
            let tm = *r.pick(&[2u64, 2, 0, 1]);
            cx.rng = r;
            collector_checker_case(&mut cx, maxb, n, pe, tm);
        }
    }

    // 6. yield / aio helpers, blob store batches
    {
        let lens: Vec<usize> = if thorough { vec![0, 1, 2, 3, 4, 5, 8, 12] } else { vec![0, 1, 2, 4, 7] };
        for &n in &lens {
            for fail in 0..2u64 {
                let mut r = cx.rng.clone();
                let xs = rand_items(&mut r, n, fail);
                let rt = *r.pick(&[0usize, 2]);
                cx.rng = r;
                for which in 0..7u64 {
                    for &limit in &[0usize, 1, 2, n.max(1), n + 3] {
                        if (which == 0 || which == 5) && limit != 0 && limit != 2 && limit != n + 3 { continue; }
                        helper_case(&mut cx, which, rt, limit, &xs);
                    }
                }
            }
        }
    }
    // 6b. the same helpers against coq/C18/ModelYield.v: loops driven by hand, buffered windows over gated operations
    ym::generate(&mut cx);
    // 7. oracle breadth (c18_wide.rs): the library's own task type, lifecycles, reused pools / pipelines / stores, presets and
    // builders, further element types, thresholds and big inputs
    wide::generate(&mut cx);
    cx.sum.dist_max("coq_cases", cx.shards.len() as u64);
    let sh = cx.shards.write(&args.out);
    cx.sum.write(&args.out, sh);
}
