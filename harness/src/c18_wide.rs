//! C18 oracle breadth: the public entry points, presets, options, element types and thresholds of the anchor files that the
//! cells of c18.rs do not reach, exercised inside operation histories on objects that are reused (one executor through several
//! waves and its shutdown, the process-wide executor across cases, one FiberPool / Pipeline / blob store through >= 3 different
//! operations), judged by the same dumb shadows (per-task counters, sequential application of the stage function, Vec / HashMap).
//! Everything here is oracle-only (S-only): the Coq models do not know these operations - except the BatchCollector histories over
//! unit / u8 / String items, which are also evaluated by the collector model (kind 4).  Big inputs are described by
//! (which, n, seed, param) in the case, never spelled out.
use super::*;
use std::cell::{Cell, OnceCell};
use std::sync::atomic::AtomicUsize;
use zipora::concurrency::async_blob_store::{AsyncCompressedBlobStore, AsyncFileStore};
use zipora::concurrency::fiber_aio::{FiberAio, FiberAioConfig, IoProvider};
use zipora::concurrency::fiber_pool::FiberPoolBuilder;
use zipora::concurrency::fiber_yield::{AdaptiveYieldScheduler, FiberYield, GlobalYield, YieldConfig, YieldPoint};
use zipora::concurrency::pipeline::{FilterStage, PipelineBuilder};
use zipora::concurrency::ConcurrencyConfig;

/// objects that live as long as the run
pub struct Objs {
    /// the runtime that owns the worker loops of the process-wide executor (`WorkStealingExecutor::global()`); never shut down
    grt: OnceCell<tokio::runtime::Runtime>,
    ginit: Cell<bool>,
    tmp_seq: Cell<u64>,
    /// calls that did not return (each costs its whole time limit): after three of them the big-input and yield cells stop
    hangs: Cell<u32>,
}
impl Objs {
    pub fn new() -> Self { Objs { grt: OnceCell::new(), ginit: Cell::new(false), tmp_seq: Cell::new(0), hangs: Cell::new(0) } }
    fn tmp_dir(&self, tag: &str) -> std::path::PathBuf {
        let k = self.tmp_seq.get();
        self.tmp_seq.set(k + 1);
        let p = std::env::temp_dir().join(format!("zv_c18_{}_{}_{}", std::process::id(), tag, k));
        let _ = std::fs::remove_dir_all(&p);
        let _ = std::fs::create_dir_all(&p);
        p
    }
}

fn s_only(cx: &mut Ctx, cell: &str) { cx.sum.cell_status(cell, "S-only"); }

/// a task type that implements `execute` only: priority, stealability and estimated duration are the trait's defaults
struct DefaultsTask(CountTask);
impl Task for DefaultsTask {
    fn execute(self: Box<Self>) -> Pin<Box<dyn Future<Output = ZResult<()>> + Send>> { Box::new(self.0).execute() }
}
/// task i of a lifecycle / global-executor case is built as kind i % 4: the harness's Task, ClosureTask, submit_closure, and - where
/// the code asks for priority 0 and a task that may be stolen - a Task with the trait's default methods
fn submit_mixed(ex: &WorkStealingExecutor, i: usize, t: CountTask) -> ZResult<()> {
    if i % 4 == 3 && t.prio == 0 && t.steal { ex.submit(Box::new(DefaultsTask(t))) } else { submit_k(ex, (i % 4).min(2) as u8, i, t) }
}

/// n items none of which fails, panics or times out in the shared stage function, derived from (seed, k); then one failing
/// (13 mod 16), panicking (30 mod 64) or slow (7 mod 32) item at the given position
fn gen_items(seed: u64, k: usize, n: usize, fail_at: Option<usize>, panic_at: Option<usize>) -> Vec<i64> {
    let mut r = Rng::new(seed ^ (k as u64).wrapping_mul(0x9E37_79B9));
    let mut v: Vec<i64> = (0..n).map(|_| {
        let mut x = r.below(4000) as i64 - 2000;
        while x.rem_euclid(16) == 13 || x.rem_euclid(64) == 30 || x.rem_euclid(32) == 7 { x += 1; }
        x
    }).collect();
    if let Some(i) = fail_at { if i < n { v[i] = 16 * (i as i64 % 50) + 13; } }
    if let Some(i) = panic_at { if i < n { v[i] = 64 * (i as i64 % 50) + 30; } }
    v
}
fn short<T: std::fmt::Debug>(v: &Option<Vec<T>>) -> String {
    match v { None => "Err".to_string(), Some(v) if v.len() <= 12 => format!("Ok({:?})", v), Some(v) => format!("Ok([{} items, first {:?}, last {:?}])", v.len(), &v[..3], &v[v.len() - 3..]) }
}
/// the first position at which two result vectors differ, for messages about big inputs
fn diff<T: PartialEq + std::fmt::Debug>(got: &Option<Vec<T>>, want: &Option<Vec<T>>) -> String {
    match (got, want) {
        (Some(g), Some(w)) => {
            if g.len() != w.len() { return format!("{} results for {} inputs", g.len(), w.len()); }
            match (0..g.len()).find(|&i| g[i] != w[i]) { Some(i) => format!("result {} is {:?}, the function applied to input {} gives {:?}", i, g[i], i, w[i]), None => "equal".to_string() }
        }
        _ => format!("returned {}, applying the function in input order gives {}", short(got), short(want)),
    }
}

// ---------------------------------------------------------------------------------------------
// cell: one executor through several waves, statistics at rest, shutdown, and submissions after the shutdown
// ---------------------------------------------------------------------------------------------

/// ops: task code = submit (task i is built as kind i % 4, see submit_mixed), 1 = wait until everything
/// accepted so far has run, then is_idle() and stats().total_executed must agree, 2 = let the workers go idle (3 ms),
/// 3 = shutdown().  A submission the executor accepts after its shutdown is still an accepted task: it must run (or be refused).
fn life_case(cx: &mut Ctx, nw: usize, cap: usize, rt: usize, ops: &[i64]) {
    let cell = "WorkStealingExecutor/lifecycle (waves, shutdown)";
    let case = json!({"cell": "life", "kind": 20, "nw": nw, "cap": cap, "rt": rt, "ops": ops});
    let nsub = ops.iter().filter(|&&o| o >= 1000).count();
    cx.sum.eval(cell, &format!("lf {} {} {} {:?}", nw, cap, rt, ops), nsub >= 2);
    s_only(cx, cell);
    let opv = ops.to_vec();
    let r = guarded(|| with_rt(rt, async move {
        let n = nsub;
        let counters: Arc<Vec<AtomicU32>> = Arc::new((0..2 * n + 1).map(|_| AtomicU32::new(0)).collect());
        let child: Arc<Vec<AtomicU32>> = Arc::new((0..n + 1).map(|_| AtomicU32::new(0)).collect());
        // an executor without workers could never run anything: refused at construction
        if WorkStealingExecutor::new(0, cap).is_ok() { return Some(format!("new(0, {}) returned an executor without workers", cap)); }
        let ex = match WorkStealingExecutor::new(nw, cap) { Ok(e) => e, Err(e) => return Some(format!("new({}, {}) failed: {:?}", nw, cap, e)) };
        let mut accept: Vec<bool> = vec![];
        let mut before_shutdown: Vec<bool> = vec![];
        let mut shut = false;
        let mut racy = false; // a shutdown while accepted tasks were still pending: those are exempt from "must run"
        // the accepted tasks (and accepted children) that have not run yet; tasks pending at a shutdown are not owed anything
        let pending = |accept: &Vec<bool>, before: &Vec<bool>, racy: bool| -> Vec<usize> {
            let mut v = vec![];
            for i in 0..accept.len() {
                if racy && before[i] { continue; }
                if accept[i] && counters[i].load(Ordering::SeqCst) == 0 { v.push(i); }
                if child[i].load(Ordering::SeqCst) == 1 && counters[n + i].load(Ordering::SeqCst) == 0 { v.push(n + i); }
            }
            v
        };
        let progress = || -> u64 { (0..2 * n).map(|i| counters[i].load(Ordering::SeqCst) as u64).sum() };
        for (k, &o) in opv.iter().enumerate() {
            if o >= 1000 {
                let i = accept.len();
                let t = CountTask { id: i, prio: code_prio(o), steal: code_steal(o), beh: code_beh(o), counters: counters.clone(),
                                    nest: if code_beh(o) == 5 { Some((ex.clone(), n, child.clone())) } else { None } };
                accept.push(submit_mixed(&ex, i, t).is_ok());
                before_shutdown.push(!shut);
            } else if o == 2 {
                tokio::time::sleep(Duration::from_millis(3)).await;
            } else if o == 3 {
                if !shut && !pending(&accept, &before_shutdown, false).is_empty() { racy = true; }
                if ex.shutdown().await.is_err() { return Some(format!("op {}: shutdown() returned an error", k)); }
                shut = true;
            }
            if o == 1 || k + 1 == opv.len() {
                let (mut last, mut last_change) = (progress(), Instant::now());
                let stall = Duration::from_millis(if shut { 300 } else { STALL_MS });
                loop {
                    let p = pending(&accept, &before_shutdown, racy);
                    if p.is_empty() { break; }
                    let now = progress();
                    if now != last { last = now; last_change = Instant::now(); }
                    if last_change.elapsed() > stall {
                        return Some(format!("op {}: {} accepted tasks never ran (no progress for {} ms{}); first ids {:?}; total_queued = {}, total_executed = {}",
                            k, p.len(), stall.as_millis(), if shut { ", the executor had been shut down when they were accepted" } else { "" }, &p[..p.len().min(8)], ex.total_queued(), ex.stats().total_executed));
                    }
                    tokio::time::sleep(Duration::from_micros(300)).await;
                }
                if !shut {
                    let t0 = Instant::now();
                    let mut idle = false;
                    while t0.elapsed() < Duration::from_secs(3) { if ex.is_idle() { idle = true; break; } tokio::time::sleep(Duration::from_micros(300)).await; }
                    if !idle { return Some(format!("op {}: everything accepted has run but is_idle() stays false (total_queued = {})", k, ex.total_queued())); }
                    tokio::time::sleep(Duration::from_millis(1)).await;
                    let acc = accept.iter().filter(|&&b| b).count() + (0..n).filter(|&i| child[i].load(Ordering::SeqCst) == 1).count();
                    let te = ex.stats().total_executed;
                    if te != acc as u64 { return Some(format!("op {}: stats().total_executed = {} after {} accepted tasks ran", k, te, acc)); }
                }
            }
        }
        tokio::time::sleep(Duration::from_millis(2)).await;
        for i in 0..accept.len() {
            let c = counters[i].load(Ordering::SeqCst);
            if c > 1 { return Some(format!("task {} ran {} times", i, c)); }
            if !accept[i] && c > 0 { return Some(format!("task {} was rejected by submit but ran", i)); }
            if counters[n + i].load(Ordering::SeqCst) > 1 { return Some(format!("the child of task {} ran more than once", i)); }
        }
        if !shut { let _ = ex.shutdown().await; }
        None
    }));
    match r {
        Err(p) => cx.sum.fail(cell, None, case, &format!("panicked: {}", p)),
        Ok(Some(p)) => cx.sum.fail(cell, None, case, &p),
        Ok(None) => {}
    }
}

// ---------------------------------------------------------------------------------------------
// cell: the process-wide executor (init_concurrency / WorkStealingExecutor::init / global), used by many cases
// ---------------------------------------------------------------------------------------------

/// ops: task codes, submitted to `WorkStealingExecutor::global()`; the executor was created by the first case of the run through
/// `init_concurrency` (3 workers, queues of 4) and has served every earlier case since
fn global_case(cx: &mut Ctx, ops: &[i64]) {
    let cell = "WorkStealingExecutor::global (init_concurrency)";
    let case = json!({"cell": "global", "kind": 21, "ops": ops});
    cx.sum.eval(cell, &format!("gl {:?}", ops), ops.len() >= 2);
    s_only(cx, cell);
    let objs = cx.objs.clone();
    let opv: Vec<i64> = ops.iter().cloned().filter(|&o| is_task_code(o)).collect();
    let r = guarded(|| {
        let grt = objs.grt.get_or_init(|| tokio::runtime::Builder::new_multi_thread().worker_threads(2).enable_all().build().unwrap());
        let first = !objs.ginit.get();
        objs.ginit.set(true);
        grt.block_on(async move {
            let cfg = |mf: usize, qs: usize| ConcurrencyConfig { max_fibers: mf, queue_size: qs, ..ConcurrencyConfig::default() };
            if first {
                // a configuration that admits no worker or no queue slot is refused, and does not create the executor
                if zipora::concurrency::init_concurrency(cfg(0, 4)).await.is_ok() { return Some("init_concurrency accepted max_fibers = 0".to_string()); }
                if zipora::concurrency::init_concurrency(cfg(3, 0)).await.is_ok() { return Some("init_concurrency accepted queue_size = 0".to_string()); }
                if WorkStealingExecutor::global().is_some() { return Some("global() is set although every init so far was refused".to_string()); }
                if let Err(e) = zipora::concurrency::init_concurrency(cfg(3, 4)).await { return Some(format!("init_concurrency failed: {:?}", e)); }
                // a second initialisation is accepted and must not disturb the first
                if let Err(e) = WorkStealingExecutor::init(cfg(1, 1)).await { return Some(format!("second init failed: {:?}", e)); }
            }
            let ex = match WorkStealingExecutor::global() { Some(e) => e.clone(), None => return Some("global() is None after init_concurrency returned Ok".to_string()) };
            let n = opv.len();
            let counters: Arc<Vec<AtomicU32>> = Arc::new((0..2 * n + 1).map(|_| AtomicU32::new(0)).collect());
            let child: Arc<Vec<AtomicU32>> = Arc::new((0..n + 1).map(|_| AtomicU32::new(0)).collect());
            // earlier cases have come to rest
            let t0 = Instant::now();
            while !ex.is_idle() && t0.elapsed() < Duration::from_secs(1) { tokio::time::sleep(Duration::from_micros(300)).await; }
            let base = ex.stats().total_executed;
            let mut accept = vec![];
            for (i, &c) in opv.iter().enumerate() {
                let t = CountTask { id: i, prio: code_prio(c), steal: code_steal(c), beh: code_beh(c), counters: counters.clone(),
                                    nest: if code_beh(c) == 5 { Some((ex.clone(), n, child.clone())) } else { None } };
                accept.push(submit_mixed(&ex, i, t).is_ok());
                if i % 5 == 4 { tokio::task::yield_now().await; }
            }
            let pending = || -> Vec<usize> {
                let mut v = vec![];
                for i in 0..n {
                    if accept[i] && counters[i].load(Ordering::SeqCst) == 0 { v.push(i); }
                    if child[i].load(Ordering::SeqCst) == 1 && counters[n + i].load(Ordering::SeqCst) == 0 { v.push(n + i); }
                }
                v
            };
            let progress = || -> u64 { (0..2 * n).map(|i| counters[i].load(Ordering::SeqCst) as u64).sum() };
            let (mut last, mut last_change) = (progress(), Instant::now());
            loop {
                let p = pending();
                if p.is_empty() { break; }
                let now = progress();
                if now != last { last = now; last_change = Instant::now(); }
                if last_change.elapsed() > Duration::from_millis(STALL_MS) {
                    return Some(format!("{} tasks accepted by the global executor never ran (no progress for {} ms); first ids {:?}; total_queued = {}", p.len(), STALL_MS, &p[..p.len().min(8)], ex.total_queued()));
                }
                tokio::time::sleep(Duration::from_micros(300)).await;
            }
            let t0 = Instant::now();
            let mut idle = false;
            while t0.elapsed() < Duration::from_secs(3) { if ex.is_idle() { idle = true; break; } tokio::time::sleep(Duration::from_micros(300)).await; }
            tokio::time::sleep(Duration::from_millis(2)).await;
            for i in 0..n {
                let c = counters[i].load(Ordering::SeqCst);
                if c > 1 { return Some(format!("task {} ran {} times", i, c)); }
                if !accept[i] && c > 0 { return Some(format!("task {} was rejected by submit but ran", i)); }
                if counters[n + i].load(Ordering::SeqCst) > 1 { return Some(format!("the child of task {} ran more than once", i)); }
            }
            if !idle { return Some(format!("all tasks finished but the global executor's is_idle() stayed false (total_queued = {})", ex.total_queued())); }
            let acc = accept.iter().filter(|&&b| b).count() + (0..n).filter(|&i| child[i].load(Ordering::SeqCst) == 1).count();
            let te = ex.stats().total_executed - base;
            if te != acc as u64 { return Some(format!("stats().total_executed grew by {} while {} accepted tasks ran", te, acc)); }
            None
        })
    });
    match r {
        Err(p) => cx.sum.fail(cell, None, case, &format!("panicked: {}", p)),
        Ok(Some(p)) => cx.sum.fail(cell, None, case, &p),
        Ok(None) => {}
    }
}

include!("c18_wide_pool.rs");
include!("c18_wide_pipe.rs");
include!("c18_wide_misc.rs");
