//! C10, oracle breadth: the secondary entry points, presets, element types and size thresholds of the anchored
//! containers that the operation histories of c10.rs do not reach by themselves. Everything here is judged by the same
//! shadows (VecDeque / Vec / Vec<String>) and none of it is replayed in Coq (no mechanism model for these paths).
//!   ring_plain / fixed_plain   the two queues over plain element types (u8, i16, u64, 24-byte struct, zero-sized), the
//!                              aliases push/pop, ==, Debug, Default, and sizes around 2^16 / 2^20 described by numbers
//!   bump_shared                several BumpVecs of different element types living in one BumpAllocator
//!   mm_readonly / presets      MmapVec behind its configuration presets, read-only re-opening
//!   str_big / str_long         string sets described by (kind, n, seed) / (kind, len): > 512 strings (block binary
//!                              search, rank-select blocks), 2^16 strings, strings at the 2^24 length limit
//!   probe                      constructors / element types that may take the process down, each in a child process
use super::*;

fn key_of(cj: &Value) -> String { cj.to_string() }

// ---------------------------------------------------------------------------------------------
// AutoGrowCircularQueue<T> over plain element types; the op vocabulary of ring_history
// ---------------------------------------------------------------------------------------------
pub fn ring_plain<T: Elem + Clone + PartialEq + std::fmt::Debug>(cx: &mut Ctx, cell: &str, tag: &str, cap0: u64, big: bool, ops: &[Vec<u64>]) {
    let mut cj = json!({"cell": tag, "cap": cap0, "ops": ops});
    if big { cj["big"] = json!(true); }
    if journal(&cj) { return; }
    cx.sum.eval(cell, &key_of(&cj), ops.len() >= 3);
    cx.sum.cell_status(cell, "S-only");
    let lim: u64 = if big { 1 << 21 } else { 40 };
    let r = guarded(|| -> Option<String> {
        let mut q: AutoGrowCircularQueue<T> = if cap0 == 0 && ops.len() % 2 == 1 { Default::default() } else if cap0 == 0 { AutoGrowCircularQueue::new() } else { AutoGrowCircularQueue::with_capacity(cap0 as usize) };
        let mut shadow: VecDeque<u64> = VecDeque::new();
        let mut next: u64 = 0;
        for o in ops {
            let code = op_arg(o, 0);
            let k = op_arg(o, 1).min(lim);
            match code {
                0 | 9 => { let x = T::make(next); next += 1; let id = x.id();
                           if (if code == 0 { q.push_back(x) } else { q.push(x) }).is_err() { return Some(format!("op {:?}: push refused", o)); } shadow.push_back(id); }
                1 | 10 => { let g = (if code == 1 { q.pop_front() } else { q.pop() }).map(|x| x.id()); let w = shadow.pop_front();
                            if g != w { return Some(format!("op {:?}: pop returned {:?}, a VecDeque returns {:?}", o, g, w)); } }
                2 => { let items: Vec<T> = (0..k).map(|i| T::make(next + i)).collect(); next += k;
                       match q.push_bulk(&items) { Ok(n) if n as u64 == k => shadow.extend(items.iter().map(|x| x.id())), r => return Some(format!("op {:?}: push_bulk of {} returned {:?}", o, k, r.ok())) } }
                3 => { let mut out: Vec<T> = (0..k).map(|_| T::make(0)).collect();
                       let n = q.pop_bulk(&mut out); let m = (k as usize).min(shadow.len());
                       let want: Vec<u64> = shadow.drain(..m).collect(); let got: Vec<u64> = out.iter().take(n).map(|x| x.id()).collect();
                       if got != want { let d = got.iter().zip(want.iter()).position(|(a, b)| a != b).unwrap_or(got.len().min(want.len()));
                           return Some(format!("op {:?}: pop_bulk({}) returned {} elements, a VecDeque drains {}; first difference at offset {}: {:?} / {:?}", o, k, got.len(), want.len(), d, got.get(d), want.get(d))); } }
                4 => { if q.reserve(k as usize).is_err() { return Some(format!("op {:?}: reserve refused", o)); } }
                5 => { q.clear(); shadow.clear(); }
                6 => { if q.front().map(|x| x.id()) != shadow.front().copied() { return Some(format!("op {:?}: front() = {:?}, VecDeque {:?}", o, q.front().map(|x| x.id()), shadow.front())); } }
                7 => { if q.back().map(|x| x.id()) != shadow.back().copied() { return Some(format!("op {:?}: back() = {:?}, VecDeque {:?}", o, q.back().map(|x| x.id()), shadow.back())); } }
                8 => { let c = q.clone(); q = c; }
                11 => { let c = q.clone();
                        if !(q == c) || !(c == q) { return Some(format!("op {:?}: q == q.clone() is false ({} elements)", o, shadow.len())); }
                        let mut d: AutoGrowCircularQueue<T> = AutoGrowCircularQueue::with_capacity(((k % 3) * 7 + 1) as usize);
                        for _ in 0..(k % 5) { let _ = d.push_back(T::make(0)); let _ = d.pop_front(); }
                        for (i, _) in shadow.iter().enumerate() { let _ = d.push_back(T::make(next - shadow.len() as u64 + i as u64)); }
                        // `d` holds freshly made values with the ids of the last len() pushes: equal only if the queue holds exactly those
                        let same_ids = shadow.iter().copied().eq((0..shadow.len() as u64).map(|i| T::make(next - shadow.len() as u64 + i).id()));
                        if same_ids && (!(q == d) || !(d == q)) { return Some(format!("op {:?}: == is false for a queue holding the same {} elements at another offset / capacity", o, shadow.len())); }
                        let _ = d.push_back(T::make(0));
                        if q == d { return Some(format!("op {:?}: == is true for queues of {} and {} elements", o, shadow.len(), shadow.len() + 1)); }
                        if T::DISTINCT && !shadow.is_empty() {
                            let n = shadow.len(); let pos = [0, n / 2, n - 1][(k % 3) as usize];
                            let mut e: AutoGrowCircularQueue<T> = AutoGrowCircularQueue::new();
                            let mut c2 = q.clone(); let mut i = 0;
                            while let Some(x) = c2.pop_front() { let _ = e.push_back(if i == pos { T::other_than(x.id()) } else { x }); i += 1; }
                            if q == e || e == q { return Some(format!("op {:?}: == is true for queues that differ at position {} of {}", o, pos, n)); }
                        } }
                12 => { let _ = format!("{:?}", q); }   // must not panic; the text itself is compared only for element types that mark their ids (ring_history)
                _ => {}
            }
            if q.len() != shadow.len() || q.is_empty() != shadow.is_empty() || q.capacity() < q.len() { return Some(format!("after op {:?}: len() = {} (capacity {}), a VecDeque holds {}", o, q.len(), q.capacity(), shadow.len())); }
            if q.front().map(|x| x.id()) != shadow.front().copied() || q.back().map(|x| x.id()) != shadow.back().copied() {
                return Some(format!("after op {:?}: front/back = {:?}/{:?}, VecDeque {:?}/{:?}", o, q.front().map(|x| x.id()), q.back().map(|x| x.id()), shadow.front(), shadow.back())); }
            if shadow.len() <= 48 { let mut c = q.clone(); let mut got = vec![]; while let Some(x) = c.pop_front() { got.push(x.id()); if got.len() > 100 { break; } }
                if !got.iter().copied().eq(shadow.iter().copied()) { return Some(format!("after op {:?}: a clone drains to {:?}, a VecDeque holds {:?}", o, got, shadow)); } }
        }
        // the whole sequence, drained in blocks
        let mut got: Vec<u64> = vec![];
        let mut buf: Vec<T> = (0..1000).map(|_| T::make(0)).collect();
        loop { let n = q.pop_bulk(&mut buf); if n == 0 { break; } got.extend(buf.iter().take(n).map(|x| x.id())); if got.len() > shadow.len() + 2000 { break; } }
        if !got.iter().copied().eq(shadow.iter().copied()) {
            let d = got.iter().zip(shadow.iter()).position(|(a, b)| a != b).unwrap_or(got.len().min(shadow.len()));
            return Some(format!("draining returned {} elements, a VecDeque holds {}; first difference at position {}", got.len(), shadow.len(), d)); }
        if q.pop_front().is_some() || !q.is_empty() { return Some("pop from the drained queue returned an element".into()); }
        None
    });
    match r { Err(p) => cx.sum.fail(cell, None, cj, &format!("panicked: {}", p)), Ok(Some(d)) => cx.sum.fail(cell, None, cj, &d), Ok(None) => {} }
}

pub fn fixed_plain<T: Elem + std::fmt::Debug, const N: usize>(cx: &mut Ctx, cell: &str, tag: &str, ops: &[Vec<u64>]) {
    let cj = json!({"cell": tag, "cap": N, "ops": ops});
    if journal(&cj) { return; }
    cx.sum.eval(cell, &key_of(&cj), ops.len() >= 3);
    cx.sum.cell_status(cell, "S-only");
    let r = guarded(|| -> Option<String> {
        let mut q: FixedCircularQueue<T, N> = if ops.len() % 2 == 0 { FixedCircularQueue::new() } else { Default::default() };
        let mut shadow: VecDeque<u64> = VecDeque::new();
        let mut next: u64 = 0;
        for o in ops {
            let code = op_arg(o, 0);
            match code {
                0 | 9 => { let x = T::make(next); next += 1; let id = x.id(); let full = shadow.len() == N;
                           match if code == 0 { q.push_back(x) } else { q.push(x) } { Ok(()) => { if full { return Some(format!("op {:?}: push beyond the capacity {} accepted", o, N)); } shadow.push_back(id); }
                                                                                         Err(_) => if !full { return Some(format!("op {:?}: push refused with {} of {} slots used", o, shadow.len(), N)); } } }
                1 | 10 => { let g = (if code == 1 { q.pop_front() } else { q.pop() }).map(|x| x.id()); let w = shadow.pop_front();
                            if g != w { return Some(format!("op {:?}: pop returned {:?}, a VecDeque returns {:?}", o, g, w)); } }
                5 => { q.clear(); shadow.clear(); }
                _ => {}
            }
            if q.len() != shadow.len() || q.is_empty() != shadow.is_empty() || q.is_full() != (shadow.len() == N) || q.capacity() != N { return Some(format!("after op {:?}: len() = {}, is_full() = {}, a bounded VecDeque holds {} of {}", o, q.len(), q.is_full(), shadow.len(), N)); }
            if q.front().map(|x| x.id()) != shadow.front().copied() || q.back().map(|x| x.id()) != shadow.back().copied() {
                return Some(format!("after op {:?}: front/back = {:?}/{:?}, VecDeque {:?}/{:?}", o, q.front().map(|x| x.id()), q.back().map(|x| x.id()), shadow.front(), shadow.back())); }
            let _ = format!("{:?}", q);
        }
        // the whole sequence
        let mut got = vec![]; while let Some(x) = q.pop_front() { got.push(x.id()); if got.len() > N + 2 { break; } }
        if !got.iter().copied().eq(shadow.iter().copied()) { return Some(format!("draining returned {:?}, a VecDeque holds {:?}", got, shadow)); }
        None
    });
    match r { Err(p) => cx.sum.fail(cell, None, cj, &format!("panicked: {}", p)), Ok(Some(d)) => cx.sum.fail(cell, None, cj, &d), Ok(None) => {} }
}

fn queue_cell(cx: &mut Ctx, tag: &str, cap: u64, big: bool, ops: &[Vec<u64>]) -> bool {
    match tag {
        "ring_u8" => ring_plain::<u8>(cx, "AutoGrowCircularQueue<u8>", tag, cap, big, ops),
        "ring_i16" => ring_plain::<i16>(cx, "AutoGrowCircularQueue<i16>", tag, cap, big, ops),
        "ring_u64" => ring_plain::<u64>(cx, "AutoGrowCircularQueue<u64>", tag, cap, big, ops),
        "ring_w3" => ring_plain::<Wide>(cx, "AutoGrowCircularQueue<24-byte struct>", tag, cap, big, ops),
        "ring_zst" => ring_plain::<()>(cx, "AutoGrowCircularQueue<()>", tag, cap, big, ops),
        "fixed_u8" => match cap { 1 => fixed_plain::<u8, 1>(cx, "FixedCircularQueue<u8>", tag, ops), 5 => fixed_plain::<u8, 5>(cx, "FixedCircularQueue<u8>", tag, ops), _ => fixed_plain::<u8, 32>(cx, "FixedCircularQueue<u8>", tag, ops) },
        "fixed_w3" => match cap { 1 => fixed_plain::<Wide, 1>(cx, "FixedCircularQueue<24-byte struct>", tag, ops), 5 => fixed_plain::<Wide, 5>(cx, "FixedCircularQueue<24-byte struct>", tag, ops), _ => fixed_plain::<Wide, 32>(cx, "FixedCircularQueue<24-byte struct>", tag, ops) },
        "fixed_i16" => match cap { 1 => fixed_plain::<i16, 1>(cx, "FixedCircularQueue<i16>", tag, ops), 5 => fixed_plain::<i16, 5>(cx, "FixedCircularQueue<i16>", tag, ops), _ => fixed_plain::<i16, 32>(cx, "FixedCircularQueue<i16>", tag, ops) },
        "fixed_zst" => match cap { 1 => fixed_plain::<(), 1>(cx, "FixedCircularQueue<()>", tag, ops), 5 => fixed_plain::<(), 5>(cx, "FixedCircularQueue<()>", tag, ops), _ => fixed_plain::<(), 32>(cx, "FixedCircularQueue<()>", tag, ops) },
        _ => return false,
    }
    true
}

// ---------------------------------------------------------------------------------------------
// several BumpVecs in one BumpAllocator: [which, 0] push  [which, 1] pop  [which, 2, i] write through as_mut_slice
//   vector 0: BumpVec<u8>, 1: BumpVec<El>, 2: BumpVec<u64>, 3: BumpVec<Wide>; single bytes are allocated in between so
//   that every block starts at an odd offset
// ---------------------------------------------------------------------------------------------
pub fn bump_shared(cx: &mut Ctx, caps: &[u64], ops: &[Vec<u64>]) {
    let cell = "BumpVec / shared allocator";
    let cj = json!({"cell": "bump_shared", "caps": caps, "ops": ops});
    if journal(&cj) { return; }
    cx.sum.eval(cell, &key_of(&cj), ops.len() >= 3);
    cx.sum.cell_status(cell, "S-only");
    reset_counters();
    let c = |i: usize| (caps.get(i).copied().unwrap_or(3).min(64) as usize).max(1);
    let r = guarded(|| -> Option<String> {
        let a = BumpAllocator::new(c(0) + c(1) * 8 + c(2) * 8 + c(3) * 24 + 96).ok()?;
        // a vector of byte-aligned elements directly behind one of 8-aligned elements, single bytes in between: every
        // block must start where the previous one ends (plus padding), never inside it
        let pad0 = a.alloc::<u8>().ok()?; unsafe { pad0.as_ptr().write(0xAA); }
        // can_allocate answers what the next allocation will do
        if !a.can_allocate(c(1) * 8, 8) || a.can_allocate(a.capacity() + 1, 1) || a.can_allocate(1, 3) { return Some("can_allocate() disagrees with what alloc_bytes() does".into()); }
        let mut v1: BumpVec<El> = BumpVec::new_in(&a, c(1)).ok()?;
        let mut v0: BumpVec<u8> = BumpVec::new_in(&a, c(0)).ok()?;
        let pad1 = a.alloc_bytes(1, 1).ok()?; unsafe { pad1.as_ptr().write(0xAA); }
        let mut v3: BumpVec<Wide> = BumpVec::new_in(&a, c(3)).ok()?;
        let pad2 = a.alloc_slice::<u8>(3).ok()?; unsafe { (pad2.as_ptr() as *mut u8).write_bytes(0xAA, 3); }
        let mut v2: BumpVec<u64> = BumpVec::new_in(&a, c(2)).ok()?;
        let pads_ok = || unsafe { *pad0.as_ptr() == 0xAA && *pad1.as_ptr() == 0xAA && std::slice::from_raw_parts(pad2.as_ptr() as *const u8, 3) == [0xAA; 3] };
        if a.remaining_bytes() > a.capacity() || a.allocated_bytes() as usize > a.capacity() { return Some("allocator accounting exceeds its capacity".into()); }
        let mut s: [Vec<u64>; 4] = [vec![], vec![], vec![], vec![]];
        let mut next: u64 = 0;
        let mut bad: Option<String> = None;
        for o in ops {
            let w = (op_arg(o, 0) % 4) as usize; let code = op_arg(o, 1); let i = op_arg(o, 2) as usize;
            let id = next; next += 1;
            macro_rules! step { ($v:expr, $t:ty) => {{
                match code {
                    0 => { let x = <$t as Elem>::make(id); let idv = x.id(); let full = s[w].len() >= c(w);
                           match $v.push(x) { Ok(()) => { if full { bad = Some(format!("op {:?}: push beyond the capacity accepted", o)); } s[w].push(idv); } Err(_) => if !full { bad = Some(format!("op {:?}: push refused", o)); } } }
                    1 => { let g = quiet(|| $v.pop().map(|x| x.id())); let want = s[w].pop(); if g != want { bad = Some(format!("op {:?}: pop returned {:?}, a Vec returns {:?}", o, g, want)); } }
                    _ => { let x = <$t as Elem>::make(id); let idv = x.id(); match $v.as_mut_slice().get_mut(i) { Some(slot) => { if i >= s[w].len() { bad = Some(format!("op {:?}: as_mut_slice() is longer than the vector", o)); } else { quiet(|| *slot = x); s[w][i] = idv; } } None => { if i < s[w].len() { bad = Some(format!("op {:?}: as_mut_slice() is shorter than the vector", o)); } } } }
                }
            }}; }
            match w { 0 => step!(v0, u8), 1 => step!(v1, El), 2 => step!(v2, u64), _ => step!(v3, Wide) }
            if bad.is_some() { break; }
            let got: [Vec<u64>; 4] = [v0.as_slice().iter().map(|x| x.id()).collect(), v1.as_slice().iter().map(|x| x.id()).collect(), v2.as_slice().iter().map(|x| x.id()).collect(), v3.as_slice().iter().map(|x| x.id()).collect()];
            for k in 0..4 { if got[k] != s[k] { bad = Some(format!("after op {:?}: vector {} holds {:?}, a Vec holds {:?}", o, k, got[k], s[k])); } }
            if bad.is_none() && (v0.len() != s[0].len() || v1.len() != s[1].len() || v2.len() != s[2].len() || v3.len() != s[3].len() || v1.capacity() != c(1)) { bad = Some(format!("after op {:?}: len() / capacity() disagree with the model", o)); }
            if bad.is_none() && !pads_ok() { bad = Some(format!("after op {:?}: a byte allocated between the vectors was overwritten", o)); }
            if bad.is_none() { bad = live_mismatch(s[1].iter(), next); }
            if bad.is_some() { break; }
        }
        if bad.is_some() { std::mem::forget(v1); return bad; }
        drop(v1); drop(v0); drop(v2); drop(v3);
        live_mismatch([].iter(), next).map(|d| format!("after Drop of the vectors: {}", d))
    });
    match r { Err(p) => cx.sum.fail(cell, None, cj, &format!("panicked: {}", p)), Ok(Some(d)) => cx.sum.fail(cell, None, cj, &d), Ok(None) => {} }
}

// ---------------------------------------------------------------------------------------------
// MmapVec re-opened read-only: whatever a mutator reports, the contents must be what a Vec holds after an operation
// with that outcome (refusal: unchanged; success: the operation's effect)
// ---------------------------------------------------------------------------------------------
pub fn mm_readonly(cx: &mut Ctx, n: u64, seed: u64) {
    let cell = "MmapVec<u64>/read_only";
    let cj = json!({"cell": "mm_readonly", "n": n, "seed": seed});
    if journal(&cj) { return; }
    cx.sum.eval(cell, &key_of(&cj), true);
    cx.sum.cell_status(cell, "S-only");
    let r = guarded(|| -> Option<String> {
        let p = mm_path();
        struct Rm(std::path::PathBuf); impl Drop for Rm { fn drop(&mut self) { let _ = std::fs::remove_file(&self.0); } }
        let _rm = Rm(p.clone());
        let mut rng = Rng::new(seed);
        let vals: Vec<u64> = (0..n).map(|_| rng.next()).collect();
        { let mut w = MmapVec::<u64>::create(&p, MmapVecConfig::builder().with_initial_capacity(4).build()).ok()?;
          if w.extend(vals.iter().copied()).is_err() || w.sync().is_err() { return Some("writing the vector failed".into()); } }
        let mut v = match MmapVec::<u64>::open(&p, MmapVecConfig::read_only()) { Ok(v) => v, Err(e) => return Some(format!("open(read_only) refused: {:?}", e)) };
        let mut shadow = vals.clone();
        macro_rules! same { ($what:expr) => { if v.as_slice() != &shadow[..] || v.len() != shadow.len() { return Some(format!("after {}: holds {} elements {:?}.., a Vec holds {} {:?}..", $what, v.len(), &v.as_slice()[..v.len().min(4)], shadow.len(), &shadow[..shadow.len().min(4)])); } }; }
        same!("open(read_only)");
        if v.push(7).is_ok() { shadow.push(7); } same!("push");
        if let Some(x) = v.pop() { if shadow.pop() != Some(x) { return Some("pop returned something else than the last element".into()); } } same!("pop");
        if v.resize(n as usize + 5, 9).is_ok() { shadow.resize(n as usize + 5, 9); } same!("resize");
        if v.truncate(1).is_ok() { shadow.truncate(1); } same!("truncate");
        if v.extend([1u64, 2, 3]).is_ok() { shadow.extend([1u64, 2, 3]); } same!("extend");
        if v.push_bulk_simd(&[4u64; 9]).is_ok() { shadow.extend([4u64; 9]); } same!("push_bulk_simd");
        if let Ok(l) = v.pop_bulk_simd(1) { if !shadow.is_empty() { let t = shadow.split_off(shadow.len() - 1); if t != l { return Some("pop_bulk_simd returned something else than the tail".into()); } } } same!("pop_bulk_simd");
        if !shadow.is_empty() && v.fill_range_simd(0..1, 5).is_ok() { shadow[0] = 5; } same!("fill_range_simd");
        if let Some(s) = v.get_mut(0) { *s = 11; shadow[0] = 11; } same!("get_mut");
        if let Some(s) = v.as_mut_slice().get_mut(0) { *s = 12; shadow[0] = 12; } same!("as_mut_slice");
        let _ = v.reserve(100); same!("reserve");
        let _ = v.shrink_to_fit(); same!("shrink_to_fit");
        if v.clear().is_ok() { shadow.clear(); } same!("clear");
        drop(v);
        // read-write again: what the file held before
        let mut v = match MmapVec::<u64>::open(&p, MmapVecConfig::default()) { Ok(v) => v, Err(e) => return Some(format!("re-opening read-write refused: {:?}", e)) };
        if v.as_slice() != &vals[..] { return Some(format!("re-opened read-write: {} elements, written {}", v.len(), vals.len())); }
        if v.push(3).is_err() || v.get(n as usize) != Some(&3) || v.len() != n as usize + 1 { return Some("push after re-opening read-write".into()); }
        None
    });
    match r { Err(p) => cx.sum.fail(cell, None, cj, &format!("panicked: {}", p)), Ok(Some(d)) => cx.sum.fail(cell, None, cj, &d), Ok(None) => {} }
}

// ---------------------------------------------------------------------------------------------
// string sets described by numbers
// ---------------------------------------------------------------------------------------------
/// n strings from `seed`: style 0 short strings over {a,b,c} (many duplicates and shared prefixes), 1 "item-NNNNN" with a
/// random tail (long common prefix), 2 mixed lengths 0..70 over a wide alphabet with some multi-byte characters
pub fn gen_many(n: u64, seed: u64, maxlen: usize) -> Vec<String> {
    let mut r = Rng::new(seed ^ 0xC10B);
    let style = seed % 3;
    (0..n).map(|i| {
        let s: String = match style {
            0 => { let l = r.below(10) as usize; (0..l).map(|_| (b'a' + r.below(3) as u8) as char).collect() }
            1 => format!("item-{:05}{}", r.below((n * 2).max(1)), if r.chance(1, 3) { "x".repeat(r.below(4) as usize) } else { String::new() }),
            _ => { if r.chance(1, 40) { ["", "é", "日本", "\u{10348}z"][r.below(4) as usize].to_string() } else { let l = r.below(70) as usize; (0..l).map(|_| *r.pick(b"abcdefghijklmnopqrstuvwxyz0123456789-_") as char).collect() } }
        };
        let _ = i;
        if s.len() > maxlen { let mut h = maxlen; while !s.is_char_boundary(h) { h -= 1; } s[..h].to_string() } else { s }
    }).collect()
}
pub fn str_big(cx: &mut Ctx, kind: u64, n: u64, seed: u64, mode: u64) {
    let maxlen = match kind { 1 => 4, 2 => 8, 3 => 16, 14 => 32, 15 => 64, _ => 70 };
    let strs = gen_many(n.min(1 << 17), seed, maxlen);
    let cj = json!({"cell": "str_big", "kind": kind, "n": n, "seed": seed, "mode": mode});
    let key = key_of(&cj);
    str_case_on(cx, kind, &strs, mode, cj, &key);
}
/// "head", one string of `len` bytes, "tail": the length limits of the packed index entries (2^20, 2^24)
pub fn str_long(cx: &mut Ctx, kind: u64, len: u64, mode: u64) {
    let strs = vec!["head".to_string(), "x".repeat(len.min(1 << 25) as usize), "tail".to_string(), "xxxx".to_string()];
    let cj = json!({"cell": "str_long", "kind": kind, "len": len, "mode": mode});
    let key = key_of(&cj);
    str_case_on(cx, kind, &strs, mode, cj, &key);
}

// ---------------------------------------------------------------------------------------------
// things that may end the process: each in a child process (the child writes what it saw to <out>/probe_detail.txt)
//   3 zero-sized elements in the vectors   4 zero-sized elements in the queues
//   5 MmapVec::<u64>::with_capacity_simd(200 000)   6 MmapVec::<u8>::with_capacity_simd(2^20)
// ---------------------------------------------------------------------------------------------
const PROBE_WHAT: [&str; 4] = ["histories over zero-sized elements (FastVec<()>, ValVec32<()>, CacheAlignedVec<()>)", "histories over zero-sized elements (AutoGrowCircularQueue<()>, FixedCircularQueue<(), N>)",
                               "MmapVec::<u64>::with_capacity_simd(200000), three pushes", "MmapVec::<u8>::with_capacity_simd(1 << 20), three pushes"];
const PROBE_CELL: [&str; 4] = ["vectors of zero-sized elements", "queues of zero-sized elements", "MmapVec<u64>/with_capacity_simd", "MmapVec<u8>/with_capacity_simd"];
fn zst_scripts() -> Vec<Vec<Vec<u64>>> {
    vec![vec![vec![0], vec![0], vec![0], vec![9, 1], vec![20, 2, 0], vec![24, 0], vec![23], vec![22, 1], vec![1], vec![10], vec![0], vec![7, 5], vec![24, 1], vec![22, 3], vec![5], vec![0], vec![1], vec![1]],
         vec![vec![7, 70], vec![2, 3], vec![3, 0], vec![4, 100], vec![4, 10], vec![13, 2, 9], vec![6], vec![16, 40], vec![25], vec![21, 3, 1], vec![11, 0], vec![8, 1000], vec![12, 4], vec![14, 2], vec![15, 9], vec![19, 12], vec![18, 20], vec![10], vec![24, 2], vec![23], vec![5]]]
}
pub fn probe_child(mode: u64, out: &str) {
    let mut cx = Ctx { sum: Summary::new("C10", "probe"), shards: CoqShards::new(HEADER, 150), budgets: Default::default() };
    let mut direct: Option<String> = None;
    match mode {
        3 => { for ops in zst_scripts() { for tag in ["fastvec_zst", "valvec32_zst", "cachevec_zst"] { for cap in [0u64, 5] { vec_cell(&mut cx, tag, cap, (0, false), &ops, Coq::Never); } } } }
        4 => { let ops: Vec<Vec<u64>> = vec![vec![0], vec![0], vec![9], vec![12], vec![1], vec![2, 7], vec![11, 3], vec![3, 4], vec![8], vec![4, 30], vec![2, 40], vec![6], vec![7], vec![10], vec![12], vec![5], vec![0], vec![1], vec![1]];
               for cap in [0u64, 1, 2, 8] { queue_cell(&mut cx, "ring_zst", cap, false, &ops); }
               for cap in [1u64, 5, 32] { queue_cell(&mut cx, "fixed_zst", cap, false, &ops); } }
        _ => { direct = guarded(|| -> Option<String> {
                   fn go<T: Elem + Copy + 'static>(n: usize) -> Option<String> {
                       let mut v = match MmapVec::<T>::with_capacity_simd(n) { Ok(v) => v, Err(e) => return Some(format!("refused: {:?}", e)) };
                       if v.len() != 0 || !v.is_empty() { return Some(format!("a new vector has len() = {}", v.len())); }
                       let xs: Vec<T> = (0..3).map(T::make).collect();
                       for x in &xs { if v.push(*x).is_err() { return Some("push refused".into()); } }
                       let got: Vec<u64> = v.as_slice().iter().map(|x| x.id()).collect();
                       if got != xs.iter().map(|x| x.id()).collect::<Vec<_>>() || v.capacity() < 3 { return Some(format!("holds {:?} after three pushes", got)); }
                       None }
                   if mode == 5 { go::<u64>(200_000) } else { go::<u8>(1 << 20) } }).unwrap_or_else(|p| Some(format!("panicked: {}", p))); }
    }
    let detail = direct.or_else(|| cx.sum.failures.first().map(|f| format!("{} - case {}", f["detail"].as_str().unwrap_or("?"), f["case"])));
    if let Some(d) = &detail { let _ = std::fs::write(format!("{}/probe_detail.txt", out), d); }
    std::process::exit(if detail.is_some() { 3 } else { 0 });
}
pub fn probe(cx: &mut Ctx, args: &Args, mode: u64) {
    let k = (mode.saturating_sub(3) as usize).min(3);
    let cell = PROBE_CELL[k];
    let cj = json!({"cell": "probe", "mode": mode});
    if journal(&cj) { return; }
    cx.sum.eval(cell, &key_of(&cj), true);
    cx.sum.cell_status(cell, "S-only");
    let dir = format!("{}/probe_{}", args.out, mode);
    std::fs::create_dir_all(&dir).ok();
    let f = format!("{}/spec.json", dir);
    std::fs::write(&f, json!({"case": {"cell": "fastvec_probe_child", "mode": mode}}).to_string()).ok();
    let st = std::process::Command::new(std::env::current_exe().expect("current_exe"))
        .args(["C10", "--seed", "0", "--tier", "quick", "--out", &dir, "--replay", &f])
        .env("ZV_C10_CHILD", "1").env_remove("ZV_C10_JOURNAL").env_remove("ZV_C10_SKIP")
        .stdout(std::process::Stdio::null()).stderr(std::process::Stdio::null()).status();
    let detail = std::fs::read_to_string(format!("{}/probe_detail.txt", dir)).unwrap_or_default();
    std::fs::remove_dir_all(&dir).ok();
    match st {
        Ok(s) if s.success() => {}
        Ok(s) if s.code() == Some(3) => cx.sum.fail(cell, None, cj, &format!("{}: {}", PROBE_WHAT[k], detail)),
        Ok(s) => cx.sum.fail(cell, None, cj, &format!("{}: the process was terminated ({}) where a value or an error is demanded", PROBE_WHAT[k], s)),
        Err(e) => cx.sum.notes.push(format!("probe: cannot start the child process: {}", e)),
    }
}

// ---------------------------------------------------------------------------------------------
// replay dispatch for the cells of this file; false = not one of them
// ---------------------------------------------------------------------------------------------
pub fn run_one(cx: &mut Ctx, c: &Value, args: &Args) -> bool {
    let n = |k: &str| c[k].as_u64().unwrap_or(0);
    let tag = c["cell"].as_str().unwrap_or("");
    match tag {
        "bump_shared" => bump_shared(cx, &c["caps"].as_array().map(|a| a.iter().map(|x| x.as_u64().unwrap_or(1)).collect::<Vec<_>>()).unwrap_or_default(), &parse_ops(&c["ops"])),
        "mm_readonly" => mm_readonly(cx, n("n"), n("seed")),
        "str_big" => str_big(cx, n("kind"), n("n"), n("seed"), n("mode")),
        "str_long" => str_long(cx, n("kind"), n("len"), n("mode")),
        "probe" => probe(cx, args, n("mode")),
        t => return queue_cell(cx, t, n("cap"), c["big"].as_bool().unwrap_or(false), &parse_ops(&c["ops"])),
    }
    true
}

/// script around a size threshold `n`: fill up to one below, cross it, insert / remove at both ends and in the middle,
/// bulk operations that straddle it, clone, ==, shrink, replace, drain
fn big_script(n: u64, has_extend: bool) -> Vec<Vec<u64>> {
    vec![vec![if has_extend { 7 } else { 26 }, n - 1], vec![0], vec![25], vec![9, n], vec![20, n - 1, 3], vec![2, 1], vec![3, 0], vec![2, n / 2], vec![21, n, 1], vec![21, n - 2, 0], vec![4, n + 3], vec![4, n - 2],
         vec![13, 3, n - 3], vec![13, n - 70, n - 2], vec![10], vec![22, n / 3], vec![6], vec![24, 1], vec![14, n / 2], vec![16, n / 2 + 1], vec![11, n - 1], vec![15, n], vec![17, 2 * n], vec![8, n], vec![12, n - 1],
         vec![18, n + 1], vec![3, n / 2], vec![27], vec![1], vec![19, n], vec![22, 7], vec![1], vec![5], vec![7, 3], vec![23]]
}
fn big_ring_script(n: u64) -> Vec<Vec<u64>> {
    // rotate the head, fill exactly, grow while wrapped, drain in blocks that straddle the wrap point
    vec![vec![2, 5], vec![3, 5], vec![2, n - 1], vec![0], vec![6], vec![7], vec![3, n / 2], vec![2, n / 2 + 1], vec![2, n], vec![11, 4], vec![8], vec![3, n - 3], vec![4, n], vec![2, 2 * n], vec![9], vec![10], vec![3, n + 7], vec![11, 2], vec![12]]
}

/// every family of this file, from the one generator
pub fn run_all(cx: &mut Ctx, args: &Args, rng: &mut Rng) {
    let t0 = std::time::Instant::now();
    let dbg = std::env::var("ZV_DEBUG").is_ok();
    let stage = |what: &str| if dbg { eprintln!("[c10 breadth] {:>8.2}s {}", t0.elapsed().as_secs_f64(), what); };
    let rounds: u64 = if args.thorough { 24000 } else { 2040 };
    // (cell, operation vocabulary, amounts around the 64-byte thresholds, constructors)
    let fv_copy: &[u64] = &[0, 0, 1, 2, 3, 4, 5, 6, 7, 7, 8, 9, 10, 13, 15, 17, 18, 19, 20, 20, 21, 21, 22, 22, 23, 24];
    let vv_copy: &[u64] = &[0, 0, 1, 5, 7, 8, 9, 10, 11, 16, 20, 20, 21, 21, 22, 23, 24, 25, 25];
    let vv_clone: &[u64] = &[0, 0, 1, 5, 7, 8, 9, 10, 11, 20, 20, 21, 21, 22, 23, 24, 25, 25];
    let cache: &[u64] = &[0, 0, 0, 1, 5, 8, 9, 12, 20, 21, 21];
    let mm: &[u64] = &[0, 0, 1, 4, 5, 6, 7, 7, 8, 9, 12, 13, 14, 15, 20, 21, 21, 22, 24, 27];
    let c001: &[u64] = &[0, 0, 1]; let c0123: &[u64] = &[0, 1, 2, 3]; let c012: &[u64] = &[0, 1, 2]; let c0: &[u64] = &[0];
    let fv_el: &[u64] = &[0, 0, 1, 2, 3, 4, 5, 6, 7, 8, 9, 10, 18, 19, 20, 20, 21, 21, 22, 23, 24];
    let bump: &[u64] = &[0, 0, 0, 1, 9, 20, 21, 21]; let layout: &[u64] = &[0, 0, 0, 9, 20, 20];
    let wide: [(&str, &[u64], bool, &[u64]); 17] = [
        ("fastvec_u64", fv_copy, true, c001), ("fastvec_u8", fv_copy, true, c001), ("fastvec_i16", fv_copy, true, c001),
        ("fastvec_u128", fv_copy, true, c001), ("fastvec_w3", fv_copy, true, c001), ("fastvec_el", fv_el, false, c001),
        ("valvec32_el", vv_clone, false, c0123), ("valvec32_i16", vv_clone, true, c0123),
        ("valvec32_u64", vv_copy, true, c0123), ("valvec32_u8", vv_copy, true, c0123), ("valvec32_w3", vv_copy, true, c0123),
        ("cachevec_el", cache, false, c012), ("cachevec_u8", cache, true, c012), ("cachevec_u64", cache, true, c012), ("cachevec_w3", cache, false, c012),
        ("bumpvec_el", bump, false, c0), ("layoutvec_u64", layout, false, c0),
    ];
    let mm_cells: [&str; 4] = ["mmapvec_u64", "mmapvec_u8", "mmapvec_i16", "mmapvec_w3"];
    let q_ops = |r: &mut Rng, cap: u64| { let mut o = gen_ring_ops(r, cap); for x in o.iter_mut() { if x[0] == 0 && r.chance(1, 6) { x[0] = 9; } else if x[0] == 1 && r.chance(1, 6) { x[0] = 10; } } o };
    for i in 0..rounds {
        let cap0 = CAPS[(i % 9) as usize];
        let (tag, allowed, bigam, ctors) = wide[(i % wide.len() as u64) as usize];
        let ops = gen_vec_ops(rng, allowed, bigam);
        if i < 2 { cx.sum.sample(json!({"breadth_cell": tag, "ops": ops.iter().take(10).collect::<Vec<_>>()})); }
        vec_cell(cx, tag, if tag == "bumpvec_el" { cap0.max(1) } else { cap0 }, (*rng.pick(ctors), false), &ops, Coq::Never);
        if i % 5 == 0 {
            let ops = gen_vec_ops(rng, mm, i % 10 == 0);
            vec_cell(cx, mm_cells[((i / 5) % 4) as usize], cap0, (*rng.pick(&[0u64, 0, 4, 6, 7, 8, 9, 11]), false), &ops, Coq::Never);
        }
        if i % 3 == 0 {
            let tag = ["ring_u8", "ring_i16", "ring_u64", "ring_w3"][((i / 3) % 4) as usize];
            let ops = q_ops(rng, cap0);
            queue_cell(cx, tag, cap0, false, &ops);
            let n = [1u64, 5, 32][((i / 3) % 3) as usize];
            let ops = gen_fixed_ops(rng, n);
            queue_cell(cx, ["fixed_u8", "fixed_w3", "fixed_i16"][((i / 9) % 3) as usize], n, false, &ops);
        }
        if i % 4 == 0 {
            let caps: Vec<u64> = (0..4).map(|_| *rng.pick(&[1u64, 2, 3, 7, 8])).collect();
            let ops: Vec<Vec<u64>> = (0..rng.range(6, 40)).map(|_| { let w = rng.below(4); let c = rng.below(10); if c < 6 { vec![w, 0] } else if c < 8 { vec![w, 1] } else { vec![w, 2, rng.below(9)] } }).collect();
            bump_shared(cx, &caps, &ops);
        }
    }
    stage("random families done");
    // ---- presets: every MmapVec preset as it is, one history each and element type u64 / u8 ----
    for (k, alt) in [1u64, 2, 3, 5, 10, 12].iter().enumerate() {
        let ops: Vec<Vec<u64>> = vec![vec![0], vec![7, 9], vec![20, 3, 1], vec![21, 2, k as u64], vec![13, 1, 8], vec![22, 5], vec![14, 2], vec![4, 70], vec![27], vec![24, 0], vec![15, 33], vec![12, 5], vec![6], vec![0], vec![27], vec![1], vec![5], vec![0]];
        vec_cell(cx, if k % 2 == 0 { "mmapvec_u64" } else { "mmapvec_u8" }, 0, (*alt, false), &ops, Coq::Never);
    }
    for (n, seed) in [(0u64, 1u64), (1, 2), (9, 3), (700, 4), (9000, 5)] { mm_readonly(cx, n, seed); }
    stage("presets / read-only done");
    // ---- sizes that cross an internal threshold, as numbers in the case ----
    //   512 u64 = 4096 bytes (prefetch switch of copy_from_simd); 8182 u64 / 65456 u8 = the 64 KiB minimum mapping of MmapVec
    //   (80-byte header); 2^16 and 2^20 elements (u16-sized counters, large reallocations)
    let big_cells: [(&str, &[u64]); 14] = [
        ("fastvec_u8", &[4096, 65536, 1 << 20]), ("fastvec_u64", &[512, 65536, 1 << 20]), ("fastvec_i16", &[65536]), ("fastvec_u128", &[4096]), ("fastvec_w3", &[2731]), ("fastvec_el", &[65536]),
        ("valvec32_u64", &[65536, 1 << 20]), ("valvec32_u8", &[65536]), ("valvec32_el", &[65536]),
        ("cachevec_u8", &[65536]), ("cachevec_el", &[4096]),
        ("mmapvec_u64", &[512, 8182, 65536]), ("mmapvec_u8", &[4096, 65456, 1 << 20]), ("mmapvec_w3", &[2727]),
    ];
    for (tag, sizes) in big_cells.iter() { for &n in sizes.iter() { for d in [0u64, 1] { stage(&format!("{} {}", tag, n + d)); vec_cell(cx, tag, if d == 0 { 0 } else { 3 }, (0, true), &big_script(n + d, !tag.starts_with("cachevec")), Coq::Never); } } }
    for (tag, n) in [("ring_u64", 4096u64), ("ring_u64", 65536), ("ring_u64", 1 << 20), ("ring_u8", 65536), ("ring_w3", 4096), ("ring_i16", 65535)] {
        // initial capacities: the default, a small one (growth all the way), and one past the size itself (rounded up once, by with_capacity)
        for cap in [0u64, 8, n + 1] { stage(&format!("{} {}", tag, n)); queue_cell(cx, tag, cap, true, &big_ring_script(n)); } }
    // ---- string sets: more than 512 strings (block search of SortableStrVec::binary_search, rank-select blocks of
    //      ZoSortedStrVec), 2^16 strings, and the length limits of the index entries ----
    for kind in 0..STR_KINDS {
        for (n, seed) in [(513u64, 0u64), (1100, 1), (1025, 2), (5000, 0)] {
            let advanced = (9..=13).contains(&kind);
            // AdvancedStringVec re-reads every earlier index while it is filled; a ZoSortedStrVec lookup scans up to a
            // select-sample of bits: both stay below a few thousand strings
            if (advanced || (4..=6).contains(&kind)) && (n > 1100 || n == 1025) { continue; }
            stage(&format!("str_big {} {}", kind, n)); str_big(cx, kind, n, seed + kind, rng.below(30));
        }
    }
    for (kind, seed, mode) in [(0u64, 1u64, 0u64), (0, 0, 1), (0, 2, 14), (7, 1, 3), (8, 2, 15), (3, 0, 0), (15, 2, 1)] { stage(&format!("str_big {} 70000", kind)); str_big(cx, kind, 70000, seed, mode); }
    for (kind, len) in [(7u64, 1u64 << 24), (8, (1 << 24) - 1), (8, 1 << 24), (9, (1 << 24) - 1), (9, 1 << 24), (10, (1 << 24) - 1), (12, 1 << 24), (13, 1 << 20)] { stage(&format!("str_long {} {}", kind, len)); str_long(cx, kind, len, 1); }
    stage("strings done");
    // ---- element types and constructors that may end the process ----
    for mode in 3..7 { probe(cx, args, mode); }
    stage("probes done");
}
