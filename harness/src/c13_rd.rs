//! C13, part 4: buffered / ranged / zero-copy / memory-mapped readers and writers as state machines.
//! Oracle: under an arbitrary history of read sizes (and skip/peek/seek where offered) the reader must
//! present exactly the inner byte stream restricted to its range; a writer must deliver exactly the
//! accepted bytes, in order.
use super::c13_io::{sb_cfg, u8s, Chunky, ChunkyW};
use super::Ctx;
use crate::util::*;
use serde_json::{json, Value};
use std::io::{BufRead, Cursor, Read, Seek, SeekFrom, Write};
use zipora::io::zero_copy::{ZeroCopyRead, ZeroCopyWrite};
use zipora::io::{DataInput, MemoryMappedInput, MmapZeroCopyReader, MultiRangeReader, RangeReader, RangeWriter, StreamBufferedReader, StreamBufferedWriter, ZeroCopyReader, ZeroCopyWriter};

#[derive(Clone, Debug, PartialEq)]
pub enum Out { Bytes(Vec<u8>), Peek(Vec<u8>), Nothing, Avail(usize), Skipped, Pos(u64), Err(String), Unsupported }

pub type Op = (String, i64);
pub fn ops_json(ops: &[Op]) -> Value { Value::Array(ops.iter().map(|(a, b)| json!([a, b])).collect()) }
pub fn ops_parse(v: &Value) -> Vec<Op> {
    v.as_array().map(|a| a.iter().filter_map(|x| Some((x.get(0)?.as_str()?.to_string(), x.get(1).and_then(|n| n.as_i64()).unwrap_or(0)))).collect()).unwrap_or_default()
}

pub trait Rd { fn op(&mut self, name: &str, n: i64) -> Out; }

fn rd_generic<R: Read>(r: &mut R, name: &str, n: i64) -> Option<Out> {
    match name {
        "read" => { let mut b = vec![0u8; n as usize]; Some(match r.read(&mut b) { Ok(k) if k <= b.len() => { b.truncate(k); Out::Bytes(b) } Ok(k) => Out::Err(format!("read returned {} for a {}-byte buffer", k, n)), Err(e) => Out::Err(e.to_string()) }) }
        "exact" => { let mut b = vec![0u8; n as usize]; Some(match r.read_exact(&mut b) { Ok(()) => Out::Bytes(b), Err(e) => Out::Err(e.to_string()) }) }
        _ => None,
    }
}
fn seek_generic<R: Seek>(r: &mut R, name: &str, n: i64) -> Option<Out> {
    let w = match name { "seek_start" => SeekFrom::Start(n as u64), "seek_cur" => SeekFrom::Current(n), "seek_end" => SeekFrom::End(n), _ => return None };
    Some(match r.seek(w) { Ok(p) => Out::Pos(p), Err(e) => Out::Err(e.to_string()) })
}

struct Sbr<R: Read> { r: StreamBufferedReader<R> }
impl<R: Read> Sbr<R> {
    fn common(&mut self, name: &str, n: i64) -> Option<Out> {
        if let Some(o) = rd_generic(&mut self.r, name, n) { return Some(o); }
        let e = |x: zipora::ZiporaError| Out::Err(x.to_string());
        Some(match name {
            "byte" => self.r.read_byte_fast().map(|b| Out::Bytes(vec![b])).unwrap_or_else(e),
            "slice" => match self.r.read_slice(n as usize) { Ok(Some(s)) => Out::Bytes(s.to_vec()), Ok(None) => Out::Nothing, Err(x) => e(x) },
            "ensure" => self.r.ensure_buffered(n as usize).map(Out::Avail).unwrap_or_else(e),
            "simd" => { let mut b = vec![0u8; n as usize]; match self.r.read_simd_optimized(&mut b) { Ok(k) => { b.truncate(k); Out::Bytes(b) } Err(x) => e(x) } }
            "bulk" => { let mut b = vec![0u8; n as usize]; match self.r.read_bulk(&mut b) { Ok(k) => { b.truncate(k); Out::Bytes(b) } Err(x) => e(x) } }
            "fill_buf" => match self.r.fill_buf() { Ok(s) => Out::Peek(s.to_vec()), Err(x) => Out::Err(x.to_string()) },
            "consume" => {
                // BufRead protocol: consume at most what fill_buf just showed
                let k = match self.r.fill_buf() { Ok(s) => s.len().min(n as usize), Err(x) => return Some(Out::Err(x.to_string())) };
                let s = self.r.fill_buf().unwrap()[..k].to_vec();
                self.r.consume(k);
                Out::Bytes(s)
            }
            _ => return None,
        })
    }
}
struct SbrSeek(Sbr<Cursor<Vec<u8>>>);
impl Rd for SbrSeek { fn op(&mut self, name: &str, n: i64) -> Out { self.0.common(name, n).or_else(|| seek_generic(&mut self.0.r, name, n)).unwrap_or(Out::Unsupported) } }
struct SbrPlain<R: Read>(Sbr<R>);
impl<R: Read> Rd for SbrPlain<R> { fn op(&mut self, name: &str, n: i64) -> Out { self.0.common(name, n).unwrap_or(Out::Unsupported) } }

struct Rng_<R>(RangeReader<R>);
impl<R: Read> Rng_<R> {
    fn common(&mut self, name: &str, n: i64) -> Option<Out> {
        if let Some(o) = rd_generic(&mut self.0, name, n) { return Some(o); }
        Some(match name {
            "skip" => match DataInput::skip(&mut self.0, n as usize) { Ok(()) => Out::Skipped, Err(x) => Out::Err(x.to_string()) },
            "byte" => match self.0.read_u8() { Ok(b) => Out::Bytes(vec![b]), Err(x) => Out::Err(x.to_string()) },
            "slice" => match self.0.read_vec(n as usize) { Ok(b) => Out::Bytes(b), Err(x) => Out::Err(x.to_string()) },
            "pos" => Out::Pos(DataInput::position(&self.0).unwrap_or(u64::MAX)),
            _ => return None,
        })
    }
}
struct RngSeek(Rng_<Cursor<Vec<u8>>>);
impl Rd for RngSeek {
    fn op(&mut self, name: &str, n: i64) -> Out {
        if let Some(o) = self.0.common(name, n) { return o; }
        match name {
            "reset" => match self.0 .0.reset() { Ok(()) => Out::Pos(0), Err(x) => Out::Err(x.to_string()) },
            "seek_in" => match self.0 .0.seek_in_range(n as u64) { Ok(p) => Out::Pos(p), Err(x) => Out::Err(x.to_string()) },
            _ => seek_generic(&mut self.0 .0, name, n).unwrap_or(Out::Unsupported),
        }
    }
}
struct RngPlain<R: Read>(Rng_<R>);
impl<R: Read> Rd for RngPlain<R> { fn op(&mut self, name: &str, n: i64) -> Out { self.0.common(name, n).unwrap_or(Out::Unsupported) } }

struct Zc<R: Read>(ZeroCopyReader<R>);
impl<R: Read> Rd for Zc<R> {
    fn op(&mut self, name: &str, n: i64) -> Out {
        if let Some(o) = rd_generic(&mut self.0, name, n) { return o; }
        let e = |x: zipora::ZiporaError| Out::Err(x.to_string());
        match name {
            "peek" => self.0.peek(n as usize).map(|s| Out::Peek(s.to_vec())).unwrap_or_else(e),
            "skip" => self.0.skip_bytes(n as usize).map(|_| Out::Skipped).unwrap_or_else(e),
            "opt" => { let mut b = vec![0u8; n as usize]; match self.0.read_optimized(&mut b) { Ok(k) => { b.truncate(k); Out::Bytes(b) } Err(x) => e(x) } }
            "ensure" => self.0.zc_ensure(n as usize).map(Out::Avail).unwrap_or_else(e),
            "slice" => {
                let s = match self.0.zc_read(n as usize) { Ok(Some(s)) => s.to_vec(), Ok(None) => return Out::Nothing, Err(x) => return e(x) };
                match self.0.zc_advance(n as usize) { Ok(()) => Out::Bytes(s), Err(x) => e(x) }
            }
            _ => Out::Unsupported,
        }
    }
}
struct MmZc(MmapZeroCopyReader);
impl Rd for MmZc {
    fn op(&mut self, name: &str, n: i64) -> Out {
        if let Some(o) = rd_generic(&mut self.0, name, n) { return o; }
        let e = |x: zipora::ZiporaError| Out::Err(x.to_string());
        match name {
            "peek" => match self.0.zc_read(n as usize) { Ok(Some(s)) => Out::Peek(s.to_vec()), Ok(None) => Out::Nothing, Err(x) => e(x) },
            "slice" => {
                let s = match self.0.zc_read(n as usize) { Ok(Some(s)) => s.to_vec(), Ok(None) => return Out::Nothing, Err(x) => return e(x) };
                match self.0.zc_advance(n as usize) { Ok(()) => Out::Bytes(s), Err(x) => e(x) }
            }
            "skip" => self.0.zc_advance(n as usize).map(|_| Out::Skipped).unwrap_or_else(e),
            "seek_start" => self.0.set_position(n as usize).map(|_| Out::Pos(n as u64)).unwrap_or_else(e),
            "pos" => Out::Pos(self.0.position() as u64),
            "ensure" => self.0.zc_ensure(n as usize).map(Out::Avail).unwrap_or_else(e),
            _ => Out::Unsupported,
        }
    }
}
struct Mmi(MemoryMappedInput);
impl Rd for Mmi {
    fn op(&mut self, name: &str, n: i64) -> Out {
        let e = |x: zipora::ZiporaError| Out::Err(x.to_string());
        let buffered = self.0.strategy() == zipora::io::InputStrategy::BufferedIO;
        match name {
            "read" | "exact" | "slice" => self.0.read_slice(n as usize).map(Out::Bytes).unwrap_or_else(e),
            "zslice" => if buffered { Out::Unsupported } else { self.0.read_slice_zero_copy(n as usize).map(|s| Out::Bytes(s.to_vec())).unwrap_or_else(e) },
            "peek" => if buffered { Out::Unsupported } else { self.0.peek_slice(n as usize).map(Out::Peek).unwrap_or_else(e) },
            "zpeek" => if buffered { Out::Unsupported } else { self.0.peek_slice_zero_copy(n as usize).map(|s| Out::Peek(s.to_vec())).unwrap_or_else(e) },
            "skip" => DataInput::skip(&mut self.0, n as usize).map(|_| Out::Skipped).unwrap_or_else(e),
            "seek_start" => self.0.seek(n as usize).map(|_| Out::Pos(n as u64)).unwrap_or_else(e),
            "byte" => self.0.read_u8().map(|b| Out::Bytes(vec![b])).unwrap_or_else(e),
            "pos" => Out::Pos(self.0.position() as u64),
            _ => Out::Unsupported,
        }
    }
}
struct Multi(MultiRangeReader<Cursor<Vec<u8>>>);
impl Rd for Multi { fn op(&mut self, name: &str, n: i64) -> Out { rd_generic(&mut self.0, name, n).unwrap_or(Out::Unsupported) } }

/// How the reference interprets the reader: its byte stream, whether short answers are legal, seek rules.
pub struct Spec {
    pub stream: Vec<u8>,
    pub cap: usize,          // requests up to this size must be served in full by peek/slice when the data exists
    pub seek_clamp: Option<u64>, // Some(range_len): seeks clamp into [0, range_len]; None: pass-through
    pub exact_reads: bool,   // "read" behaves like read_exact or fails (MemoryMappedInput::read_slice)
}

pub const N_RKIND: usize = 11;
pub fn rkind_name(k: usize) -> &'static str {
    ["sbr", "sbr_chunky", "range", "range_chunky", "zc", "zc_chunky", "mmap_zc", "mmapped_input", "multi_range", "range_over_sbr", "sbr_over_range"][k % N_RKIND]
}
fn g(cfg: &[u64], i: usize, d: u64) -> u64 { cfg.get(i).copied().unwrap_or(d) }

/// cfg: [cap, max_cap, readahead, mult, bulk, growth15, chunk, start, len, pool]
pub fn build(cx: &Ctx, kind: usize, data: &[u8], cfg: &[u64]) -> Result<(Box<dyn Rd>, Spec), String> {
    let e = |x: zipora::ZiporaError| x.to_string();
    let cap = g(cfg, 0, 8).max(1) as usize;
    let max = (g(cfg, 1, 0) as usize).max(cap);
    let sc = sb_cfg(cap, max, g(cfg, 2, 1) == 1, g(cfg, 3, 2) as usize, (g(cfg, 4, 8192) as usize).max(1), if g(cfg, 5, 0) == 1 { 1.5 } else { 2.0 }, g(cfg, 9, 0) == 1);
    let chunk = g(cfg, 6, 1).max(1) as usize;
    let start = g(cfg, 7, 0);
    let len = g(cfg, 8, data.len() as u64);
    let dl = data.len() as u64;
    let range_bytes = || data[(start.min(dl) as usize)..(start.saturating_add(len).min(dl) as usize)].to_vec();
    let path = format!("{}/rd_{}.bin", cx.tmp, kind % N_RKIND);
    Ok(match kind % N_RKIND {
        0 => (Box::new(SbrSeek(Sbr { r: StreamBufferedReader::with_config(Cursor::new(data.to_vec()), sc).map_err(e)? })), Spec { stream: data.to_vec(), cap, seek_clamp: None, exact_reads: false }),
        1 => (Box::new(SbrPlain(Sbr { r: StreamBufferedReader::with_config(Chunky { inner: Cursor::new(data.to_vec()), k: chunk }, sc).map_err(e)? })), Spec { stream: data.to_vec(), cap: 0, seek_clamp: None, exact_reads: false }),
        2 => (Box::new(RngSeek(Rng_(RangeReader::new_and_seek(Cursor::new(data.to_vec()), start, len).map_err(e)?))), Spec { stream: range_bytes(), cap: usize::MAX, seek_clamp: Some(start.saturating_add(len) - start), exact_reads: false }),
        3 => {
            // a non-seekable inner positioned at `start` by reading
            let mut inner = Chunky { inner: Cursor::new(data.to_vec()), k: chunk };
            let mut sk = vec![0u8; start.min(dl) as usize];
            inner.read_exact(&mut sk).map_err(|x| x.to_string())?;
            let st = start.min(dl);
            (Box::new(RngPlain(Rng_(RangeReader::new(inner, st, len)))), Spec { stream: data[st as usize..(st.saturating_add(len).min(dl) as usize)].to_vec(), cap: usize::MAX, seek_clamp: None, exact_reads: false })
        }
        4 => (Box::new(Zc(ZeroCopyReader::with_capacity(Cursor::new(data.to_vec()), cap).map_err(e)?)), Spec { stream: data.to_vec(), cap, seek_clamp: None, exact_reads: false }),
        5 => (Box::new(Zc(if g(cfg, 9, 0) == 1 { ZeroCopyReader::with_secure_buffer(Chunky { inner: Cursor::new(data.to_vec()), k: chunk }, cap).map_err(e)? } else { ZeroCopyReader::with_capacity(Chunky { inner: Cursor::new(data.to_vec()), k: chunk }, cap).map_err(e)? })), Spec { stream: data.to_vec(), cap, seek_clamp: None, exact_reads: false }),
        6 => {
            if data.is_empty() { return Err("skip: empty file cannot be mapped".into()); }
            std::fs::write(&path, data).map_err(|x| x.to_string())?;
            (Box::new(MmZc(MmapZeroCopyReader::new(std::fs::File::open(&path).map_err(|x| x.to_string())?).map_err(e)?)), Spec { stream: data.to_vec(), cap: usize::MAX, seek_clamp: None, exact_reads: false })
        }
        7 => {
            std::fs::write(&path, data).map_err(|x| x.to_string())?;
            (Box::new(Mmi(MemoryMappedInput::from_path(&path).map_err(e)?)), Spec { stream: data.to_vec(), cap: usize::MAX, seek_clamp: None, exact_reads: true })
        }
        8 => {
            // cfg[10..] = (start, end) pairs
            let mut ranges = vec![];
            let mut stream = vec![];
            let mut i = 10;
            while i + 1 < cfg.len() { let (a, b) = (cfg[i].min(dl), cfg[i + 1].min(dl)); ranges.push((a, b)); if a < b { stream.extend_from_slice(&data[a as usize..b as usize]); } i += 2; }
            (Box::new(Multi(MultiRangeReader::new(Cursor::new(data.to_vec()), ranges))), Spec { stream, cap: 0, seek_clamp: None, exact_reads: false })
        }
        9 => {
            let mut r = StreamBufferedReader::with_config(Cursor::new(data.to_vec()), sc).map_err(e)?;
            let st = start.min(dl);
            let mut sk = vec![0u8; st as usize];
            r.read_exact(&mut sk).map_err(|x| x.to_string())?;
            (Box::new(RngPlain(Rng_(RangeReader::new(r, st, len)))), Spec { stream: data[st as usize..(st.saturating_add(len).min(dl) as usize)].to_vec(), cap: usize::MAX, seek_clamp: None, exact_reads: false })
        }
        _ => {
            let rr = RangeReader::new_and_seek(Cursor::new(data.to_vec()), start, len).map_err(e)?;
            (Box::new(SbrPlain(Sbr { r: StreamBufferedReader::with_config(rr, sc).map_err(e)? })), Spec { stream: range_bytes(), cap, seek_clamp: None, exact_reads: false })
        }
    })
}

/// Runs the history; Err(msg) = the reader broke the property at some op.
pub fn drive(rd: &mut dyn Rd, spec: &Spec, ops: &[Op], obs: &mut Vec<(Op, Out)>) -> Result<(), String> {
    let r = &spec.stream;
    let rl = r.len() as u64;
    let mut p: u64 = 0; // logical position, may lie past the end after a seek
    for (idx, (name, n)) in ops.iter().enumerate() {
        let n = *n;
        let out = rd.op(name, n);
        obs.push(((name.clone(), n), out.clone()));
        let at = |m: String| format!("op {} ({} {}), logical position {} of {}: {}", idx, name, n, p, rl, m);
        let left = rl.saturating_sub(p);
        let here = |k: usize| -> &[u8] { if p >= rl { &[] } else { &r[p as usize..(p as usize + k).min(r.len())] } };
        match (name.as_str(), out) {
            (_, Out::Unsupported) => {}
            ("read" | "simd" | "bulk" | "opt" | "consume", Out::Bytes(b)) if !(spec.exact_reads && name == "read") => {
                if b.len() as i64 > n { return Err(at(format!("returned {} bytes", b.len()))); }
                if b.len() as u64 > left || b[..] != *here(b.len()) { return Err(at(format!("returned {:?}, the stream has {:?}", b, here(b.len())))); }
                if b.is_empty() && n > 0 && left > 0 { return Err(at("reported end of stream although bytes remain".into())); }
                p += b.len() as u64;
            }
            ("read" | "exact" | "slice" | "zslice" | "byte", Out::Bytes(b)) => {
                let want = if name == "byte" { 1 } else { n as usize };
                if b.len() != want { return Err(at(format!("returned {} bytes", b.len()))); }
                if want as u64 > left || b[..] != *here(want) { return Err(at(format!("returned {:?}, the stream has {:?}", b, here(want)))); }
                p += want as u64;
            }
            ("exact" | "slice" | "zslice" | "byte" | "read", Out::Err(e)) if name != "read" || spec.exact_reads => {
                let want = if name == "byte" { 1 } else { n as u64 };
                if want <= left && (want as usize <= spec.cap || name == "exact" || name == "byte") { return Err(at(format!("failed although the bytes exist: {}", e))); }
                if want <= left { continue; } // larger than the buffer can ever hold: refusing is legal, state unchanged
                return Ok(()); // ran past the end: position afterwards is unspecified
            }
            ("slice", Out::Nothing) => { if n as u64 <= left && n as usize <= spec.cap { return Err(at("no data although the bytes exist and fit the buffer".into())); } }
            ("peek" | "zpeek" | "fill_buf", Out::Peek(b)) => {
                if b.len() as u64 > left || b[..] != *here(b.len()) { return Err(at(format!("showed {:?}, the stream has {:?}", b, here(b.len())))); }
                if name == "fill_buf" { if b.is_empty() && left > 0 { return Err(at("fill_buf is empty although bytes remain".into())); } }
                else {
                    if b.len() as i64 > n { return Err(at(format!("showed {} bytes", b.len()))); }
                    if n as usize <= spec.cap && (b.len() as u64) < (n as u64).min(left) { return Err(at(format!("showed only {} bytes although the request fits the buffer", b.len()))); }
                }
            }
            ("peek" | "zpeek", Out::Nothing) => { if n as u64 <= left { return Err(at("no data although the bytes exist".into())); } }
            ("peek" | "zpeek", Out::Err(e)) => { if n as u64 <= left { return Err(at(format!("failed although the bytes exist: {}", e))); } }
            ("ensure", Out::Avail(k)) => { if k as u64 > left { return Err(at(format!("claims {} buffered bytes", k))); } if n as usize <= spec.cap && (k as u64) < (n as u64).min(left) { return Err(at(format!("only {} bytes buffered although the request fits the buffer", k))); } }
            ("ensure", Out::Err(e)) => { if n as usize <= spec.cap { return Err(at(format!("failed: {}", e))); } }
            ("skip", Out::Skipped) => { if n as u64 > left { return Err(at("skipped past the end without an error".into())); } p += n as u64; }
            ("skip", Out::Err(e)) => { if n as u64 <= left { return Err(at(format!("failed although the bytes exist: {}", e))); } return Ok(()); }
            ("pos", Out::Pos(q)) => { if q != p { return Err(at(format!("reports position {}", q))); } }
            ("reset", Out::Pos(_)) => p = 0,
            ("seek_in", Out::Pos(q)) => { if q != n as u64 { return Err(at(format!("returned {}", q))); } p = q; }
            ("seek_in", Out::Err(_)) => { if (n as u64) < spec.seek_clamp.unwrap_or(0) { return Err(at("refused a position inside the range".into())); } }
            ("seek_start" | "seek_cur" | "seek_end", Out::Pos(q)) => {
                let end = spec.seek_clamp.unwrap_or(rl) as i128;
                let tgt: i128 = match name.as_str() { "seek_start" => n as i128, "seek_cur" => p as i128 + n as i128, _ => end + n as i128 };
                let want = match spec.seek_clamp { Some(l) => tgt.clamp(0, l as i128), None => tgt };
                if want < 0 { return Err(at(format!("seek before the start succeeded with {}", q))); }
                if q as i128 != want { return Err(at(format!("seek returned {}, want {}", q, want))); }
                p = q;
            }
            ("seek_start" | "seek_cur" | "seek_end", Out::Err(e)) => {
                let end = spec.seek_clamp.unwrap_or(rl) as i128;
                let tgt: i128 = match name.as_str() { "seek_start" => n as i128, "seek_cur" => p as i128 + n as i128, _ => end + n as i128 };
                if spec.seek_clamp.is_some() || (tgt >= 0 && tgt <= rl as i128) { return Err(at(format!("seek failed: {}", e))); }
                return Ok(()); // refused an out-of-range target: later position is unspecified for pass-through seeks
            }
            (_, Out::Err(e)) => return Err(at(format!("failed: {}", e))),
            (_, o) => return Err(at(format!("unexpected outcome {:?}", o))),
        }
    }
    Ok(())
}

pub fn reader(cx: &mut Ctx, kind: usize, data: &[u8], cfg: &[u64], ops: &[Op], force: bool) {
    let kind = kind % N_RKIND;
    let cell = format!("reader/{}", rkind_name(kind));
    let cj = json!({"cell": "reader", "kind": kind, "data": data, "cfg": cfg, "ops": ops_json(ops)});
    if !cx.gate(&cj) { return; }
    cx.sum.eval(&cell, &cj.to_string(), ops.len() >= 3);
    cx.sum.dist_max("reader_max_ops", ops.len() as u64);
    let mut obs = vec![];
    let r = guarded(|| -> Result<(), String> {
        let (mut rd, spec) = match build(cx, kind, data, cfg) { Ok(x) => x, Err(e) if e.starts_with("skip:") => return Ok(()), Err(e) => return Err(format!("constructor failed: {}", e)) };
        drive(rd.as_mut(), &spec, ops, &mut obs)
    });
    match r {
        Err(p) => cx.sum.fail(&cell, None, cj, &format!("panicked: {}", p)),
        Ok(Err(why)) => cx.sum.fail(&cell, None, cj, &why),
        Ok(Ok(())) => cx.coq_reader(kind, data, cfg, &obs, force),
    }
}

// ------------------------------------------------------------------------------------------
// writers
// ------------------------------------------------------------------------------------------
pub const N_WKIND: usize = 5;
pub fn wkind_name(k: usize) -> &'static str { ["sbw", "sbw_chunky", "zcw", "zcw_chunky", "range_writer"][k % N_WKIND] }

fn payload(counter: &mut u64, n: usize) -> Vec<u8> { (0..n).map(|_| { *counter += 1; (*counter * 31 + (*counter >> 8)) as u8 }).collect() }

/// cfg: [cap, bulk, chunk, start, len, prefill]
pub fn writer(cx: &mut Ctx, kind: usize, cfg: &[u64], ops: &[Op]) {
    let kind = kind % N_WKIND;
    let cell = format!("writer/{}", wkind_name(kind));
    let cj = json!({"cell": "writer", "kind": kind, "cfg": cfg, "ops": ops_json(ops)});
    if !cx.gate(&cj) { return; }
    cx.sum.eval(&cell, &cj.to_string(), ops.len() >= 3);
    let cap = g(cfg, 0, 8) as usize;
    let bulk = (g(cfg, 1, 8192) as usize).max(1);
    let chunk = g(cfg, 2, 1).max(1) as usize;
    let e = |x: zipora::ZiporaError| x.to_string();
    let r = guarded(|| -> Result<(), String> {
        let mut accepted: Vec<u8> = vec![];
        let mut ctr = 0u64;
        // generic driver over io::Write (+ optional zero-copy interface)
        fn run<W: Write>(w: &mut W, ops: &[Op], accepted: &mut Vec<u8>, ctr: &mut u64, zc: &mut dyn FnMut(&mut W, usize, &[u8]) -> Result<Option<bool>, String>) -> Result<(), String> {
            for (idx, (name, n)) in ops.iter().enumerate() {
                match name.as_str() {
                    "write" => { let d = payload(ctr, *n as usize); let k = w.write(&d).map_err(|x| format!("op {} write({}) failed: {}", idx, n, x))?; if k > d.len() { return Err(format!("op {}: write accepted {} of {}", idx, k, d.len())); } accepted.extend_from_slice(&d[..k]); }
                    "write_all" => { let d = payload(ctr, *n as usize); w.write_all(&d).map_err(|x| format!("op {} write_all({}) failed: {}", idx, n, x))?; accepted.extend_from_slice(&d); }
                    "flush" => w.flush().map_err(|x| format!("op {} flush failed: {}", idx, x))?,
                    "zc" => { let d = payload(ctr, *n as usize); if let Some(true) = zc(w, *n as usize, &d)? { accepted.extend_from_slice(&d); } }
                    _ => {}
                }
            }
            Ok(())
        }
        let got: Vec<u8> = match kind {
            0 | 1 => {
                let sc = sb_cfg(cap.max(1), cap.max(1), true, 2, bulk, 2.0, false);
                let mut none = |_: &mut StreamBufferedWriter<ChunkyW>, _: usize, _: &[u8]| -> Result<Option<bool>, String> { Ok(None) };
                let mut w = StreamBufferedWriter::with_config(ChunkyW { inner: vec![], k: if kind == 1 { chunk } else { usize::MAX } }, sc).map_err(e)?;
                // single bytes through the fast path are part of the same stream
                let mut ops2 = vec![];
                for (name, n) in ops { if name == "byte" { run(&mut w, &ops2, &mut accepted, &mut ctr, &mut none)?; ops2.clear(); let d = payload(&mut ctr, 1); w.write_byte_fast(d[0]).map_err(e)?; accepted.push(d[0]); let _ = n; } else { ops2.push((name.clone(), *n)); } }
                run(&mut w, &ops2, &mut accepted, &mut ctr, &mut none)?;
                w.into_inner().map_err(|x| x.to_string())?.inner
            }
            2 | 3 => {
                let mut zc = |w: &mut ZeroCopyWriter<ChunkyW>, n: usize, d: &[u8]| -> Result<Option<bool>, String> {
                    match w.zc_write(n).map_err(|x| x.to_string())? { Some(s) => { if s.len() != n { return Err(format!("zc_write({}) handed out {} bytes", n, s.len())); } s.copy_from_slice(d); } None => return Ok(Some(false)) }
                    w.zc_commit(n).map_err(|x| x.to_string())?;
                    Ok(Some(true))
                };
                let mut w = ZeroCopyWriter::with_capacity(ChunkyW { inner: vec![], k: if kind == 3 { chunk } else { usize::MAX } }, cap).map_err(e)?;
                run(&mut w, ops, &mut accepted, &mut ctr, &mut zc)?;
                w.into_inner().map_err(|x| x.to_string())?.inner
            }
            _ => {
                let (start, len, pre) = (g(cfg, 3, 0), g(cfg, 4, 16), g(cfg, 5, 32) as usize);
                let orig: Vec<u8> = (0..pre).map(|x| 0xA0u8 ^ (x as u8)).collect();
                let mut none = |_: &mut RangeWriter<Cursor<Vec<u8>>>, _: usize, _: &[u8]| -> Result<Option<bool>, String> { Ok(None) };
                let mut w = RangeWriter::new_and_seek(Cursor::new(orig.clone()), start, len).map_err(e)?;
                // writes past the range end are refused (0 bytes), never spill over
                let only_write: Vec<Op> = ops.iter().filter(|(n, _)| n == "write" || n == "flush").cloned().collect();
                run(&mut w, &only_write, &mut accepted, &mut ctr, &mut none)?;
                if accepted.len() as u64 > len { return Err(format!("range writer accepted {} bytes into a {}-byte range", accepted.len(), len)); }
                if w.bytes_written() != accepted.len() as u64 || w.remaining() != len - accepted.len() as u64 { return Err("range writer counters".into()); }
                let out = w.into_inner().into_inner();
                // expected: the original with [start, start+accepted) overwritten and nothing else touched
                // (a std Cursor zero-fills a gap when positioned past its end; that is not the range writer's doing)
                let s0 = start as usize;
                let hi = orig.len().max(s0 + accepted.len());
                if out.len() < orig.len() || out.len() > hi || (!accepted.is_empty() && out.len() < s0 + accepted.len()) { return Err(format!("range writer left {} bytes, original {} bytes, range start {}, accepted {}", out.len(), orig.len(), s0, accepted.len())); }
                for (i, &b) in out.iter().enumerate() {
                    let want = if i >= s0 && i < s0 + accepted.len() { accepted[i - s0] } else if i < orig.len() { orig[i] } else { 0 };
                    if b != want { return Err(format!("range writer left byte {} = {}, want {} (range start {}, accepted {} bytes)", i, b, want, s0, accepted.len())); }
                }
                return Ok(());
            }
        };
        if got != accepted { return Err(format!("destination holds {} bytes {:?}, the writer accepted {} bytes {:?}", got.len(), &got[..got.len().min(40)], accepted.len(), &accepted[..accepted.len().min(40)])); }
        Ok(())
    });
    match r {
        Err(p) => cx.sum.fail(&cell, None, cj, &format!("panicked: {}", p)),
        Ok(Err(why)) => cx.sum.fail(&cell, None, cj, &why),
        Ok(Ok(())) => {}
    }
}

// ------------------------------------------------------------------------------------------
// generators
// ------------------------------------------------------------------------------------------
pub fn gen_sizes(r: &mut Rng, cap: usize) -> i64 {
    let c = cap as i64;
    let opts = [0, 1, 2, 3, c - 1, c, c + 1, 2 * c, 2 * c + 1, c / 2, 7, 64];
    let v = if r.chance(3, 4) { *r.pick(&opts) } else { r.below(3 * cap as u64 + 4) as i64 };
    v.max(0)
}
pub fn gen_reader_case(r: &mut Rng, kind: usize) -> (Vec<u8>, Vec<u64>, Vec<Op>) {
    let kind = kind % N_RKIND;
    let cap = *r.pick(&[1usize, 2, 3, 4, 5, 8, 16]);
    let dl = match r.below(6) { 0 => 0, 1 => cap, 2 => cap + 1, 3 => 4 * cap + 3, 4 => r.below(20) as usize, _ => r.below(12 * cap as u64 + 2) as usize };
    // MemoryMappedInput switches from buffered I/O to a memory map above 4096 bytes
    let dl = if kind == 7 && r.chance(1, 2) { *r.pick(&[4000usize, 4095, 4096, 4097, 4200, 4500]) } else { dl };
    let data: Vec<u8> = (0..dl).map(|i| (i as u8).wrapping_mul(13).wrapping_add(r.below(3) as u8)).collect();
    let max = *r.pick(&[cap, cap, cap + 1, 2 * cap, 4 * cap + 1, 64]);
    let start = match r.below(4) { 0 => 0, 1 => r.below(dl as u64 + 2), _ => r.below(dl as u64 / 2 + 1) };
    let len = match r.below(5) { 0 => 0, 1 => dl as u64, 2 => u64::MAX, _ => r.below(dl as u64 + 3) };
    let mut cfg = vec![cap as u64, max as u64, r.below(2), 1 + r.below(4), *r.pick(&[1u64, 2, 4, 8, 8192, 8192]), r.below(2), 1 + r.below(3), start, len, r.chance(1, 10) as u64];
    if kind == 8 { for _ in 0..r.below(5) { let a = r.below(dl as u64 + 1); let b = a + r.below(dl as u64 + 2 - a.min(dl as u64)); cfg.push(a); cfg.push(b.min(dl as u64)); } }
    let names: &[&str] = match kind {
        0 => &["read", "read", "read", "byte", "slice", "ensure", "simd", "bulk", "fill_buf", "consume", "exact", "seek_start", "seek_cur", "seek_cur", "seek_end"],
        1 | 10 => &["read", "read", "read", "byte", "slice", "ensure", "simd", "bulk", "fill_buf", "consume", "exact"],
        2 => &["read", "read", "read", "skip", "byte", "slice", "pos", "exact", "seek_start", "seek_cur", "seek_end", "reset", "seek_in"],
        3 | 9 => &["read", "read", "read", "skip", "byte", "slice", "pos", "exact"],
        4 | 5 => &["read", "read", "read", "peek", "skip", "opt", "ensure", "slice", "exact"],
        6 => &["read", "read", "peek", "slice", "skip", "seek_start", "pos", "ensure", "exact"],
        7 => &["read", "slice", "zslice", "peek", "zpeek", "skip", "seek_start", "byte", "pos"],
        _ => &["read", "read", "exact"],
    };
    let nops = match r.below(4) { 0 => r.below(4), 1 => 30 + r.below(40), _ => r.below(16) } as usize;
    let mut ops = vec![];
    for _ in 0..nops {
        let name = *r.pick(names);
        let n = match name {
            "seek_cur" | "seek_end" => { let m = gen_sizes(r, cap); if r.chance(1, 2) { -m } else { m } }
            "seek_start" | "seek_in" => if r.chance(1, 3) { (dl as i64 - r.below(12) as i64 + 2).max(0) } else { r.below(dl as u64 + 3) as i64 },
            _ => gen_sizes(r, cap),
        };
        ops.push((name.to_string(), n));
    }
    // a long tail of small reads drains the stream across many refills
    if r.chance(1, 3) { for _ in 0..(dl / 2 + 3).min(60) { ops.push(("read".to_string(), 1 + r.below(3) as i64)); } }
    (data, cfg, ops)
}
pub fn gen_writer_case(r: &mut Rng, kind: usize) -> (Vec<u64>, Vec<Op>) {
    let cap = *r.pick(&[0usize, 1, 2, 3, 4, 8, 16]);
    let cfg = vec![cap as u64, *r.pick(&[1u64, 2, 4, 8, 8192, 8192]), 1 + r.below(3), r.below(40), r.below(24), r.below(48)];
    let names: &[&str] = match kind % N_WKIND { 0 | 1 => &["write", "write", "write_all", "byte", "flush"], 2 | 3 => &["write", "write", "write_all", "zc", "flush"], _ => &["write", "write", "flush"] };
    let nops = if r.chance(1, 4) { 30 + r.below(30) } else { r.below(14) } as usize;
    let ops = (0..nops).map(|_| ((*r.pick(names)).to_string(), gen_sizes(r, cap.max(1)))).collect();
    (cfg, ops)
}
pub fn parse_reader(c: &Value) -> (usize, Vec<u8>, Vec<u64>, Vec<Op>) {
    (c["kind"].as_u64().unwrap_or(0) as usize, u8s(&c["data"]), c["cfg"].as_array().map(|a| a.iter().map(|x| x.as_u64().unwrap_or(0)).collect()).unwrap_or_default(), ops_parse(&c["ops"]))
}
